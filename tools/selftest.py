"""./check selftest [seeds] - demonstrates that the specifications are bound to what is recorded (rule R5 of DESIGN.md).
1. Pattern T: a handful of executions of the real library are recorded and accepted by the TLA+ observers; then ONE field / record of the
   trace is corrupted at a time and TLC must report the designated clause (and nothing is reported for the uncorrupted trace).
2. Known-findings triage: a corrupted trace that violates a clause listed as an open finding, but not at the listed site, must stay a VIOLATION.
3. Pattern F: one output field of one recorded row is corrupted and the TLC judge must reject exactly that row.
4. `./check selftest seeds` additionally runs tools/seedmatrix.py (every kept seeded change against the check of its property, in scratch worktrees).
Exit 0 iff every expectation holds."""
import json, os, subprocess, sys
import vlib, streams


def corruptions():
    def first(recs, pred):
        for i, r in enumerate(recs):
            if pred(r):
                return i
        raise KeyError("selftest: no record to corrupt")

    def dup_tx_complete(recs):
        i = first(recs, lambda r: r.get("e") == "Cb" and r.get("n") == "transaction_complete")
        return recs[:i + 1] + [dict(recs[i])] + recs[i + 1:]

    def swap_line_headers(recs):
        i = first(recs, lambda r: r.get("e") == "Cb" and r.get("n") == "response_line")
        j = first(recs, lambda r: r.get("e") == "Cb" and r.get("n") == "response_headers")
        out = list(recs); out[i], out[j] = out[j], out[i]
        return out

    def short_consume(recs):
        i = first(recs, lambda r: r.get("e") == "Ret" and r.get("rc") == "DATA" and r.get("consumed", 0) > 1)
        out = list(recs); out[i] = dict(out[i], consumed=out[i]["consumed"] - 1)
        return out

    def odd_rc(recs):
        i = first(recs, lambda r: r.get("e") == "Ret" and r.get("d") == "res")
        out = list(recs); out[i] = dict(out[i], rc="NOPE")
        return out

    def entity_len(recs):
        i = first(recs, lambda r: r.get("e") == "Cb" and r.get("n") == "response_complete" and r.get("dl", -1) > 0)
        out = list(recs); out[i] = dict(out[i], el=out[i]["el"] + 1)
        return out

    def progress_back(recs):
        i = first(recs, lambda r: r.get("e") == "Cb" and r.get("n") == "response_headers")
        out = list(recs); out[i] = dict(out[i], sp=0)
        return out

    def drop_ret(recs):
        i = first(recs, lambda r: r.get("e") == "Ret")
        return recs[:i] + recs[i + 1:]

    def live_at_end(recs):
        i = first(recs, lambda r: r.get("e") == "End")
        out = list(recs); out[i] = dict(out[i], live=3)
        return out

    def over_hard(recs):
        i = first(recs, lambda r: r.get("e") == "Ret")
        out = list(recs); out[i] = dict(out[i], ibuf=20000)
        return out

    return [("duplicate TRANSACTION_COMPLETE callback", dup_tx_complete, "C05:CompleteAtMostOnce"),
            ("RESPONSE_LINE and RESPONSE_HEADERS callbacks swapped", swap_line_headers, "C05:Order"),
            ("return DATA with consumed = len - 1", short_consume, "C09:DataMeansAll"),
            ("undocumented return code", odd_rc, "C09:RetDocumented"),
            ("entity length one more than delivered", entity_len, "C06:EntityLenIsDelivered"),
            ("response progress moves backwards", progress_back, "C05:ProgressMonotone"),
            ("a call without its return record", drop_ret, "C01:EveryCallReturns"),
            ("live allocations after teardown", live_at_end, "C01:TeardownClean"),
            ("bytes retained above the hard limit", over_hard, "C10:BufferedWithinHard")]


ALL = ["C01", "C04", "C05", "C06", "C09", "C10", "C16"]


def main(args):
    ctx = vlib.Ctx("SELFTEST", "quick", 1)
    fails = []
    exe = vlib.build(ctx, "san", ["rec", "fn_urlenc"])
    lib = streams.exchange_library()
    scns = []
    for name in ("get3", "post_head", "pipe3", "close_delim", "expect100"):
        ex = lib[name]
        scns.append(streams.scn_from_exchange("self/" + name, ex, [(">", ex["q"]), ("<", ex["s"])]))
    files = streams.run_rec(ctx, exe["rec"], scns, "self", nshards=1)
    base = [json.loads(l) for l in open(files[0])]
    execs, events, viols = streams.judge_obs(ctx, files, ALL)
    if viols or execs != len(scns):
        fails.append("baseline trace not accepted: %s" % viols[:3])
    print("selftest: baseline %d execution(s), %d event(s) accepted" % (execs, events))
    for what, fn, clause in corruptions():
        recs = fn(base)
        f = ctx.path("corrupt.ndjson")
        open(f, "w").write("".join(json.dumps(r, separators=(",", ":")) + "\n" for r in recs))
        try:
            _, _, v = streams.judge_obs(ctx, [f], ALL)
            got = sorted({x["clause"] for x in v})
        except vlib.Infra as e:
            got = ["INFRA:" + str(e)[:80]]
            v = []
        ok = clause in got
        print("selftest: %-55s -> %s %s" % (what, "REJECTED" if ok else "NOT DETECTED", got))
        if not ok:
            fails.append("%s: expected %s, got %s" % (what, clause, got))
        if clause == "C05:CompleteAtMostOnce":
            # an open finding excuses this clause only at site res_complete_early_yield; the corrupted trace has no such site
            c5 = vlib.Ctx("C05", "quick", 1)
            kf = [x for x in v if x["clause"] == clause and vlib.triage(c5, x) is not None]
            print("selftest: %-55s -> %s" % ("  ... is not excused by the open finding keyed on another site", "OK" if not kf else "EXCUSED (wrong)"))
            if kf:
                fails.append("known-finding triage excused a violation without its site")
    # trace acceptance by the code-shaped model: the recorded executions (with state-function brackets) are behaviours of HtpParser.tla;
    # with ONE field of one record changed (the state a state function leaves, a callback's transaction, the bytes left) they are not
    import drift
    dscns = []
    for name in ("get3", "post_head", "connect_404"):
        ex = lib[name]
        dscns.append(streams.scn_from_exchange("selfd/" + name, ex, [(">", ex["q"]), ("<", ex["s"])], {"steps": 1}))
    dfiles = streams.run_rec(ctx, exe["rec"], dscns, "selfd", nshards=1)
    acc, tot, dr = drift.accept(ctx, dfiles, nshards=1)
    print("selftest: model acceptance of %d recorded execution(s)                 -> %s" % (tot, "ACCEPTED" if acc == tot == len(dscns) else "REJECTED %s" % dr[:1]))
    if not (acc == tot == len(dscns)):
        fails.append("HtpParser.tla does not accept the baseline executions: %s" % dr[:1])
    drecs = [json.loads(l) for l in open(dfiles[0])]
    def corrupt_se(recs):
        i = [k for k, r in enumerate(recs) if r.get("e") == "SE" and r.get("s2") == "REQ_HEADERS"][0]
        out = list(recs); out[i] = dict(out[i], s2="REQ_BODY_DETERMINE"); return out
    def corrupt_cbtx(recs):
        i = [k for k, r in enumerate(recs) if r.get("e") == "Cb" and r.get("n") == "response_headers"][0]
        out = list(recs); out[i] = dict(out[i], tx=out[i]["tx"] + 1); return out
    def corrupt_left(recs):
        i = [k for k, r in enumerate(recs) if r.get("e") == "SE" and r.get("left", 0) > 3][0]
        out = list(recs); out[i] = dict(out[i], left=out[i]["left"] - 1); return out
    for what, fn in (("a state function leaves another state", corrupt_se), ("a callback for another transaction", corrupt_cbtx), ("one byte fewer left after a step", corrupt_left)):
        f = ctx.path("dcorrupt.ndjson")
        open(f, "w").write("".join(json.dumps(r, separators=(",", ":")) + "\n" for r in fn(drecs)))
        a2, t2, d2 = drift.accept(ctx, [f], nshards=1)
        ok = len(d2) >= 1
        print("selftest: model acceptance, %-42s -> %s" % (what, "REJECTED (drift at record %s)" % d2[0]["line_in_execution"] if ok else "ACCEPTED (wrong)"))
        if not ok:
            fails.append("corrupted trace accepted by HtpParser.tla: " + what)
    # hybrid-mode API: recorded executions are behaviours of HtpHybrid.tla; a corrupted return code / progress field / callback is not
    import hybrid
    hs = hybrid.scenarios(ctx)[:6]
    hfiles = streams.run_rec(ctx, exe["rec"], hs, "selfh", nshards=1)
    hacc = hybrid.accept(ctx, hfiles)
    okh = hacc["hybrid_traces_accepted"] == hacc["hybrid_traces_offered"] == len(hs)
    print("selftest: hybrid model acceptance of %d recorded execution(s)          -> %s" % (len(hs), "ACCEPTED" if okh else "REJECTED %s" % hacc["hybrid_drifts"][:1]))
    if not okh:
        fails.append("HtpHybrid.tla does not accept the baseline hybrid executions")
    hrecs = [json.loads(l) for l in open(hfiles[0])]
    def h_rc(recs):
        i = [k for k, r in enumerate(recs) if r.get("e") == "HRet" and r.get("op") == "qheaders"][0]
        out = list(recs); out[i] = dict(out[i], rc="ERROR"); return out
    def h_sp(recs):
        i = [k for k, r in enumerate(recs) if r.get("e") == "HRet" and r.get("op") == "sstart"][0]
        out = list(recs); out[i] = dict(out[i], sp=2); return out
    def h_cb(recs):
        i = [k for k, r in enumerate(recs) if r.get("e") == "Cb" and r.get("n") == "request_complete"][0]
        return recs[:i] + recs[i + 1:]
    for what, fn in (("a state function returns another code", h_rc), ("response progress not LINE after the start", h_sp), ("REQUEST_COMPLETE callback missing", h_cb)):
        f = ctx.path("hcorrupt.ndjson")
        open(f, "w").write("".join(json.dumps(r, separators=(",", ":")) + "\n" for r in fn(hrecs)))
        ctx.drift = []
        h2 = hybrid.accept(ctx, [f])
        ok = len(h2["hybrid_drifts"]) >= 1
        print("selftest: hybrid acceptance, %-45s -> %s" % (what, "REJECTED (drift at record %s)" % h2["hybrid_drifts"][0]["line"] if ok else "ACCEPTED (wrong)"))
        if not ok:
            fails.append("corrupted hybrid trace accepted by HtpHybrid.tla: " + what)
    ctx.drift = []
    # pattern F
    rows = subprocess.run([exe["fn_urlenc"], "exh", "3", "0", "64"], capture_output=True, text=True, env=vlib.san_env()).stdout.splitlines()
    if len(rows) < 5:
        fails.append("fn_urlenc produced %d rows" % len(rows))
    else:
        k = len(rows) // 2
        r = json.loads(rows[k])
        r["outs"][1] = r["outs"][1] + [[[122], [122]]]          # the second chunking reports one more pair than the others
        for label, lines, expect_bad in (("recorded rows", rows, 0), ("one row with an extra output pair", rows[:k] + [json.dumps(r, separators=(",", ":"))] + rows[k + 1:], 1)):
            f = ctx.path("rows.ndjson")
            open(f, "w").write("\n".join(lines) + "\n")
            t = vlib.run_tlc(ctx, "UrlEncodedRows", "UrlEncodedRows.cfg", env={"ROWS": f}, workers=1, timeout=600, xmx="3g", cont=True, name="selfrows")
            import re
            ks = re.findall(r"violated by the initial state:\s*\n(?:/\\ )?k = (\d+)", t.out)
            ok = (len(ks) == expect_bad) and (not expect_bad or int(ks[0]) == k + 1) and not t.error
            print("selftest: pattern F, %-41s -> %s (bad rows %s)" % (label, "OK" if ok else "WRONG", ks))
            if not ok:
                fails.append("pattern F %s: bad rows %s error %s" % (label, ks, t.error))
    if "seeds" in args:
        p = subprocess.run([sys.executable, os.path.join(vlib.VERIF, "tools", "seedmatrix.py")] + [a for a in args if a != "seeds"])
        if p.returncode:
            fails.append("seed matrix: at least one seeded change was not detected")
    for f in fails:
        print("SELFTEST-FAIL:", f)
    print("selftest: %s" % ("all expectations hold" if not fails else "%d failure(s)" % len(fails)))
    return 1 if fails else 0
