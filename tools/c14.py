"""C14 - multipart bodies: parts are exact and independent of chunking.
Specification: spec/Multipart.tla (abstract documents, ExpectedParts / ExpectedFlags / ExpectedParams: ground truth by construction, chunking-free) and spec/MultipartMC.tla
(streaming data-mode matcher = reference for every chunking, model-checked); TLC generates the documents (MultipartGen) and judges every chunking of every document
(MultipartJudge): direct parser + FILE_DATA hook, and a full POST (body parameters)."""
import json, os, re, sys
import vlib, wire


def render(d):
    eol = b"\r\n" if d["eol"] == "crlf" else b"\n"
    lws = b" " if d["lws"] else b""
    def esc(s):
        return s.replace("\\", "\\\\").replace('"', '\\"').encode()
    body = b""
    if d["pre"]:
        body += bytes(d["pre"][0]) + eol
    elif d.get("lead"):
        body += eol          # the line end of the first delimiter, with nothing in front of it
    for p in d["parts"]:
        body += b"--BB" + lws + eol
        cd = b'form-data;' + (eol + b" " if p["fold"] else b" ") + b'name="' + esc(p["name"]) + b'"'
        if p["filename"]:
            cd += b'; filename="' + esc(p["filename"][0]) + b'"'
        body += b"Content-Disposition: " + cd + eol
        if p["ctype"]:
            body += b"Content-Type: " + p["ctype"][0].encode() + eol
        body += eol + bytes(p["data"]) + eol
    body += b"--BB--" + lws + eol
    if d["epi"]:
        body += bytes(d["epi"][0])
    return body


def wellformed(d):
    for p in d["parts"]:
        data = bytes(p["data"])
        if b"\n--BB" in data or data.startswith(b"--BB"):
            return False
    return True


def run(ctx):
    q = ctx.quick
    mc = vlib.tlc_or_die(ctx, "MultipartMC", "MultipartMC.cfg" if q else "MultipartMC_thorough.cfg", workers=vlib.NCPU, timeout=3000, xmx="12g")
    for inv in mc.violated:
        ctx.violations.append({"clause": "Model:" + inv, "what": mc.out[-1500:], "sites": []})
    n_docs = 260 if q else 4000
    start = (ctx.seed * 1009) % 50000
    cfgp = ctx.path("mpgen.cfg")
    open(cfgp, "w").write("CONSTANTS From = %d  To = %d\nINIT Init\nNEXT Next\nINVARIANT Emit\nCHECK_DEADLOCK FALSE\n" % (start, start + n_docs - 1))
    gen = vlib.tlc_or_die(ctx, "MultipartGen", cfgp, workers=1, timeout=1200, xmx="4g")
    docs = []
    for ln in gen.printed:
        if ln.startswith('<<"DOC", "'):
            docs.append(json.loads(wire.unescape_tla(ln[len('<<"DOC", "'):-3])))
    good = [x for x in docs if wellformed(x["d"])]
    df = ctx.path("docs.txt")
    open(df, "w").write("".join("%d %s\n" % (x["i"], render(x["d"]).hex()) for x in good))
    n = vlib.NCPU
    total, distinct, bad, files = vlib.pattern_f(ctx, "san", "fn_mpart", [[df, i, n] for i in range(n)], "MultipartJudge", "MultipartJudge.cfg", tlc_timeout=3000, xmx="5g")
    for v in bad:
        r = v.get("row") or {}
        if isinstance(r, dict) and "i" in r:
            v["what"] = "%s: document %s via %s cut %s" % (v["clause"], r.get("i"), r.get("via"), r.get("cut"))
            v["row"] = {k: r[k] for k in ("i", "via", "cut", "flags") if k in r}
    ctx.violations += bad
    # the Content-Disposition value in depth: spec/MpartCD.tla (transcribed parameter-list parser, indicators), rows from real parts
    cmc = vlib.tlc_or_die(ctx, "MpartCDMC", "MpartCDMC.cfg", workers=vlib.NCPU, timeout=1800, xmx="8g")
    for inv in cmc.violated:
        ctx.violations.append({"clause": "Model:" + inv, "what": "MpartCD reference violates its own meta-property: " + cmc.out[-1200:], "sites": []})
    ca = 3 if q else 4
    cshards = [["exh", ca, i, n] for i in range(n)] + [["rand", ctx.seed * 23 + i, 1500 if q else 20000] for i in range(4)]
    ct, cd, cbad, _ = vlib.pattern_f(ctx, "san", "fn_mpcd", cshards, "MpartCDRows", "MpartCDRows.cfg", xmx="5g")
    for v in cbad:
        r = v.get("row") or {}
        if isinstance(r, dict) and "hv" in r:
            v["what"] = "%s: Content-Disposition %r -> name %r file %r flags %s" % (v["clause"], bytes(r["hv"]), r.get("name"), r.get("file"), r.get("flags"))
            v["row"] = {k: r[k] for k in ("hv", "flags") if k in r}
    ctx.violations += cbad
    total += ct; distinct += cd
    # the boundary taken from the Content-Type value: spec/MpartBoundary.tla
    bmc = vlib.tlc_or_die(ctx, "MpartBoundaryMC", "MpartBoundaryMC.cfg", workers=vlib.NCPU, timeout=1800, xmx="8g")
    for inv in bmc.violated:
        ctx.violations.append({"clause": "Model:" + inv, "what": "MpartBoundary reference violates its own meta-property: " + bmc.out[-1200:], "sites": []})
    bshards = [["exh", ca, i, n] for i in range(n)] + [["rand", ctx.seed * 29 + i, 1500 if q else 20000] for i in range(4)]
    bt, bd, bbad, _ = vlib.pattern_f(ctx, "san", "fn_mpbd", bshards, "MpartBoundaryRows", "MpartBoundaryRows.cfg", xmx="5g")
    for v in bbad:
        r = v.get("row") or {}
        if isinstance(r, dict) and "ct" in r:
            v["what"] = "%s: Content-Type %r -> %s boundary %r flags %s" % (v["clause"], bytes(r["ct"]), r.get("rc"), r.get("boundary"), r.get("flags"))
            v["row"] = {k: r[k] for k in ("ct", "flags") if k in r}
    ctx.violations += bbad
    total += bt; distinct += bd
    # the header block of a part: spec/MpartHdr.tla (pending line / folding / parse_header transcribed, five indicators)
    hmc = vlib.tlc_or_die(ctx, "MpartHdrMC", "MpartHdrMC.cfg" if q else "MpartHdrMC_thorough.cfg", workers=vlib.NCPU, timeout=3000, xmx="8g")
    for inv in hmc.violated:
        ctx.violations.append({"clause": "Model:" + inv, "what": "MpartHdr reference violates its own meta-property: " + hmc.out[-1200:], "sites": []})
    h1, h2 = (3, 2) if q else (4, 2)
    hshards = [["exh", h1, h2, i, n] for i in range(n)] + [["rand", ctx.seed * 31 + i, 1500 if q else 30000] for i in range(4)] + [["blocks", 3 if q else 4, i, 4] for i in range(4)]
    ht, hd, hbad, _ = vlib.pattern_f(ctx, "san", "fn_mphd", hshards, "MpartHdrRows", "MpartHdrRows.cfg", xmx="5g")
    for v in hbad:
        r = v.get("row") or {}
        if isinstance(r, dict) and "lines" in r:
            v["what"] = "%s: part header block %r -> %s" % (v["clause"], [bytes(l) for l in r["lines"]], json.dumps(r.get("outs"))[:300])
            v["row"] = {"lines": r["lines"]}
    ctx.violations += hbad
    total += ht; distinct += hd
    vac = None if len(good) >= n_docs * 0.5 and total > len(good) * 20 else "only %d well-formed documents / %d rows" % (len(good), total)
    vlib.finish(ctx, "model_checking", {
        "states": mc.distinct, "transitions": mc.generated, "traces_validated_against_impl": total,
        "evaluations": total, "distinct_nontrivial": distinct, "documents": len(good),
        "rule": "documents = Multipart!Doc(i) for %d consecutive indices (0..3 parts; names incl. escaped quote / backslash / empty; with and without file name and content type; folded Content-Disposition; data of 0..3 atoms from a "
                "14-atom near-boundary alphabet incl. CR, LF, dashes, delimiter prefixes, boundary text not at a line start, NUL, CRLFCRLF; optional preamble / epilogue; CRLF or LF structure; LWS after delimiters), minus draws whose data "
                "would contain a real delimiter; chunkings: whole, EVERY single cut, one byte per call, 3 random multi-cuts; through the parser directly and (a third of the cuts) a full POST; distinct = (document, route, chunking)" % n_docs,
        "content_disposition_rows": ct, "boundary_rows": bt, "header_block_rows": ht,
        "header_block_rule": "every one-line block of <= %d atoms and every two-line block of <= %d atoms per line out of 14 (A a b : SP TAB NUL ( VT Content-Type content-disposition form-data ; -) + every block of <= %d whole lines out of 19 (valid fields, same name in other case, known names, continuations, broken lines) + random blocks of 1..4 lines, "
                             "each delivered whole, one byte per call and cut in the middle: the part's header table, its media type and NUL_BYTE / PART_HEADER_INVALID / _UNKNOWN / _REPEATED / _FOLDING = spec/MpartHdr.tla" % (h1, h2, 3 if q else 4),
        "boundary_rule": "every Content-Type value built from <= %d atoms of 17 (three spellings of the type, boundary / Boundary / BOUNDARY, = quote BB 'a b' x'y ; , SP TAB # charset=x) + random decorated well-formed values "
                         "(boundaries of 70 / 71 characters, browser-style boundaries, trailing parameters, second boundary): OK / DECLINED, the boundary, HBOUNDARY_INVALID / _UNUSUAL = spec/MpartBoundary.tla" % ca,
        "content_disposition_rule": "5 prefixes x every sequence of <= %d atoms from {; SP name filename nam = quote escaped-quote escaped-backslash backslash a 'x y' TAB} + random lists of whole parameters: "
                                    "name, file name, CD_SYNTAX_INVALID / CD_PARAM_REPEATED / CD_PARAM_UNKNOWN = spec/MpartCD.tla" % ca,
        "samples": [good[1], {"rendered": render(good[1]["d"]).decode("latin1")}],
        "exhaustive": True, "exhaustive_space": "every single cut of every generated document (direct route)",
        "model": "MultipartMC: data-mode matcher with cr_aside / boundary candidate (shape of htp_mpartp_parse STATE_DATA) vs line-oriented reference for every content over {CR LF x delimiter} and every chunking",
    }, assumptions=["Expected is the document descriptor itself (ground truth by construction); the renderer spells it", "file part bytes are collected from the FILE_DATA hook"], vacuous=vac)
