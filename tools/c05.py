"""C05 - transaction lifecycle: callbacks follow the protocol, completion happens once.
Specification: spec/HtpObs.tla (ObsCb clauses C05:*), model-checked on spec/HtpParser.tla; binding: traces of the real
library judged by TLC (spec/HtpObsTrace.tla)."""
import streams, gens, vlib

PROPS = ["C05"]


def scenarios(ctx):
    q = ctx.quick
    base = gens.corpus(ctx.seed, q, cfgs=({}, {"autod": 1}), nrand=1 if q else 6, mutants=2 if q else 12)
    ex = gens.exchanges(ctx.seed, q, cfgs=({}, {"autod": 1}) if not q else ({},), maxcuts=None if not q else 40)
    # callback return values are not part of C05's quantifier (they are C01/C09's): every callback returns OK here
    # stream gaps at every position of small exchanges (the gap rules of the two driver loops are part of HtpParser.tla)
    # ... and the exchange library under structural interleavings (cuts at line / head / body boundaries of both streams, pieces interleaved)
    return base + ex + gens.gaps(ctx.seed, q) + gens.structural(ctx.seed, q, cfgs=({}, {"autod": 1}) if not q else ({},))


def run(ctx):
    if ctx.replay:
        return streams.replay(ctx)
    import modelcheck
    mc = modelcheck.run_parser_model(ctx, PROPS, cbfail_ok=False)
    scns = scenarios(ctx)
    import drift
    drift.with_steps(scns, every=max(1, -(-len(scns) // (1000 if ctx.quick else 8000))))
    exe = vlib.build(ctx, "san", ["rec"])["rec"]
    files = streams.run_rec(ctx, exe, scns, "c05")
    execs, events, viols = streams.judge_obs(ctx, files, PROPS)
    streams.attach_replays(ctx, viols, scns)
    ctx.violations += viols
    acc = drift.check(ctx, files)
    # the hybrid-mode API (the caller drives the transaction state functions himself): spec/HtpHybrid.tla, model-checked and bound by trace acceptance
    import hybrid
    hmc = hybrid.run_model(ctx)
    hscn = hybrid.scenarios(ctx)
    hfiles = streams.run_rec(ctx, exe, hscn, "c05hyb")
    hexecs, hevents, hviols = streams.judge_obs(ctx, hfiles, PROPS)
    streams.attach_replays(ctx, hviols, hscn)
    ctx.violations += hviols
    hacc = hybrid.accept(ctx, hfiles)
    execs += hexecs; events += hevents
    vlib.finish(ctx, "model_checking", {
        "model_acceptance": acc, "hybrid_api": dict(hmc, executions=hexecs, **hacc),
        "states": mc["distinct"], "transitions": mc["generated"], "traces_validated_against_impl": execs,
        "evaluations": execs, "distinct_nontrivial": len({s.text().split("\n", 1)[1] for s in scns if s.nbytes() > 0}),
        "events_judged": events, "model": mc["what"],
        "rule": "executions = corpus captures re-cut (orig/half/1-byte/random) x {default, auto-destroy}, byte-mutated captures, the exchange "
                "library under every single cut of either stream in two arrival orders, distinct = distinct scenario "
                "bodies with at least one data byte; every callback event of every execution is folded through the C05 clauses by TLC",
        "samples": [scns[0].text()[:600], scns[len(scns) // 2].text()[:600]],
    }, assumptions=["the recorder logs every callback with the public progress fields (harness/rec.c)",
                    "trace points are used only to attribute violations to known-finding sites, except req/res_completing which classify end-of-body flushes"])
