"""Shared machinery of ./check: build, TLC runner, known-findings triage, evidence writer.

Python only drives and records (rule R1 of DESIGN.md): every verdict printed by a check comes out of a
TLC run (invariant / postcondition / VIOLREC records printed by the TLA+ trace specifications)."""
import atexit, hashlib, json, os, re, shutil, signal, subprocess, sys, time

VERIF = os.path.dirname(os.path.dirname(os.path.abspath(__file__)))
REPO = os.environ.get("VERIF_REPO", "/repo")
# evidence/ and replays/ go below VERIF unless a mutation run (tools/seedmatrix.py) redirects them
OUTDIR = os.environ.get("VERIF_OUTDIR") or os.path.dirname(os.path.dirname(os.path.abspath(__file__)))
SPEC = os.path.join(VERIF, "spec")
HARNESS = os.path.join(VERIF, "harness")
TLA_CP = "/opt/veriftools/tla/tla2tools.jar:/opt/veriftools/tla/CommunityModules-deps.jar"
NCPU = os.cpu_count() or 4


class Infra(Exception):
    """Infrastructure failure: exit 3, never a VIOLATION line."""


class Ctx:
    def __init__(self, pid, tier, seed):
        self.id, self.tier, self.seed = pid, tier, seed
        self.t0 = time.time()
        self.work = os.path.join(VERIF, ".work", "%s.%d" % (pid, os.getpid()))
        shutil.rmtree(self.work, ignore_errors=True)
        os.makedirs(self.work)
        atexit.register(shutil.rmtree, self.work, True)
        self.notes = []          # free-text lines copied into evidence
        self.tlc_runs = []       # summaries of every TLC run
        self.violations = []     # dicts: clause, what, site(s), replay payload
        self.drift = []
        self.quick = tier == "quick"

    def path(self, *a):
        return os.path.join(self.work, *a)

    def log(self, *a):
        print("[%s %6.1fs]" % (self.id, time.time() - self.t0), *a, flush=True)


# ----------------------------------------------------------------------------- build
def build(ctx, flavour, targets=()):
    """Compile $(REPO)/htp/*.c in the given flavour plus the named harness programs; returns dict name->path."""
    if os.environ.get("VERIF_GCOV") and flavour in ("san", "alloc", "plain"):
        flavour = "gcov"          # coverage measurement run (tools/coverage.sh): same programs, gcc --coverage, objects kept in VERIF_GCOV
    out = os.environ["VERIF_GCOV"] if (flavour == "gcov") else ctx.path("build")
    goals = ["lib"] + [os.path.join(out, flavour, t) for t in targets]
    cmd = ["make", "-s", "-j%d" % NCPU, "-C", HARNESS, "OUT=" + out, "FLAVOUR=" + flavour, "REPO=" + REPO] + goals
    t = time.time()
    p = subprocess.run(cmd, capture_output=True, text=True)
    if p.returncode != 0:
        sys.stdout.write(p.stdout[-3000:] + p.stderr[-6000:])
        raise Infra("build failed (%s)" % flavour)
    ctx.log("built %s %s in %.1fs" % (flavour, list(targets), time.time() - t))
    return {t: os.path.join(out, flavour, t) for t in targets}


def san_env(extra=None):
    e = dict(os.environ)
    e["ASAN_OPTIONS"] = "detect_leaks=0:abort_on_error=0:exitcode=77:allocator_may_return_null=1:handle_abort=1"
    e["UBSAN_OPTIONS"] = "print_stacktrace=1:halt_on_error=1:exitcode=77"
    e["TSAN_OPTIONS"] = "exitcode=66:halt_on_error=0:report_signal_unsafe=0"
    if extra:
        e.update(extra)
    return e


# ----------------------------------------------------------------------------- TLC
class Tlc:
    def __init__(self):
        self.out = ""
        self.rc = None
        self.generated = 0
        self.distinct = 0
        self.violated = []       # names of violated invariants / properties
        self.printed = []        # lines printed by PrintT / Print that start with a quote or a tuple
        self.cover = {}          # action -> (taken, generated)
        self.error = None
        self.wall = 0.0
        self.depth = 0


_ACT = re.compile(r"^<(\w+) line \d+, col \d+ to line \d+, col \d+ of module (\w+)>: (\d+):(\d+)")


class TlcMemory:
    """Cross-process budget for the heaps of concurrently running TLC JVMs (the machine has 62 GB; 16 runs of -Xmx4g, or a few checks
    started side by side, can exhaust it and the kernel then kills a JVM).  A run of -Xmx<n>g holds ceil(n / 4) of the 4 GB slots
    (flock on files in a scratch directory that is created on demand) for as long as it runs."""
    DIR = os.path.join(os.environ.get("TMPDIR", "/tmp"), "verif-tlc-slots")
    SLOTS = int(os.environ.get("VERIF_TLC_MEM_GB", "44")) // 4

    def __init__(self, xmx):
        m = re.match(r"(\d+)([gm])", xmx)
        gb = int(m.group(1)) if m and m.group(2) == "g" else 1
        self.need = max(1, min(self.SLOTS, -(-gb // 4)))
        self.held = []

    def __enter__(self):
        import fcntl, random
        os.makedirs(self.DIR, exist_ok=True)
        while True:
            got = []
            order = list(range(self.SLOTS)); random.shuffle(order)
            for i in order:
                f = open(os.path.join(self.DIR, "slot_%d" % i), "w")
                try:
                    fcntl.flock(f, fcntl.LOCK_EX | fcntl.LOCK_NB)
                    got.append(f)
                    if len(got) == self.need:
                        break
                except OSError:
                    f.close()
            if len(got) == self.need:
                self.held = got
                return self
            for f in got:
                f.close()
            time.sleep(1 + random.random() * 2)

    def __exit__(self, *a):
        for f in self.held:
            f.close()
        self.held = []


def run_tlc(ctx, module, cfg, env=None, workers=None, timeout=900, extra=(), xmx="8g", deque=False, name=None,
            coverage=False, cont=False, cwd=None):
    """Run TLC on spec/<module>.tla with spec/<cfg> (or an absolute cfg path). Returns Tlc()."""
    name = name or (module + "_" + os.path.basename(cfg)).replace(".", "_")
    md = ctx.path("md_" + name + "_%d" % len(ctx.tlc_runs))
    cfgp = cfg if os.path.isabs(cfg) else os.path.join(SPEC, cfg)
    jtmp = ctx.path("jtmp")            # TLC leaves an empty tlc-<n> directory in java.io.tmpdir per run: keep them inside the work directory
    os.makedirs(jtmp, exist_ok=True)
    jopts = ["-XX:+UseParallelGC", "-Xmx" + xmx, "-Xss64m", "-Djava.io.tmpdir=" + jtmp]
    if deque:
        jopts.append("-Dtlc2.tool.queue.IStateQueue=StateDeque")
    cmd = ["timeout", "-k", "10", str(timeout), "java"] + jopts + ["-cp", TLA_CP, "tlc2.TLC", "-noGenerateSpecTE",
           "-workers", str(workers or "auto"), "-metadir", md, "-config", cfgp]
    if coverage:
        cmd += ["-coverage", "1"]
    if cont:
        cmd += ["-continue"]
    cmd += list(extra) + [module + ".tla"]
    e = dict(os.environ)
    e.pop("JAVA_TOOL_OPTIONS", None)
    if env:
        e.update(env)
    for attempt in (1, 2, 3):
        with TlcMemory(xmx):
            t = time.time()
            p = subprocess.run(cmd, cwd=cwd or SPEC, capture_output=True, text=True, env=e)
            wall = time.time() - t
        # killed from outside well before its own time limit (out-of-memory killer on a loaded machine): not a verdict - try again
        if p.returncode in (-9, 137) and wall < timeout - 30 and attempt < 3:
            ctx.log("TLC run %s was killed after %.0fs (signal 9, not its time limit); retrying in 60s" % (name, wall))
            shutil.rmtree(md, ignore_errors=True)
            time.sleep(60)
            continue
        break
    r = Tlc()
    r.wall = wall
    r.out, r.rc = p.stdout + p.stderr, p.returncode
    shutil.rmtree(md, ignore_errors=True)
    for ln in p.stdout.splitlines():
        m = re.match(r"^(\d+) states generated, (\d+) distinct states found", ln)
        if m:
            r.generated, r.distinct = int(m.group(1)), int(m.group(2))
        m = re.match(r"^Error: Invariant (\S+) is violated", ln)
        if m:
            r.violated.append(m.group(1))
        m = re.match(r"^Error: (Action property|Temporal properties|Postcondition) ?(\S*)", ln)
        if m:
            r.violated.append((m.group(1) + " " + m.group(2)).strip())
        if ln.startswith("Error: Temporal properties were violated"):
            r.violated.append("temporal")
        m = re.match(r"^The depth of the complete state graph search is (\d+)", ln)
        if m:
            r.depth = int(m.group(1))
        m = _ACT.match(ln)
        if m:
            r.cover[m.group(1)] = (int(m.group(3)), int(m.group(4)))
        if ln.startswith('"') or ln.startswith("<<\""):
            r.printed.append(ln)
    if p.returncode == 124 or p.returncode == 137:
        r.error = "timeout"
    elif "Parsing or semantic analysis failed" in r.out or "Error: TLC threw an unexpected exception" in r.out \
            or "was thrown" in r.out and "Error:" in r.out and not r.violated:
        r.error = "tlc-error"
    elif p.returncode not in (0, 12, 13) and not r.violated:
        # 12 = safety violation, 13 = liveness violation
        r.error = "exit %d" % p.returncode
    ctx.tlc_runs.append({"name": name, "module": module, "cfg": os.path.basename(cfgp), "generated": r.generated,
                         "distinct": r.distinct, "violated": r.violated, "wall_s": round(r.wall, 2), "error": r.error})
    return r


def tlc_or_die(ctx, *a, **kw):
    r = run_tlc(ctx, *a, **kw)
    if r.error:
        sys.stdout.write(r.out[-4000:])
        raise Infra("TLC run failed: %s" % r.error)
    return r


def printed_json(r, tag):
    """Values printed from TLA+ as  PrintT(<<"TAG", ToJson(x)>>)  ->  list of python objects."""
    out = []
    pre = '<<"%s", "' % tag
    for ln in r.printed:
        if ln.startswith(pre) and ln.endswith('">>'):
            s = ln[len(pre):-3]
            # TLC prints the string with TLA+ escapes: \" and \\
            s = s.replace('\\"', '"').replace("\\\\", "\\")
            try:
                out.append(json.loads(s))
            except Exception:
                out.append({"unparsed": s})
    return out


# ----------------------------------------------------------------------------- known findings
class Finding:
    def __init__(self, status, fields, text):
        self.status, self.f, self.text = status, fields, text


def load_findings():
    res = []
    p = os.path.join(VERIF, "known_findings.txt")
    if not os.path.exists(p):
        return res
    for ln in open(p):
        ln = ln.strip()
        if not ln or ln.startswith("#"):
            continue
        st, _, rest = ln.partition(":")
        st = st.strip()
        if st not in ("open", "fixed"):
            continue
        f = dict(re.findall(r'(\w+)=("[^"]*"|\S+)', rest))
        f = {k: v.strip('"') for k, v in f.items()}
        res.append(Finding(st, f, rest.strip()))
    return res


def triage(ctx, v):
    """v: dict(clause=..., sites=[...], cls=...).  Returns the matching open finding or None.
    A violation is a known finding iff property and clause match an open entry AND the entry's site is among
    the violation's sites (or, for entries keyed by input class, its class)."""
    for f in load_findings():
        if f.status != "open" or f.f.get("property") != ctx.id:
            continue
        if f.f.get("clause") and f.f["clause"] != v.get("clause"):
            continue
        if f.f.get("site") and f.f["site"] not in (v.get("sites") or []):
            continue
        if f.f.get("detail") and f.f["detail"] != v.get("detail"):
            continue
        if f.f.get("class") and f.f["class"] != v.get("cls"):
            continue
        if f.f.get("input") and f.f["input"] != v.get("input"):
            continue
        return f
    return None


# ----------------------------------------------------------------------------- verdict + evidence
def finish(ctx, level, coverage, assumptions=(), vacuous=None):
    """Print KNOWN-FINDING / VIOLATION lines, write the evidence file, exit."""
    known, fresh = {}, []
    for v in ctx.violations:
        f = triage(ctx, v)
        if f is not None:
            known.setdefault(f.text, []).append(v)
        else:
            fresh.append(v)
    for text, vs in known.items():
        print("KNOWN-FINDING: property=%s %s  [re-found %d time(s) in this run]" % (ctx.id, text.replace("property=%s " % ctx.id, ""), len(vs)))
    rc = 0
    rdir = os.path.join(OUTDIR, "replays", ctx.id)
    if os.path.isdir(rdir) and not getattr(ctx, "replay", None):
        for fn in os.listdir(rdir):
            if fn.startswith(ctx.tier + "_"):
                os.remove(os.path.join(rdir, fn))
    if fresh:
        os.makedirs(rdir, exist_ok=True)
        seen = {}
        for v in fresh:
            key = (v.get("clause"), tuple(v.get("sites") or ()), v.get("cls"))
            seen.setdefault(key, []).append(v)
        n = 0
        for key, vs in seen.items():
            n += 1
            rp = os.path.join(rdir, "%s_%s_%d.json" % (ctx.tier, re.sub(r"\W+", "_", str(key[0]))[:40], n))
            json.dump({"property": ctx.id, "clause": key[0], "count": len(vs), "first": vs[0], "more": vs[1:6]}, open(rp, "w"), indent=1, default=str)
            print("VIOLATION property=%s replay=%s clause=%s count=%d what=%s" % (ctx.id, rp, key[0], len(vs), str(vs[0].get("what", ""))[:300]))
        rc = 1
    for d in ctx.drift[:10]:
        print("MODEL-DRIFT: property=%s %s" % (ctx.id, d))
    if vacuous:
        print("VACUOUS: property=%s %s" % (ctx.id, vacuous))
        raise Infra("vacuity guard: " + vacuous)
    cov = dict(coverage)
    cov.setdefault("tlc_runs", ctx.tlc_runs)
    cov["known_findings_refound"] = {k: len(v) for k, v in known.items()}
    fam = {}
    for k, vs in known.items():
        for v in vs:
            r = str(v.get("run") or v.get("cls") or "?")
            key = k.split(" ")[1 if k.startswith("property=") else 0][:60] + " @ " + (r.split("/")[0] if "/" in r else re.sub(r"[\d.]+.*$", "", r))
            fam[key] = fam.get(key, 0) + 1
    cov["known_findings_refound_by_family"] = fam
    cov["known_findings_refound_examples"] = {k[:80]: sorted({str(v.get("run")) for v in vs})[:: max(1, len(vs) // 12)][:14] for k, vs in known.items()}
    cov["model_drift"] = len(ctx.drift)
    if ctx.notes:
        cov["notes"] = ctx.notes
    ev = {"property_id": ctx.id, "tier": ctx.tier, "seed": ctx.seed, "level": level, "coverage": cov,
          "assumptions": list(assumptions), "wall_s": round(time.time() - ctx.t0, 2), "violations": len(fresh)}
    os.makedirs(os.path.join(OUTDIR, "evidence"), exist_ok=True)
    json.dump(ev, open(os.path.join(OUTDIR, "evidence", ctx.id + ".json"), "w"), indent=1, default=str)
    ctx.log("done: %d violation(s), %d known finding class(es), %.1fs" % (len(fresh), len(known), time.time() - ctx.t0))
    sys.exit(rc)


def h(x):
    return hashlib.sha1(json.dumps(x, sort_keys=True, default=str).encode()).hexdigest()[:16]


def chunks(lst, n):
    k = max(1, (len(lst) + n - 1) // n)
    return [lst[i:i + k] for i in range(0, len(lst), k)]


def pmap(fn, items, nproc=None):
    """Run fn over items in a thread pool (the work is subprocesses)."""
    import concurrent.futures
    with concurrent.futures.ThreadPoolExecutor(nproc or NCPU) as ex:
        return list(ex.map(fn, items))


# ----------------------------------------------------------------------------- pattern F (function reference)
def pattern_f(ctx, flavour, prog, shard_argv, module, cfg, rowvar="ROWS", tlc_timeout=1500, xmx="3g", census=True):
    """Run the recorder `prog` once per argv in shard_argv (in parallel), then let TLC judge every shard file with
    spec/<module>.tla.  Returns (rows_total, distinct_total, bad) where bad = list of (row dict) that violate RowOK."""
    exe = build(ctx, flavour, [prog])[prog]
    files = []

    def rec(i):
        f = ctx.path("rows_%s_%d.ndjson" % (prog, i))
        with open(f, "w") as fo:
            p = subprocess.run(["timeout", "1200", exe] + [str(x) for x in shard_argv[i]], stdout=fo, stderr=subprocess.PIPE, env=san_env(), text=True)
        return f, p.returncode, p.stderr[-3000:]
    t = time.time()
    recs = pmap(rec, range(len(shard_argv)))
    crashed = [(f, rc, err) for f, rc, err in recs if rc != 0]
    ctx.log("recorded %d shard(s) in %.1fs" % (len(recs), time.time() - t))
    bad, total, distinct = [], 0, 0
    for f, rc, err in crashed:
        # a sanitizer report / crash of the recorder on the real code is a finding of its own
        with open(f, "rb+") as fx:              # cut a partial last line so that the shard stays well-formed NDJSON
            fx.seek(0, 2); size = fx.tell(); back = min(size, 1 << 16)
            fx.seek(size - back); tail = fx.read(back)
            if tail and not tail.endswith(b"}\n"):
                cut = tail.rfind(b"}\n")
                fx.truncate(size - back + cut + 2 if cut >= 0 else size - back)
        m = re.search(r"(ERROR: AddressSanitizer: [\w-]+|runtime error: [^\n]+)", err)
        fr = [x for x in re.findall(r"#\d+ 0x[0-9a-f]+ in (\w+) ", err) if not x.startswith("__") and x != "main"][:3]
        err = (m.group(1) if m else "recorder died") + " @ " + ">".join(fr) + " :: " + err[-300:]
        last = ""
        try:
            last = subprocess.run(["tail", "-n", "1", f], capture_output=True, text=True).stdout[:400]
        except Exception:
            pass
        bad.append({"clause": "RecorderCrashed", "what": "recorder exit %d: %s" % (rc, err[-600:]), "row": last, "sites": []})

    def judge(i):
        f = recs[i][0]
        if os.path.getsize(f) == 0:
            return None
        return run_tlc(ctx, module, cfg, env={rowvar: f}, workers=1, timeout=tlc_timeout, xmx=xmx, cont=True, name="judge%d" % i)
    t = time.time()
    res = pmap(judge, range(len(recs)))
    for i, r in enumerate(res):
        if r is None:
            continue
        if r.error:
            sys.stdout.write(r.out[-3000:])
            raise Infra("TLC judge failed on shard %d: %s" % (i, r.error))
        for ln in r.printed:
            m = re.match(r'<<"CENSUS", (\d+), (\d+)>>', ln)
            if m:
                total += int(m.group(1)); distinct += int(m.group(2))
        ks = [(inv, int(x)) for inv, x in re.findall(r"Invariant (\w+) is violated by the initial state:\s*\n(?:/\\ )?k = (\d+)", r.out)]
        if ks:
            rows = open(recs[i][0]).read().splitlines()
            for inv, k in ks:
                try:
                    row = json.loads(rows[k - 1])
                except Exception:
                    row = {"raw": rows[k - 1][:500]}
                bad.append({"clause": inv, "what": "row violates %s of the TLA+ judge" % inv, "row": row, "sites": []})
        elif r.violated:
            bad.append({"clause": r.violated[0], "what": r.out[-800:], "sites": []})
    ctx.log("TLC judged %d rows (%d distinct) in %.1fs, %d bad" % (total, distinct, time.time() - t, len(bad)))
    return total, distinct, bad, [x[0] for x in recs]


# ----------------------------------------------------------------------------- known findings as a TLA+ module
def known_module_text():
    ent = sorted({(f.f["clause"], f.f["site"]) for f in load_findings() if f.status == "open" and "clause" in f.f and "site" in f.f})
    body = ",\n   ".join('<<"%s", "%s">>' % e for e in ent)
    return ("------------------------------ MODULE HtpKnown ------------------------------\n"
            "(* GENERATED from known_findings.txt by tools/vlib.py (open entries that name a clause and a site). *)\n"
            "KnownSet ==\n  {%s}\n"
            "=============================================================================\n") % body


def spec_workdir(ctx):
    """A private copy of spec/ with a freshly generated HtpKnown.tla, so that a TLC run always sees the current findings file."""
    d = ctx.path("spec")
    if not os.path.isdir(d):
        shutil.copytree(SPEC, d)
        open(os.path.join(d, "HtpKnown.tla"), "w").write(known_module_text())
    return d
