#!/bin/bash
# confirm_seed.sh <name> <dir with patch.diff demo.c README.md> <property>
# Confirms in a fresh scratch worktree: demo passes without the patch; with the patch the library builds,
# the 341 tests pass and the demo fails.  On success archives to /verif/seeded/<name>/ with meta.json.
set -u
name=$1; src=$2; prop=$3
W=/tmp/wt/confirm_$name
git -C /repo worktree remove --force $W 2>/dev/null
/verif/tools/mkwt.sh confirm_$name >/dev/null || exit 2
bd() { gcc -g -w -I$W -I$W/htp -D_GNU_SOURCE -DHAVE_CONFIG_H $src/demo.c $W/htp/*.c $W/htp/lzma/*.c -lz -lpthread ${EXTRA_LD:-} -o $W/demo_bin 2>$W/demo_build.log; }
bd || { echo "demo does not build on clean tree"; tail -5 $W/demo_build.log; exit 2; }
( cd $src && timeout 120 $W/demo_bin >/dev/null 2>&1 ); r0=$?
git -C $W apply $src/patch.diff || { echo "patch does not apply"; exit 2; }
( cd $W && make -j8 >/dev/null 2>&1; make check >/dev/null 2>&1 ); 
passed=$(grep -c "PASSED  \] 341 tests" $W/test/test_all.log)
bd || { echo "demo does not build with patch"; exit 2; }
( cd $src && timeout 120 $W/demo_bin >/dev/null 2>&1 ); r1=$?
echo "name=$name demo_clean_exit=$r0 tests_341_passed=$passed demo_patched_exit=$r1"
ok=0
if [ $r0 -eq 0 ] && [ $passed -eq 1 ] && [ $r1 -ne 0 ]; then ok=1; fi
if [ $ok -eq 1 ]; then
  d=/verif/seeded/$name; mkdir -p $d; cp $src/patch.diff $src/demo.c $src/README.md $d/ 2>/dev/null
  python3 - "$name" "$prop" "$r0" "$r1" <<'PY'
import json,sys,re
name,prop,r0,r1=sys.argv[1:5]
readme=open('/verif/seeded/%s/README.md'%name).read()
json.dump({"id":name,"property":prop,"origin":"independent sub-agent given only the property text and a scratch worktree",
 "needs_to_manifest":"see README.md (trigger section)",
 "confirmed":{"worktree":"fresh scratch worktree of /repo HEAD","demo_exit_without_patch":int(r0),"existing_suite_with_patch":"341 passed","demo_exit_with_patch":int(r1),
 "ran":"tools/confirm_seed.sh: build demo.c against clean sources -> exit 0; git apply patch.diff; make && make check -> 341 passed; rebuild demo -> non-zero"},
 "detected_by":[]}, open('/verif/seeded/%s/meta.json'%name,'w'), indent=1)
PY
  echo CONFIRMED
else echo NOT-CONFIRMED; fi
git -C /repo worktree remove --force $W
