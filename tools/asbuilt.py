#!/usr/bin/env python3
"""asbuilt.py: rewrites the table between the ASBUILT markers of DESIGN.md from MANIFEST.json and evidence/*.json (numbers of the last run of
each check, whatever its tier)."""
import json, os, re
V = os.path.dirname(os.path.dirname(os.path.abspath(__file__)))
man = json.load(open(os.path.join(V, "MANIFEST.json")))
rows = ["| id | level | tier of last run | model states (TLC) | executions / rows judged on the code | accepted by HtpParser | known-finding classes re-found | wall |",
        "|---|---|---|---|---|---|---|---|"]
props = man.get("checks") or []
for p in sorted(props, key=lambda x: x.get("id") or x.get("property_id")):
    pid = p.get("id") or p.get("property_id")
    f = os.path.join(V, "evidence", pid + ".json")
    if not os.path.exists(f):
        continue
    e = json.load(open(f)); c = e["coverage"]
    acc = c.get("model_acceptance") or {}
    rows.append("| %s | %s | %s | %s | %s | %s | %d | %d s |" % (
        pid, e["level"], e["tier"], "{:,}".format(c["states"]) if c.get("states") else "—",
        "{:,}".format(c.get("traces_validated_against_impl") or c.get("evaluations") or 0),
        ("%s / %s" % (acc.get("traces_accepted_by_model"), acc.get("traces_offered_to_model"))) if acc else "—",
        len(c.get("known_findings_refound") or {}), round(e["wall_s"])))
p = os.path.join(V, "DESIGN.md"); s = open(p).read()
b, e_ = "<!-- ASBUILT-BEGIN -->", "<!-- ASBUILT-END -->"
if b in s:
    s = s[:s.index(b) + len(b)] + "\n" + "\n".join(rows) + "\n" + s[s.index(e_):]
    open(p, "w").write(s)
print("\n".join(rows))
