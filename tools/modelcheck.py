"""Model checking of the code-shaped core model (spec/HtpParser.tla) with the observer clauses as invariants."""
import vlib


def run_parser_model(ctx, props):
    # placeholder until spec/HtpParser.tla is bound: reports zero model states so that no model-checking claim is made from it
    return {"distinct": 0, "generated": 0, "what": "HtpParser model not run in this revision"}
