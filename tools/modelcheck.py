"""Model checking of the code-shaped core model (spec/HtpParser.tla) with the observer clauses as invariants.
The set of excused <<clause, site>> pairs is generated from known_findings.txt (HtpKnown.tla in a private copy of spec/)."""
import os, re, sys
import vlib

# (MaxTx, MaxCalls, MaxAvail, AutoDestroy, CbFail[, Gaps]); Gaps: data calls may announce a stream gap (data = NULL, len > 0)
QUICK = [
    (2, 4, 1, False, ()),
    (2, 3, 1, True, ()),
    (3, 4, 1, False, ()),
    (2, 3, 1, False, ("request_headers", "response_complete", "transaction_complete", "response_body_data", "request_line")),
    (2, 3, 1, True, ("request_start", "response_headers", "request_complete", "request_body_data", "response_line")),
    (2, 3, 1, False, (), True),
]
HA = ("request_headers", "response_complete", "transaction_complete", "response_body_data", "request_line")
HB = ("request_start", "response_headers", "request_complete", "request_body_data", "response_line")
THOROUGH = QUICK + [
    (1, 4, 2, False, ("request_headers",)),      # found D25 and D26 (sticky STOP / ERROR overwritten), fixed in d96bd29 / 8c453f4
    (2, 3, 2, False, ()),
    (2, 5, 1, False, ()),                         # found D21 (header data after RESPONSE_COMPLETE behind an interim 100), fixed in 3989183
    (2, 4, 1, False, HA),
    (2, 4, 1, True, HB),
    (2, 3, 2, True, ("request_headers", "response_complete", "transaction_complete")),      # 16 M states
    (3, 4, 1, True, ("request_headers", "response_body_data", "request_complete", "response_start")),
    (2, 4, 2, False, ()),                         # 88 M states, ~20 min
    (2, 4, 1, False, (), True),
    (2, 3, 1, True, ("request_headers", "response_complete", "response_body_data", "request_body_data"), True),
]
ALL_PLAIN = ["C05", "C09", "C16", "C10"]          # properties whose clauses are invariants of the model
ALL_CBFAIL = ["C09", "C16"]                       # C05 / C10 are not quantified over callback results
CACHE = os.path.join(vlib.VERIF, ".work", "mccache")


def _key(cfg, invs):
    import hashlib
    h = hashlib.sha1()
    for f in sorted(os.listdir(vlib.SPEC)):
        if f.endswith(".tla") and f != "HtpKnown.tla":
            h.update(f.encode()); h.update(open(os.path.join(vlib.SPEC, f), "rb").read())
    h.update(vlib.known_module_text().encode()); h.update(repr((cfg, invs)).encode())
    return h.hexdigest()[:24]


def run_parser_model(ctx, props, cbfail_ok=True):
    """Runs the bounded configurations; a violated invariant becomes a violation record of the property.
    cbfail_ok=False skips configurations whose callbacks may fail (properties not quantified over callback results).
    The state graph does not depend on which property asks: a configuration is explored once with the invariants of ALL properties it is
    quantified for and the clean result is kept under .work/mccache keyed by the hash of every specification module, the known-findings
    set and the configuration, so the checks of C05 / C09 / C10 / C16 share one exploration.  A cached result is only used when it is
    clean; if TLC stopped at an invariant of another property the configuration is explored again with this property's invariants only."""
    import json
    d = vlib.spec_workdir(ctx)
    cfgs = [c for c in (QUICK if ctx.quick else THOROUGH) if cbfail_ok or not c[4]]
    own = ["Inv_" + p for p in props]
    os.makedirs(CACHE, exist_ok=True)

    def explore(i, c, invs, tag):
        mt, mc, ma, ad, cf = c[:5]
        gaps = len(c) > 5 and c[5]
        name = "pmc_%d%s" % (i, tag)
        cfgp = os.path.join(d, name + ".cfg")
        open(cfgp, "w").write(
            "CONSTANTS MaxTx = %d  MaxCalls = %d  MaxAvail = %d  AutoDestroy = %s  FixD4 = TRUE  TraceMode = FALSE  Gaps = %s\n"
            " CbFail = {%s}\n Known <- KnownSet\nSPECIFICATION Spec\nINVARIANTS %s TypeOK\nVIEW View\nCHECK_DEADLOCK FALSE\n"
            % (mt, mc, ma, "TRUE" if ad else "FALSE", "TRUE" if gaps else "FALSE", ", ".join('"%s"' % x for x in cf), " ".join(invs)))
        r = vlib.run_tlc(ctx, "HtpParserMC", cfgp, workers=4 if ctx.quick else 8, timeout=600 if ctx.quick else 5000, xmx="6g" if ctx.quick else "16g",
                         name=name, cwd=d, coverage=(c in QUICK))      # TLC's coverage collection slows the large thorough configurations several times
        if r.error:
            sys.stdout.write(r.out[-3000:])
            raise vlib.Infra("model checking HtpParser failed: %s (config %s)" % (r.error, c))
        m = re.search(r"viol \|-> (\{[^}]*\})", r.out[r.out.rfind("State "):]) if r.violated else None
        dead = [a for a, (taken, gen) in r.cover.items() if taken == 0 and a in ("StepBegin", "CbStep", "RetStep", "EndCallStep", "DataEnter")]
        return {"distinct": r.distinct, "generated": r.generated, "violated": r.violated, "viol": m.group(1) if m else None,
                "tail": r.out[-6000:] if r.violated else "", "dead": dead, "wall_s": round(r.wall, 1)}

    def one(i):
        c = cfgs[i]
        allinv = ["Inv_" + p for p in (ALL_CBFAIL if c[4] else ALL_PLAIN)] + ["Inv_TxBound"]
        kf = os.path.join(CACHE, _key(c, allinv) + ".json")
        if os.path.exists(kf):
            e = json.load(open(kf)); e["cached"] = True
            return e
        e = explore(i, c, allinv, "")
        foreign = [v for v in e["violated"] if v not in own and v != "TypeOK"]
        if foreign:          # TLC stopped at another property's invariant: this property's invariants have not been checked on the whole graph
            e = explore(i, c, own + ["Inv_TxBound"], "o")
        elif not e["violated"]:
            json.dump(e, open(kf, "w"))
        e["cached"] = False
        return e
    res = vlib.pmap(one, range(len(cfgs)), nproc=4 if ctx.quick else 2)
    distinct = generated = 0
    never = None
    for c, e in zip(cfgs, res):
        distinct += e["distinct"]; generated += e["generated"]
        for inv in e["violated"]:
            if inv in own or inv in ("TypeOK", "Inv_TxBound"):
                ctx.violations.append({"clause": "Model:" + inv, "sites": [], "cls": "model",
                                       "what": "TLC violates %s on the bounded model %s; last state viol=%s" % (inv, c, e["viol"]),
                                       "counterexample_tail": e["tail"]})
        if e["dead"]:
            never = "actions never taken in config %s: %s" % (c, e["dead"])
    return {"distinct": distinct, "generated": generated, "vacuous": never, "shared_results_reused": sum(1 for e in res if e.get("cached")),
            "what": "HtpParser.tla + HtpObs clauses %s as invariants over %d bounded configurations (MaxTx, MaxCalls, MaxAvail, AutoDestroy, CbFail): %s"
                    % (" ".join(own), len(cfgs), [c[:4] + (len(c[4]),) + (("gaps",) if len(c) > 5 and c[5] else ()) for c in cfgs])}


# (MaxTx, QUnits, SUnits, MaxAvail, AutoDestroy)
LIVE_QUICK = [(2, 3, 3, 2, False)]     # the smallest bound in which a broken hand-over (other side not released) is found as a livelock
LIVE_THOROUGH = [(2, 3, 3, 2, False), (2, 3, 3, 2, True), (3, 4, 2, 2, False), (2, 2, 4, 2, False)]


def run_driver_liveness(ctx):
    """C09, progress half: HtpDriver.tla (the documented caller composed with the parser model) under weak fairness; TLC checks <>Drained."""
    d = vlib.spec_workdir(ctx)
    cfgs = LIVE_QUICK if ctx.quick else LIVE_THOROUGH

    def one(i):
        mt, qu, su, ma, ad = cfgs[i]
        cfgp = os.path.join(d, "live_%d.cfg" % i)
        open(cfgp, "w").write("CONSTANTS MaxTx = %d  MaxCalls <- NoCallBound  MaxAvail = %d  AutoDestroy = %s  FixD4 = TRUE  TraceMode = FALSE  Gaps = FALSE\n CbFail = {}\n Known = {}\n QUnits = %d  SUnits = %d\n"
                              "SPECIFICATION FairDSpec\nINVARIANT DrvTypeOK\nPROPERTY CallerProgress\nCHECK_DEADLOCK FALSE\n" % (mt, ma, "TRUE" if ad else "FALSE", qu, su))
        return vlib.run_tlc(ctx, "HtpDriver", cfgp, workers=16 if ctx.quick else 8, timeout=1200 if ctx.quick else 6000, xmx="12g", name="live_%d" % i, cwd=d)
    res = vlib.pmap(one, range(len(cfgs)), nproc=2)
    distinct = 0
    for c, r in zip(cfgs, res):
        if r.error:
            sys.stdout.write(r.out[-3000:])
            raise vlib.Infra("liveness checking HtpDriver failed: %s (config %s)" % (r.error, c))
        distinct += r.distinct
        if r.violated:
            ctx.violations.append({"clause": "Model:CallerProgress", "sites": [], "cls": "model",
                                   "what": "TLC: the documented caller composed with the parser model does not always drain a side (config %s): %s" % (c, r.violated),
                                   "counterexample_tail": r.out[-6000:]})
    return {"liveness_states": distinct, "liveness_configs": [list(c) for c in cfgs],
            "liveness": "HtpDriver.tla FairDSpec |= <>Drained (weak fairness on arrivals and on the caller); (MaxTx, QUnits, SUnits, MaxAvail, AutoDestroy)"}
