"""Model checking of the code-shaped core model (spec/HtpParser.tla) with the observer clauses as invariants.
The set of excused <<clause, site>> pairs is generated from known_findings.txt (HtpKnown.tla in a private copy of spec/)."""
import os, re, sys
import vlib

# (MaxTx, MaxCalls, MaxAvail, AutoDestroy, CbFail)
QUICK = [
    (2, 4, 1, False, ()),
    (2, 3, 1, True, ()),
    (3, 4, 1, False, ()),
    (2, 3, 1, False, ("request_headers", "response_complete", "transaction_complete", "response_body_data", "request_line")),
    (2, 3, 1, True, ("request_start", "response_headers", "request_complete", "request_body_data", "response_line")),
]
THOROUGH = QUICK + [
    (1, 4, 2, False, ("request_headers",)),      # found D25 and D26 (sticky STOP / ERROR overwritten), fixed in d96bd29 / 8c453f4
    (2, 3, 2, False, ()),
    (2, 4, 2, False, ()),
    (2, 3, 2, True, ("request_headers", "response_complete", "transaction_complete")),
    (3, 5, 1, False, ()),
    (3, 4, 1, True, ("request_headers", "response_body_data", "request_complete", "response_start")),
]


def run_parser_model(ctx, props, cbfail_ok=True):
    """Runs the bounded configurations; a violated invariant becomes a violation record of the property.
    cbfail_ok=False skips configurations whose callbacks may fail (properties not quantified over callback results)."""
    d = vlib.spec_workdir(ctx)
    cfgs = [c for c in (QUICK if ctx.quick else THOROUGH) if cbfail_ok or not c[4]]
    invs = " ".join("Inv_" + p for p in props)

    def one(i):
        mt, mc, ma, ad, cf = cfgs[i]
        name = "pmc_%d" % i
        cfgp = os.path.join(d, name + ".cfg")
        open(cfgp, "w").write(
            "CONSTANTS MaxTx = %d  MaxCalls = %d  MaxAvail = %d  AutoDestroy = %s  FixD4 = FALSE  TraceMode = FALSE\n"
            " CbFail = {%s}\n Known <- KnownSet\nSPECIFICATION Spec\nINVARIANTS %s TypeOK\nVIEW View\nCHECK_DEADLOCK FALSE\n"
            % (mt, mc, ma, "TRUE" if ad else "FALSE", ", ".join('"%s"' % x for x in cf), invs))
        return vlib.run_tlc(ctx, "HtpParserMC", cfgp, workers=4 if ctx.quick else 8, timeout=600 if ctx.quick else 3000, xmx="6g" if ctx.quick else "12g",
                            name=name, cwd=d, coverage=True)
    res = vlib.pmap(one, range(len(cfgs)), nproc=4 if ctx.quick else 2)
    distinct = generated = 0
    never = None
    for c, r in zip(cfgs, res):
        if r.error:
            sys.stdout.write(r.out[-3000:])
            raise vlib.Infra("model checking HtpParser failed: %s (config %s)" % (r.error, c))
        distinct += r.distinct; generated += r.generated
        for inv in r.violated:
            m = re.search(r"viol \|-> (\{[^}]*\})", r.out[r.out.rfind("State "):])
            ctx.violations.append({"clause": "Model:" + inv, "sites": [], "cls": "model",
                                   "what": "TLC violates %s on the bounded model %s; last state viol=%s" % (inv, c, m.group(1) if m else "?"),
                                   "counterexample_tail": r.out[-6000:]})
        dead = [a for a, (taken, gen) in r.cover.items() if taken == 0 and a in ("StepBegin", "CbStep", "RetStep", "EndCallStep", "DataEnter")]
        if dead:
            never = "actions never taken in config %s: %s" % (c, dead)
    return {"distinct": distinct, "generated": generated, "vacuous": never,
            "what": "HtpParser.tla + HtpObs clauses %s as invariants over %d bounded configurations (MaxTx, MaxCalls, MaxAvail, AutoDestroy, CbFail): %s"
                    % (invs, len(cfgs), [c[:4] + (len(c[4]),) for c in cfgs])}


# (MaxTx, QUnits, SUnits, MaxAvail, AutoDestroy)
LIVE_QUICK = [(2, 3, 3, 2, False)]     # the smallest bound in which a broken hand-over (other side not released) is found as a livelock
LIVE_THOROUGH = [(2, 3, 3, 2, False), (2, 3, 3, 2, True), (3, 4, 2, 2, False), (2, 2, 4, 2, False)]


def run_driver_liveness(ctx):
    """C09, progress half: HtpDriver.tla (the documented caller composed with the parser model) under weak fairness; TLC checks <>Drained."""
    d = vlib.spec_workdir(ctx)
    cfgs = LIVE_QUICK if ctx.quick else LIVE_THOROUGH

    def one(i):
        mt, qu, su, ma, ad = cfgs[i]
        cfgp = os.path.join(d, "live_%d.cfg" % i)
        open(cfgp, "w").write("CONSTANTS MaxTx = %d  MaxCalls <- NoCallBound  MaxAvail = %d  AutoDestroy = %s  FixD4 = FALSE  TraceMode = FALSE\n CbFail = {}\n Known = {}\n QUnits = %d  SUnits = %d\n"
                              "SPECIFICATION FairDSpec\nINVARIANT DrvTypeOK\nPROPERTY CallerProgress\nCHECK_DEADLOCK FALSE\n" % (mt, ma, "TRUE" if ad else "FALSE", qu, su))
        return vlib.run_tlc(ctx, "HtpDriver", cfgp, workers=16 if ctx.quick else 8, timeout=1200 if ctx.quick else 6000, xmx="12g", name="live_%d" % i, cwd=d)
    res = vlib.pmap(one, range(len(cfgs)), nproc=2)
    distinct = 0
    for c, r in zip(cfgs, res):
        if r.error:
            sys.stdout.write(r.out[-3000:])
            raise vlib.Infra("liveness checking HtpDriver failed: %s (config %s)" % (r.error, c))
        distinct += r.distinct
        if r.violated:
            ctx.violations.append({"clause": "Model:CallerProgress", "sites": [], "cls": "model",
                                   "what": "TLC: the documented caller composed with the parser model does not always drain a side (config %s): %s" % (c, r.violated),
                                   "counterexample_tail": r.out[-6000:]})
    return {"liveness_states": distinct, "liveness_configs": [list(c) for c in cfgs],
            "liveness": "HtpDriver.tla FairDSpec |= <>Drained (weak fairness on arrivals and on the caller); (MaxTx, QUnits, SUnits, MaxAvail, AutoDestroy)"}
