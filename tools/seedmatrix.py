#!/usr/bin/env python3
"""Mutation matrix: applies every kept seeded change (seeded/<id>/patch.diff) to a scratch worktree of /repo HEAD, runs the named checks
against that tree (VERIF_REPO) with evidence / replays redirected (VERIF_OUTDIR) and records in seeded/<id>/meta.json which checks raise
a VIOLATION.  /repo itself is never touched; every worktree is removed when its runs are done.
  tools/seedmatrix.py [--tier quick|thorough] [--checks C02,C03] [-j N] [seed ids...]      (default: each seed against its own property)"""
import json, os, re, shutil, subprocess, sys, time
from concurrent.futures import ThreadPoolExecutor

VERIF = os.path.dirname(os.path.dirname(os.path.abspath(__file__)))
SCRATCH = "/tmp/vseed"


def sh(*a, **k):
    return subprocess.run(a, capture_output=True, text=True, **k)


def one(sid, checks, tier):
    sdir = os.path.join(VERIF, "seeded", sid)
    meta = json.load(open(os.path.join(sdir, "meta.json")))
    if meta.get("obsolete"):
        return sid, [{"check": "-", "detected": True, "clauses": ["obsolete: " + meta["obsolete"]["reason"][:90]]}]
    wt = os.path.join(SCRATCH, sid)
    out = wt + ".out"
    shutil.rmtree(out, ignore_errors=True)
    sh("git", "-C", "/repo", "worktree", "remove", "--force", wt)
    r = sh("git", "-C", "/repo", "worktree", "add", "--detach", wt, "HEAD")
    if r.returncode:
        return sid, [{"check": "-", "error": "worktree: " + r.stderr[-300:]}]
    res = []
    try:
        r = sh("git", "-C", wt, "apply", os.path.join(sdir, "patch.diff"))
        if r.returncode:
            return sid, [{"check": "-", "error": "patch does not apply to HEAD: " + r.stderr[-300:]}]
        for c in checks or [meta["property"]]:
            t0 = time.time()
            env = dict(os.environ, VERIF_REPO=wt, VERIF_OUTDIR=out)
            p = sh("timeout", "7200", os.path.join(VERIF, "check"), c, tier, env=env)
            viol = [l for l in p.stdout.splitlines() if l.startswith("VIOLATION ")]
            clauses = sorted({m.group(1) for l in viol for m in [re.search(r"clause=(\S+)", l)] if m})
            ndrift = sum(1 for l in p.stdout.splitlines() if l.startswith("MODEL-DRIFT:"))
            res.append({"check": c, "tier": tier, "exit": p.returncode, "violation_lines": len(viol), "clauses": clauses, "model_drift_lines": ndrift,
                        "detected": p.returncode == 1 and bool(viol), "first": viol[0][:300] if viol else p.stdout[-300:], "wall_s": round(time.time() - t0, 1),
                        "head": sh("git", "-C", "/repo", "rev-parse", "--short", "HEAD").stdout.strip()})
    finally:
        sh("git", "-C", "/repo", "worktree", "remove", "--force", wt)
        shutil.rmtree(wt, ignore_errors=True)
        shutil.rmtree(out, ignore_errors=True)
    return sid, res


def main():
    a = sys.argv[1:]
    tier, checks, j, ids = "quick", None, 3, []
    while a:
        x = a.pop(0)
        if x == "--tier": tier = a.pop(0)
        elif x == "--checks": checks = a.pop(0).split(",")
        elif x == "-j": j = int(a.pop(0))
        else: ids.append(x)
    ids = ids or sorted(d for d in os.listdir(os.path.join(VERIF, "seeded")) if os.path.exists(os.path.join(VERIF, "seeded", d, "patch.diff")))
    os.makedirs(SCRATCH, exist_ok=True)
    missed = 0
    with ThreadPoolExecutor(j) as ex:
        for sid, res in ex.map(lambda s: one(s, checks, tier), ids):
            mp = os.path.join(VERIF, "seeded", sid, "meta.json")
            meta = json.load(open(mp))
            if not meta.get("obsolete"):
                old = [d for d in meta.get("detected_by", []) if isinstance(d, dict) and not any(d.get("check") == r.get("check") and d.get("tier") == r.get("tier") for r in res)]
                meta["detected_by"] = old + res
            json.dump(meta, open(mp, "w"), indent=1)
            for r in res:
                ok = r.get("detected")
                missed += 0 if ok else 1
                print("%-8s %-4s %-8s %s  %s %s" % (sid, r.get("check"), r.get("tier", ""), "DETECTED" if ok else "missed  ", (r.get("clauses") or r.get("error") or r.get("first", "")), ("drift=%d" % r["model_drift_lines"]) if r.get("model_drift_lines") else ""), flush=True)
    shutil.rmtree(SCRATCH, ignore_errors=True)
    sys.exit(1 if missed else 0)


main()
