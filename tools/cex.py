#!/usr/bin/env python3
"""cex.py <tlc output file>: compact rendering of a TLC counterexample of HtpParser (one line per state)."""
import re, sys
t = open(sys.argv[1]).read()
states = re.split(r"\nState \d+: ", t)[1:]
prev = None
for k, s in enumerate(states):
    def g(pat, d="?"):
        m = re.search(pat, s); return m.group(1) if m else d
    line = "%3d in=%s/%s out=%s/%s in_tx=%s out_tx=%s cur=%s avail=%s" % (k + 1, g(r'in_state \|-> "(\w+)"'), g(r'in_status \|-> "(\w+)"'), g(r'out_state \|-> "(\w+)"'),
        g(r'out_status \|-> "(\w+)"'), g(r"in_tx \|-> (\d+)"), g(r"out_tx \|-> (\d+)"), g(r'/\\ cur = "(\w+)"'), g(r"/\\ avail = (\d+)"))
    pm = re.search(r"/\\ prog = (<<.*?>>)\n/\\", s, re.S)
    head = ""
    if pm:
        hm = re.search(r'\[([^\]]*)\]', pm.group(1))
        if hm:
            head = re.sub(r"\s+", " ", hm.group(1))[:90]
    viol = g(r"viol \|-> (\{.*?\}), gsites", "{}")
    print(line, "| next:", head, "| viol:", re.sub(r"\s+", " ", viol)[:200] if viol != "{}" else "")
