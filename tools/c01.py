"""C01 - memory safety and clean teardown on arbitrary traffic and call histories.
Specification: the history space (HtpParser.tla call/outcome structure, scenario families G3/G4 + exchange library) and the observer clauses
C01:NoSanitizerReport, C01:EveryCallReturns, C01:TeardownClean of spec/HtpObs.tla; oracle for undefined behaviour: ASan + UBSan in the recorder build
(every byte handed to a callback is read); teardown: the counting allocator (live objects after destroy = 0)."""
import random
import streams, gens, vlib
from streams import Scn

PROPS = ["C01"]


def rand_cfg(rnd):
    c = {"pers": rnd.choice(gens.PERS)}
    if rnd.random() < .4: c["autod"] = 1
    if rnd.random() < .3: c["freed"] = 1
    if rnd.random() < .3: c["decomp"] = 0
    if rnd.random() < .3: c["reqdecomp"] = 1
    if rnd.random() < .2: c["urlen"] = 0
    if rnd.random() < .2: c["mpart"] = 0
    if rnd.random() < .2: c["cookies"] = 0
    if rnd.random() < .2: c["auth"] = 0
    if rnd.random() < .3:
        h = rnd.choice((8, 30, 100, 400)); c["hard"] = h; c["soft"] = h // 2
    if rnd.random() < .2: c["maxtx"] = rnd.choice((1, 2, 5))
    if rnd.random() < .2: c["layers"] = rnd.choice((0, 1, 2))
    if rnd.random() < .2: c["bomb"] = rnd.choice((10, 1000))
    if rnd.random() < .2: c["loglevel"] = rnd.choice((0, 6))
    return c


def behaviours(rnd):
    b = []
    r = rnd.random()
    if r < .25:
        b.append((rnd.choice(gens.HOOKS_TX + gens.HOOKS_DATA), rnd.choice((1, 1, 2, 3, "*")), rnd.choice(("DECLINED", "STOP", "ERROR"))))
    elif r < .4:
        b.append(("transaction_complete", rnd.choice((1, 2, "*")), "destroy"))
    elif r < .55:
        b.append((rnd.choice(("request_headers", "response_headers", "request_line", "response_line")), rnd.choice((1, "*")), "reghook"))
        if rnd.random() < .5:
            b.append(("transaction_complete", "*", "destroy"))
    return b


def scenarios(ctx):
    q = ctx.quick
    rnd = random.Random(ctx.seed)
    base = gens.corpus(ctx.seed, q, modes=("orig", "byte", "rand"), nrand=2 if q else 12, mutants=3 if q else 20)
    base += gens.exchanges(ctx.seed, q, maxcuts=10 if q else 60)
    out = []
    for s in base:
        for k in range(3 if q else 8):
            cfg = dict(s.cfg); cfg.update(rand_cfg(rnd)); cfg["wf"] = 0; cfg["dump"] = 1
            arr = list(s.arr)
            mode = rnd.choice(("proto", "proto", "raw"))
            cfg["mode"] = mode
            if mode == "raw":
                # arbitrary histories: gaps, destroy between calls, data after close, double close
                for _ in range(rnd.randint(0, 3)):
                    if not arr: break
                    p = rnd.randrange(len(arr) + 1)
                    what = rnd.choice(("gap", "gap", "destroy", "close", "zero"))
                    if what == "gap": arr.insert(p, (rnd.choice(("g>", "g<")), rnd.choice((1, 7, 100, 5000))))
                    elif what == "destroy": arr.insert(p, ("D", rnd.randrange(3)))
                    elif what == "close": arr.insert(p, ("C", 0))
            beh = behaviours(rnd)
            if any(b[2] == "destroy" for b in beh) or any(a[0] == "D" for a in arr):
                cfg["autod"] = 0          # a user who destroys transactions himself does not also enable automatic disposal
            out.append(Scn("%s.k%d" % (s.name, k), arr, cfg, beh, (), rnd.random() < .9))
    return out


def edge_lines(ctx):
    """Every line-reading state of both directions is entered, then fed sequences of tiny degenerate lines, EACH IN ITS OWN CALL (and so in
    its own exactly-sized heap buffer: an access one byte before or after the caller's buffer is a sanitizer report): lone LF, CRLF, lone
    CR, whitespace-only lines, NUL, a lone separator - then a normal continuation.  All sequences up to a depth, for all states."""
    import itertools
    H = b"Host: h\r\n"
    REQ = b"GET / HTTP/1.1\r\n" + H + b"\r\n"
    atoms = [b"\n", b"\r\n", b"\r", b" ", b"\t\n", b"0\n", b"\x00\n", b";\n", b":\n", b"5", b"a"]
    # (name, direction, other direction's bytes first, prefix that reaches the state, continuation)
    states = [
        ("req_line", ">", b"", b"", b"GET /x HTTP/1.1\r\n" + H + b"\r\n"),
        ("req_headers", ">", b"", b"GET / HTTP/1.1\r\n", H + b"\r\n"),
        ("req_chunk_len", ">", b"", b"POST / HTTP/1.1\r\n" + H + b"Transfer-Encoding: chunked\r\n\r\n", b"3\r\nabc\r\n0\r\n\r\n"),
        ("req_chunk_end", ">", b"", b"POST / HTTP/1.1\r\n" + H + b"Transfer-Encoding: chunked\r\n\r\n3\r\nabc", b"\r\n0\r\n\r\n"),
        ("req_trailer", ">", b"", b"POST / HTTP/1.1\r\n" + H + b"Transfer-Encoding: chunked\r\n\r\n0\r\n", b"X: y\r\n\r\n"),
        ("req_finalize", ">", b"", b"GET /1 HTTP/1.1\r\n" + H + b"\r\n", b"GET /2 HTTP/1.1\r\n" + H + b"\r\n"),
        ("req_body_cl", ">", b"", b"POST / HTTP/1.1\r\n" + H + b"Content-Length: 4\r\n\r\n", b"abcd"),
        ("res_line", "<", REQ, b"", b"HTTP/1.1 200 OK\r\nContent-Length: 0\r\n\r\n"),
        ("res_headers", "<", REQ, b"HTTP/1.1 200 OK\r\n", b"Content-Length: 0\r\n\r\n"),
        ("res_chunk_len", "<", REQ, b"HTTP/1.1 200 OK\r\nTransfer-Encoding: chunked\r\n\r\n", b"3\r\nabc\r\n0\r\n\r\n"),
        ("res_chunk_end", "<", REQ, b"HTTP/1.1 200 OK\r\nTransfer-Encoding: chunked\r\n\r\n3\r\nabc", b"\r\n0\r\n\r\n"),
        ("res_trailer", "<", REQ, b"HTTP/1.1 200 OK\r\nTransfer-Encoding: chunked\r\n\r\n0\r\n", b"X: y\r\n\r\n"),
        ("res_finalize", "<", REQ + REQ, b"HTTP/1.1 200 OK\r\nContent-Length: 0\r\n\r\n", b"HTTP/1.1 200 OK\r\nContent-Length: 0\r\n\r\n"),
        ("res_body_close", "<", REQ, b"HTTP/1.0 200 OK\r\n\r\n", b"tail"),
    ]
    depth = 2 if ctx.quick else 3
    out = []
    for name, d, other, prefix, cont in states:
        o = "<" if d == ">" else ">"
        for n in range(1, depth + 1):
            for k, seq in enumerate(itertools.product(range(len(atoms)), repeat=n)):
                arr = ([(o, other)] if other else []) + ([(d, prefix)] if prefix else []) + [(d, atoms[i]) for i in seq] + [(d, cont)]
                out.append(Scn("edge/%s.%s" % (name, "_".join(map(str, seq))), arr, {"wf": 0, "dump": 0, "cls": "edge", "pers": (k % 10)}, (), (), k % 3 != 0))
    return out


def run(ctx):
    if ctx.replay:
        return streams.replay(ctx, "alloc")
    scns = scenarios(ctx) + edge_lines(ctx) + gens.gaps(ctx.seed, ctx.quick)      # gaps at every position of small exchanges (incl. compressed / urlencoded bodies)
    import drift
    drift.with_steps(scns, every=max(1, -(-len(scns) // (400 if ctx.quick else 5000))))
    exe = vlib.build(ctx, "alloc", ["rec"])["rec"]
    files = streams.run_rec(ctx, exe, scns, "c01")
    execs, events, viols = streams.judge_obs(ctx, files, PROPS)
    streams.attach_replays(ctx, viols, scns)
    for v in viols:
        # a sanitizer report is keyed by its kind and innermost libhtp frames (stable under line shifts)
        if v["clause"] == "C01:NoSanitizerReport":
            v["sites"] = [v.get("detail", "")]
    ctx.violations += viols
    acc = drift.check(ctx, files)
    vlib.finish(ctx, "exploration", {
        "model_acceptance": acc,
        "evaluations": execs, "distinct_nontrivial": len({s.text().split("\n", 1)[1] for s in scns if s.nbytes() > 0}),
        "events_judged": events, "traces_validated_against_impl": execs,
        "rule": "histories = corpus captures (original, 1-byte, random cuts), byte-mutated captures and the exchange library, each under a random point of the "
                "configuration lattice (8 personalities, auto-destroy, tx_freed, (de)compression, parsers, tiny field limits, max_tx, layer/bomb limits, logging) with "
                "callback behaviours {OK, DECLINED, STOP, ERROR at the n-th call of a hook, register tx-level body hook, destroy tx in TRANSACTION_COMPLETE} and, in raw "
                "mode, gaps, destroy-between-calls, close in the middle and data after close; plus the gap family (a gap at every position of 8 small exchanges: identity, close-delimited, "
                "gzip response, urlencoded / chunked / gzip (request decompression on) request bodies, HTTP/0.9); non-trivial = at least one data byte; distinct = distinct scenario text",
        "samples": [scns[1].text()[:500], scns[len(scns) // 2].text()[:500]],
        "trusted_base": ["AddressSanitizer + UndefinedBehaviorSanitizer (gcc 12) detect the undefined behaviour itself", "harness/vf_alloc.c counts live libhtp allocations"],
    }, assumptions=["undefined behaviour is observed by ASan/UBSan in the recorder build, not decided by the specification (DESIGN.md 5/C01)"])
