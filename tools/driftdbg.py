#!/usr/bin/env python3
"""driftdbg.py <trace.ndjson> <run name> [autod]: development aid - finds the record of one execution that spec/HtpParser.tla (TSpec) cannot
follow and prints the model state (P, prog) reached just before it, next to the record."""
import json, os, re, subprocess, sys, shutil
sys.path.insert(0, os.path.dirname(os.path.abspath(__file__)))
import vlib
tr, run = sys.argv[1], sys.argv[2]
autod = len(sys.argv) > 3 and sys.argv[3] in ("1", "true", "TRUE")
ex, on = [], False
for ln in open(tr):
    if ln.startswith('{"e":"Reset"'):
        on = json.loads(ln).get("run") == run
    if on:
        ex.append(ln)
d = "/tmp/driftdbg"
shutil.rmtree(d, ignore_errors=True); shutil.copytree(vlib.SPEC, d)
open(d + "/HtpKnown.tla", "w").write(vlib.known_module_text())
open(d + "/T.cfg", "w").write("CONSTANTS MaxTx = 100000  MaxCalls = 100000000  MaxAvail = 2  AutoDestroy = %s  FixD4 = TRUE  TraceMode = TRUE  Gaps = FALSE\n CbFail = {}\n Known <- KnownSet\n"
                              "SPECIFICATION TSpec\nINVARIANT NotAccepted\nCONSTRAINT Progress\nPOSTCONDITION Report\nCHECK_DEADLOCK FALSE\n" % ("TRUE" if autod else "FALSE"))
def tlc(lines):
    open(d + "/t.ndjson", "w").writelines(lines)
    e = dict(os.environ, TRACE=d + "/t.ndjson", JAVA_TOOL_OPTIONS="-Dtlc2.tool.queue.IStateQueue=StateDeque")
    return subprocess.run(["java", "-cp", vlib.TLA_CP, "tlc2.TLC", "-noGenerateSpecTE", "-workers", "1", "-metadir", d + "/md", "-config", "T.cfg", "HtpParserMC.tla"], cwd=d, capture_output=True, text=True, env=e).stdout
out = tlc(ex)
if "Invariant NotAccepted is violated" in out:
    print("accepted"); sys.exit(0)
m = re.search(r'<<"MAXL", (\d+), (\d+)>>', out)
maxl = int(m.group(1))
print("execution has %d records; the model stops before record %d:" % (len(ex), maxl))
for k in range(max(0, maxl - 4), min(len(ex), maxl + 1)):
    print(("  > " if k == maxl - 1 else "    ") + ex[k].strip()[:260])
shutil.rmtree(d + "/md", ignore_errors=True)
out = tlc(ex[:maxl - 1])
st = out[out.rfind("State "):]
for var in ("prog", "P", "cur", "avail"):
    m = re.search(r"/\\ %s = (.*)" % var, st)
    print("%s = %s" % (var, m.group(1)[:1500] if m else "?"))
