"""C07 - decompression is faithful for any chunking, and bombs are contained.
Specification: spec/Decomp.tla (driver model: feed / restart / passthrough; NothingLost, Faithful modulo finding F12, which the model itself exhibits) and the
observer clauses C07:BombBound and C06:DeliveredIsBody / C06:EntityLenIsDelivered (renamed C07:Faithful / C07:Conservation here); binding: payload classes x codings x
transfer framings x chunkings with the expected entity (payload, raw wire bytes on passthrough, the inner stream when the layer limit stops decoding) declared to the recorder."""
import gzip, lzma, os, random, zlib
import streams, vlib
from streams import Scn, A

PROPS = ["C07", "C06"]


def raw_deflate(b):
    c = zlib.compressobj(6, zlib.DEFLATED, -15); return c.compress(b) + c.flush()


def lzma_alone(b):
    return lzma.compress(b, format=lzma.FORMAT_ALONE, preset=1)


def payloads(ctx):
    rnd = random.Random(7)
    P = [("empty", b""), ("one", b"a"), ("text", b"The quick brown fox jumps over the lazy dog. " * 3), ("p8191", bytes((i * 7) % 251 for i in range(8191))),
         ("p8192", bytes((i * 7) % 251 for i in range(8192))), ("p8193", bytes((i * 7) % 251 for i in range(8193))), ("random", bytes(rnd.randrange(256) for _ in range(3000)))]
    if not ctx.quick:
        P.append(("rep100k", b"abcdefgh" * 12800))
    return P


def codings():
    return [("gzip", b"gzip", gzip.compress), ("x-gzip", b"x-gzip", gzip.compress), ("deflate_raw", b"deflate", raw_deflate), ("deflate_zlib", b"deflate", zlib.compress),
            ("lzma", b"lzma", lzma_alone)]


def frame(fr, hdrs, body, rnd):
    if fr == "cl":
        return A(200, hdrs=hdrs, body=body)
    if fr == "chunked":
        k = max(1, len(body) // 3)
        parts = [body[:k], body[k:2 * k], body[2 * k:]] if len(body) > 2 else [body] if body else []
        return A(200, hdrs=hdrs, chunked=[p for p in parts if p])
    return A(200, hdrs=hdrs, ver=b"HTTP/1.0") + body          # close-delimited


def scenarios(ctx):
    q = ctx.quick
    rnd = random.Random(ctx.seed)
    req = b"GET /z HTTP/1.1\r\nHost: h\r\n\r\n"
    out = []

    def full_buffer_offsets(comp, wbits):
        """compressed offsets c at which the decoder, fed comp[:c], has produced an exact multiple of the 8192-byte output buffer (GZIP_BUF_SIZE): the first and
        the last such c for every multiple.  A cut there ends a decompressor call with the output buffer exactly full."""
        d = zlib.decompressobj(wbits)
        n, first, last = 0, {}, {}
        for c in range(1, len(comp) + 1):
            try:
                n += len(d.decompress(comp[c - 1:c]))
            except zlib.error:
                break
            if n and n % 8192 == 0:
                first.setdefault(n, c); last[n] = c
        return sorted(set(first.values()) | set(last.values()))

    def add(name, res, body_off, body_len, expect, cfg, cls, cuts="auto", wirelen=None, extra=()):
        """res: response bytes; compressed body occupies res[body_off:body_off+body_len]; expect: expected entity bytes (None = no expectation)"""
        exp = [("<", 0, expect, wirelen)] if expect is not None else []
        c = dict(cfg, wf=1, n=1, cls=cls, dump=0)
        whole = [(">", req), ("<", res)]
        out.append(Scn(name + ".whole", whole, c, (), exp))
        if cuts == "none":
            return
        pts = list(range(max(1, body_off - 2), min(len(res), body_off + body_len + 1)))
        if cuts == "auto":
            if len(pts) > (24 if q else 400):
                head = pts[:12]                              # the first bytes of the compressed stream matter most (headers, probing)
                pts = sorted(set(head + rnd.sample(pts, (12 if q else 300))))
        elif cuts == "few":
            pts = sorted(set(pts[:3] + rnd.sample(pts, min(len(pts), 3))))
        pts = sorted(set(pts) | {x for x in extra if 0 < x < len(res)})
        for cpos in pts:
            out.append(Scn("%s.c%d" % (name, cpos), [(">", req), ("<", res[:cpos]), ("<", res[cpos:])], c, (), exp))
        if len(res) < 3000:
            out.append(Scn(name + ".byte", streams.recut(whole, "byte"), c, (), exp))
        out.append(Scn(name + ".rand", streams.recut(whole, "rand", rnd), c, (), exp))

    for pn, p in payloads(ctx):
        for cn, label, fn in codings():
            comp = fn(p)
            for fr in ("cl", "chunked", "close"):
                if q and fr != "cl" and pn not in ("text", "one", "p8192"):
                    continue
                res = frame(fr, [(b"Content-Encoding", label)], comp, rnd)
                off = res.index(b"\r\n\r\n") + 4
                cfg = {"lzmalayers": 1} if cn == "lzma" else {}
                # a zlib-wrapped stream announced as "deflate" makes the decompressor restart with other window bits: the only well-formed class in which
                # the open finding F12 (restart re-feeds the current chunk only) can show; it is keyed by this class so that a restart on a VALID
                # gzip / raw deflate / LZMA stream is never excused
                add("dec/%s.%s.%s" % (pn, cn, fr), res, off, len(res) - off, p, cfg, "decomp+zlib" if cn == "deflate_zlib" else "decomp", wirelen=len(comp) if fr != "chunked" else None)
    # payloads larger than the decompressor's output buffer, cut where the buffer is exactly full at the end of a call (and one byte around): random
    # (incompressible) bytes so that such offsets exist for every multiple of the buffer size; deflate levels 0 (stored blocks), 1 and 9; also carried in
    # HTTP chunks that END at such an offset
    big = bytes(random.Random(11).randrange(256) for _ in range(20000 if q else 70000))
    for cn, label, wbits, mk in (("gzip", b"gzip", 31, lambda lvl: (lambda c: c.compress(big) + c.flush())(zlib.compressobj(lvl, zlib.DEFLATED, 31))),
                                 ("deflate_zlib", b"deflate", 15, lambda lvl: zlib.compress(big, lvl)),
                                 ("deflate_raw", b"deflate", -15, lambda lvl: (lambda c: c.compress(big) + c.flush())(zlib.compressobj(lvl, zlib.DEFLATED, -15)))):
        for lvl in (0, 1, 9):
            comp = mk(lvl)
            offs = full_buffer_offsets(comp, wbits)
            res = A(200, hdrs=[(b"Content-Encoding", label)], body=comp)
            off = res.index(b"\r\n\r\n") + 4
            ext = sorted({off + o + dlt for o in offs for dlt in (-1, 0, 1)})
            kls = "decomp+zlib" if cn == "deflate_zlib" else "decomp"
            add("dec/big.%s.l%d.cl" % (cn, lvl), res, off, len(comp), big, {}, kls, cuts="few", wirelen=len(comp), extra=ext)
            if offs:
                parts = [comp[a:b2] for a, b2 in zip([0] + offs, offs + [len(comp)]) if b2 > a]
                res = A(200, hdrs=[(b"Content-Encoding", label)], chunked=parts)
                off = res.index(b"\r\n\r\n") + 4
                add("dec/big.%s.l%d.chunked" % (cn, lvl), res, off, len(res) - off, big, {}, kls, cuts="few")
    text = b"The quick brown fox jumps over the lazy dog. " * 3
    # two layers
    two = gzip.compress(gzip.compress(text))
    res = A(200, hdrs=[(b"Content-Encoding", b"gzip, gzip")], body=two)
    add("dec/text.gzip+gzip.cl", res, res.index(b"\r\n\r\n") + 4, len(two), text, {}, "decomp")
    two = zlib.compress(gzip.compress(text))
    res = A(200, hdrs=[(b"Content-Encoding", b"gzip, deflate")], body=two)
    add("dec/text.gzip+deflate.cl", res, res.index(b"\r\n\r\n") + 4, len(two), text, {}, "decomp+zlib")
    # layer limit: three layers announced and applied, two allowed -> the innermost stream stays encoded
    l1 = gzip.compress(text); l3 = gzip.compress(gzip.compress(l1))
    res = A(200, hdrs=[(b"Content-Encoding", b"gzip, gzip, gzip")], body=l3)
    add("lay/text.3of2.cl", res, res.index(b"\r\n\r\n") + 4, len(l3), l1, {"layers": 2}, "layers", cuts="few")
    add("lay/text.3of3.cl", res, res.index(b"\r\n\r\n") + 4, len(l3), text, {"layers": 3}, "layers", cuts="few")
    # wrong label / garbage: valid for the other supported coding -> decoded; not compressed at all -> passed through unchanged
    gz = gzip.compress(text); zl = zlib.compress(text)
    res = A(200, hdrs=[(b"Content-Encoding", b"deflate")], body=gz)
    add("mis/text.gzip_as_deflate.cl", res, res.index(b"\r\n\r\n") + 4, len(gz), text, {}, "mislabelled")
    res = A(200, hdrs=[(b"Content-Encoding", b"gzip")], body=zl)
    add("mis/text.zlib_as_gzip.cl", res, res.index(b"\r\n\r\n") + 4, len(zl), text, {}, "mislabelled")
    plain = b"this is plain text, it was never compressed, and it is long enough to be probed by every decoder"
    for label in (b"gzip", b"deflate"):
        res = A(200, hdrs=[(b"Content-Encoding", label)], body=plain)
        add("mis/plain_as_%s.cl" % label.decode(), res, res.index(b"\r\n\r\n") + 4, len(plain), plain, {}, "passthrough")
    # truncated compressed stream: whatever was decodable is delivered, nothing invented (no expectation on content, accounting clauses only)
    res = A(200, hdrs=[(b"Content-Encoding", b"gzip")], ver=b"HTTP/1.0") + gz[:len(gz) // 2]
    add("trunc/text.gzip.close", res, res.index(b"\r\n\r\n") + 4, len(gz) // 2, None, {}, "truncated", cuts="few")
    # bombs: the delivered entity stays within max(bomb limit, 2048 x compressed length) + one output buffer
    zeros = bytes(4 << 20 if q else 10 << 20)
    b1 = gzip.compress(zeros); b2 = gzip.compress(b1)
    for bomb in (1048576, 10000):
        res = A(200, hdrs=[(b"Content-Encoding", b"gzip, gzip")], body=b2)
        add("bomb/zeros2.b%d" % bomb, res, res.index(b"\r\n\r\n") + 4, len(b2), None, {"bomb": bomb, "maxcb": 100000000}, "bomb", cuts="few")
        res = A(200, hdrs=[(b"Content-Encoding", b"gzip")], body=b1)
        add("bomb/zeros1.b%d" % bomb, res, res.index(b"\r\n\r\n") + 4, len(b1), None, {"bomb": bomb, "maxcb": 100000000}, "bomb", cuts="few")
    lz = lzma_alone(zeros[: 1 << 20])
    res = A(200, hdrs=[(b"Content-Encoding", b"lzma")], body=lz)
    add("bomb/zeros_lzma", res, res.index(b"\r\n\r\n") + 4, len(lz), None, {"bomb": 10000, "lzmalayers": 1, "maxcb": 100000000}, "bomb", cuts="few")
    # Content-Encoding lists: rows generated by TLC from spec/CEChain.tla (names x separator x layer limit x LZMA layer limit);
    # the wire carries the layers a conforming sender applied (last name outermost), the expectation is what the specification
    # says is left on the payload after the chain (nothing when no limit interferes)
    enc = {"gzip": lambda b: gzip.compress(b, mtime=0), "zlib": zlib.compress, "raw": raw_deflate, "lzma": lzma_alone}

    def layered(layers):
        b = text
        for l in reversed(layers):
            b = enc[l](b)
        return b
    for i, r in enumerate(ctx.ce_rows):
        wire_body = layered(r["stack"])
        res = A(200, hdrs=[(b"Content-Encoding", bytes(r["value"]))], body=wire_body)
        expect = None if r["mismatch"] else layered(r["residual"])
        cuts = "few" if (len(r["stack"]) > 1 and (not q or i % 4 == 0)) else "none"
        add("ce/%d.%s.l%d.z%d" % (i, bytes(r["value"]).decode().replace(" ", "_"), r["ll"], r["zl"]), res, res.index(b"\r\n\r\n") + 4, len(wire_body), expect,
            {"layers": r["ll"], "lzmalayers": r["zl"]}, "celist+zlib" if ("zlib" in r["stack"] or r["mismatch"]) else "celist", cuts=cuts, wirelen=len(wire_body))
    # request side (request decompression enabled)
    reqz = b"POST /u HTTP/1.1\r\nHost: h\r\nContent-Encoding: gzip\r\nContent-Length: %d\r\n\r\n" % len(gz) + gz
    for cpos in [None] + list(range(len(reqz) - len(gz) - 1, len(reqz), 5 if q else 1)):
        arr = [(">", reqz)] if cpos is None else [(">", reqz[:cpos]), (">", reqz[cpos:])]
        out.append(Scn("reqdec/text.gzip.%s" % ("whole" if cpos is None else "c%d" % cpos), arr + [("<", A(200, body=b"ok"))], {"reqdecomp": 1, "wf": 1, "n": 1, "cls": "decomp", "dump": 0}, (), [(">", 0, text, len(gz))]))
    return out


def run(ctx):
    if ctx.replay:
        return streams.replay(ctx, "alloc")
    mc = vlib.tlc_or_die(ctx, "Decomp", "Decomp.cfg", workers=4, timeout=600, xmx="4g")
    for inv in mc.violated:
        ctx.violations.append({"clause": "Model:" + inv, "what": mc.out[-1500:], "sites": []})
    w = vlib.run_tlc(ctx, "Decomp", "Decomp_f12.cfg", workers=1, timeout=600, xmx="4g")
    ctx.notes.append("Decomp_f12.cfg: the design-level witness of finding F12 is %s by TLC" % ("reproduced" if "F12Unreachable" in w.violated else "NOT reproduced"))
    # (the specification of the decompressor chain: meta-properties, the design-level witness of D35, and the rows for the code)
    cm = vlib.tlc_or_die(ctx, "CEChainMC", "CEChainMC.cfg" if ctx.quick else "CEChainMC_thorough.cfg", workers=vlib.NCPU, timeout=3000, xmx="8g")
    for inv in cm.violated:
        ctx.violations.append({"clause": "Model:CEChain:" + inv, "what": cm.out[-1500:], "sites": []})
    w35 = vlib.run_tlc(ctx, "CEChainMC", "CEChainMC_d35.cfg", workers=1, timeout=600, xmx="4g")
    ctx.notes.append("CEChainMC_d35.cfg: with the original (appending) chain construction TLC %s the Faithful clause (defect D35)" % ("refutes" if "Faithful" in w35.violated else "does NOT refute"))
    cfgp = ctx.path("cegen.cfg")
    open(cfgp, "w").write("CONSTANTS FixD35 = TRUE  MaxTokens = %d  Limits = {0, 1, 2, 3}\nINIT Init\nNEXT Next\nINVARIANT Emit\nCHECK_DEADLOCK FALSE\n" % (2 if ctx.quick else 3))
    cg = vlib.tlc_or_die(ctx, "CEChainGen", cfgp, workers=1, timeout=1200, xmx="4g", name="cegen")
    ctx.ce_rows = sorted(vlib.printed_json(cg, "ROW"), key=lambda r: (r["value"], r["ll"], r["zl"]))
    if len(ctx.ce_rows) < 3000:
        raise vlib.Infra("CEChainGen produced %d rows" % len(ctx.ce_rows))
    scns = scenarios(ctx)
    import drift
    drift.with_steps(scns, every=max(1, -(-len(scns) // (500 if ctx.quick else 6000))))
    exe = vlib.build(ctx, "alloc", ["rec"])["rec"]
    files = streams.run_rec(ctx, exe, scns, "c07", timeout=1500)
    execs, events, viols = streams.judge_obs(ctx, files, PROPS)
    streams.attach_replays(ctx, viols, [s for s in scns if s.nbytes() < 100000])
    keep = []
    for v in viols:
        c = v["clause"]
        if c in ("C06:DeliveredIsBody",): v["clause"] = "C07:Faithful"
        elif c == "C06:EntityLenIsDelivered": v["clause"] = "C07:Conservation"
        elif c.startswith("C06:"):
            continue                      # marker / message-length clauses belong to C06
        keep.append(v)
    ctx.violations += keep
    acc = drift.check(ctx, files)
    vlib.finish(ctx, "exploration", {
        "model_acceptance": acc,
        "evaluations": execs, "distinct_nontrivial": len({s.text().split("\n", 1)[1][:6000] for s in scns}), "events_judged": events, "traces_validated_against_impl": execs,
        "states": mc.distinct, "transitions": mc.generated,
        "rule": "payloads {empty, 1 byte, text, 8191/8192/8193 patterned bytes, 3000 random bytes%s} x codings {gzip, x-gzip, raw deflate, zlib deflate, LZMA-alone} x framings {C-L, chunked, close}; "
                "two-layer lists, layer limit 2 of 3 / 3 of 3, gzip-as-deflate, zlib-as-gzip, plain text labelled gzip / deflate, truncated stream, zero bombs (1 and 2 gzip layers, LZMA) under two bomb limits, "
                "gzip request body; chunkings: whole, cuts around and inside the compressed stream (all for short streams, the first 12 positions + a sample otherwise), one byte per call, random" % ("" if ctx.quick else ", 100 KiB repetitive"),
        "samples": [scns[0].text()[:400], scns[-1].text()[:300]],
        "trusted_base": ["zlib and the bundled LZMA decoder (inflate is an oracle)", "python's gzip / zlib / lzma modules produce the compressed test streams"],
    }, assumptions=["the wall-clock bomb heuristic is disabled by giving libhtp a clock that does not advance (forced include, no source change)",
                    "for mislabelled-but-supported streams the expectation is the decoded payload (what whole delivery yields); for uncompressed data the raw bytes"])
