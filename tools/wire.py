"""Renderer for HtpWire descriptors: abstract exchange (JSON printed by TLC from spec/HtpWireGen.tla) -> request / response byte streams,
message boundaries and body expectations.  The renderer only spells what the descriptor says; TLC computes Expected and judges."""
import json, re, os, sys
import vlib

BODIES = {
    "b_plain": b"hello body",
    "b_crlf_nul_http": b"\r\n\x00bin\r\nGET / HTTP/1.1\r\n\r\nend",
    "b_chunky": b"5\r\nabcde\r\n0\r\n\r\nX: y\r\n\r\n",
    "b_one": b"x",
    "b_form": b"a=1&b=two+words&c=%41%2f&d",
}
# coded streams of the body tokens (committed constants: gzip with mtime 0, zlib deflate, LZMA-alone preset 1 with end marker)
CODED = {
    ("b_plain", "gzip"): "1f8b0800000000000203cb48cdc9c95748ca4fa90400593d933e0a000000",
    ("b_plain", "deflate"): "789ccb48cdc9c95748ca4fa90400154b03e3",
    ("b_plain", "lzma"): "5d00001000ffffffffffffffff00341949db855c634860a0dd06a69affff5eb40000",
    ("b_crlf_nul_http", "gzip"): "1f8b0800000000000203e3e56248cacce3e572770d51d057f0080909d037d433e4e5e2e54acd4b0100822d12941d000000",
    ("b_crlf_nul_http", "deflate"): "789ce3e56248cacce3e572770d51d057f0080909d037d433e4e5e2e54acd4b01005764061b",
    ("b_crlf_nul_http", "lzma"): "5d00001000ffffffffffffffff000682bd9cc34920abcb0885b2d375ff1e9fd9417906d43f1c22b3344e7735a870ffffffb6368000",
    ("b_chunky", "gzip"): "1f8b080000000000020333e5e54a4c4a4e49e5e532e0e5e2e58ab052a804d100ab1caf2417000000",
    ("b_chunky", "deflate"): "789c33e5e54a4c4a4e49e5e532e0e5e2e58ab052a804d100371c040a",
    ("b_chunky", "lzma"): "5d00001000ffffffffffffffff001a833d5071fa0d7105d92431777b7c31da6633164c6d32223ffdcd9d00",
    ("b_one", "gzip"): "1f8b0800000000000203ab00008316dc8c01000000",
    ("b_one", "deflate"): "789cab000000790079",
    ("b_one", "lzma"): "5d00001000ffffffffffffffff003c41fbffffffe0000000",
    ("b_form", "gzip"): "1f8b08000000000002034bb435544bb22d29cfd72ecf2f4a29564bb655353154354a534b0100e4d886ca1a000000",
    ("b_form", "deflate"): "789c4bb435544bb22d29cfd72ecf2f4a29564bb655353154354a534b01006f4d07e0",
    ("b_form", "lzma"): "5d00001000ffffffffffffffff00308f4222791b1046bb56defe1f656b86ca542d22fb45a74f5d93f7918d4d50fff8a77800",
}


def unescape_tla(s):
    return re.sub(r"\\(.)", lambda m: m.group(1), s)


def scenarios_from_tlc(r):
    out = []
    pre = '<<"SCN", "'
    for ln in r.printed:
        if ln.startswith(pre) and ln.endswith('">>'):
            out.append(json.loads(unescape_tla(ln[len(pre):-3])))
    return out


def line_bytes(l):
    b = l["name"].encode() + l["sep"].encode() + l["pieces"][0].encode() + b"\r\n"
    for p in l["pieces"][1:]:
        b += l["ind"].encode() + p.encode() + b"\r\n"
    return b


def framing(fr, tok, coding="none"):
    """-> (header bytes, body wire bytes, entity body or None, wire body length or None)"""
    ent = BODIES[tok]
    data = ent if coding == "none" else bytes.fromhex(CODED[(tok, coding)])
    r = framing1(fr, data)
    return r[0], r[1], (ent if r[2] is not None else None), r[3]


def framing1(fr, data):
    if fr == "cl":
        return b"Content-Length: %d\r\n" % len(data), data, data, len(data)
    if fr == "cl0":
        return b"Content-Length: 0\r\n", b"", None, None
    if fr == "chunked1":
        w = b"%x\r\n" % len(data) + data + b"\r\n0\r\n\r\n"
        return b"Transfer-Encoding: chunked\r\n", w, data, None
    if fr == "chunked2":
        k = max(1, len(data) // 2)
        # a long extension on the first chunk (the response side probes a chunk-size line once 8 bytes of it lie in the current data chunk),
        # a short one on the second and on the last-chunk line
        w = b"%x;name=value-of-the-extension\r\n" % k + data[:k] + b"\r\n"
        if len(data) > k:
            w += b"%X;e=1\r\n" % (len(data) - k) + data[k:] + b"\r\n"
        w += b"0;last=\"yes, the last one\"\r\nX-Trailer: t\r\n\r\n"
        return b"Transfer-Encoding: chunked\r\n", w, data, None
    if fr == "close":
        return b"", data, data, len(data)
    return b"", b"", None, None


def render(x):
    """x: list of {req, res}.  Returns dict(q, s, qstarts, sstarts, expq, exps, n)."""
    qm, sm, expq, exps = [], [], {}, {}
    for k, p in enumerate(x):
        q, s = p["req"], p["res"]
        fh, fb, ent, wl = framing(q["fr"], q["body"])
        head = q["m"].encode() + b" " + q["t"]["raw"].encode() + b" " + q["v"].encode() + b"\r\nHost: " + q["hostv"].encode() + b"\r\n"
        head += b"".join(line_bytes(l) for l in q["lines"])
        if q["cookie"]:
            head += b"Cookie: sid=abc123; theme=dark\r\n"
        if q["basic"]:
            head += b"Authorization: Basic dXNlcjpwYXNz\r\n"
        if q["fr"] in ("cl", "chunked1", "chunked2", "close") and q["body"] == "b_form":
            head += b"Content-Type: application/x-www-form-urlencoded\r\n"
        qm.append(head + fh + b"\r\n" + fb)
        if ent is not None:
            expq[k] = (ent, wl)
        fh, fb, ent, wl = framing(s["fr"], s["body"], s["coding"])
        head = s["v"].encode() + b" " + s["st"]["text"].encode() + b" " + s["st"]["reason"].encode() + b"\r\n" + b"".join(line_bytes(l) for l in s["lines"])
        if s["coding"] != "none":
            head += b"Content-Encoding: " + s["coding"].encode() + b"\r\n"
        sm.append(head + fh + b"\r\n" + fb)
        if ent is not None:
            exps[k] = (ent, wl)
    ex = dict(q=qm, s=sm, n=len(x), cls="wire", expq=expq, exps=exps)
    import streams
    streams.finish_exchange(ex)
    return ex


def generate(ctx, frm, to, maxn):
    """Run TLC on HtpWireGen for the index range; returns list of scenario dicts {i, n, x}."""
    cfgp = ctx.path("wiregen_%d_%d.cfg" % (frm, to))
    open(cfgp, "w").write("CONSTANTS From = %d  To = %d  MaxN = %d\nINIT Init\nNEXT Next\nINVARIANT Emit\nCHECK_DEADLOCK FALSE\n" % (frm, to, maxn))
    r = vlib.tlc_or_die(ctx, "HtpWireGen", cfgp, workers=1, timeout=1200, xmx="4g", name="wiregen")
    return scenarios_from_tlc(r), r


if __name__ == "__main__":
    for k, v in BODIES.items():
        print(k, len(v))
