"""Renderer for HtpWire descriptors: abstract exchange (JSON printed by TLC from spec/HtpWireGen.tla) -> request / response byte streams,
message boundaries and body expectations.  The renderer only spells what the descriptor says; TLC computes Expected and judges."""
import json, re, os, sys
import vlib

BODIES = {
    "b_plain": b"hello body",
    "b_crlf_nul_http": b"\r\n\x00bin\r\nGET / HTTP/1.1\r\n\r\nend",
    "b_chunky": b"5\r\nabcde\r\n0\r\n\r\nX: y\r\n\r\n",
    "b_one": b"x",
}


def unescape_tla(s):
    return re.sub(r"\\(.)", lambda m: m.group(1), s)


def scenarios_from_tlc(r):
    out = []
    pre = '<<"SCN", "'
    for ln in r.printed:
        if ln.startswith(pre) and ln.endswith('">>'):
            out.append(json.loads(unescape_tla(ln[len(pre):-3])))
    return out


def line_bytes(l):
    b = l["name"].encode() + l["sep"].encode() + l["pieces"][0].encode() + b"\r\n"
    for p in l["pieces"][1:]:
        b += l["ind"].encode() + p.encode() + b"\r\n"
    return b


def framing(fr, tok):
    """-> (header bytes, body wire bytes, entity body or None, wire body length or None)"""
    data = BODIES[tok]
    if fr == "cl":
        return b"Content-Length: %d\r\n" % len(data), data, data, len(data)
    if fr == "cl0":
        return b"Content-Length: 0\r\n", b"", None, None
    if fr == "chunked1":
        w = b"%x\r\n" % len(data) + data + b"\r\n0\r\n\r\n"
        return b"Transfer-Encoding: chunked\r\n", w, data, None
    if fr == "chunked2":
        k = max(1, len(data) // 2)
        w = b"%x;ext=1\r\n" % k + data[:k] + b"\r\n"
        if len(data) > k:
            w += b"%X\r\n" % (len(data) - k) + data[k:] + b"\r\n"
        w += b"0\r\nX-Trailer: t\r\n\r\n"
        return b"Transfer-Encoding: chunked\r\n", w, data, None
    if fr == "close":
        return b"", data, data, len(data)
    return b"", b"", None, None


def render(x):
    """x: list of {req, res}.  Returns dict(q, s, qstarts, sstarts, expq, exps, n)."""
    qm, sm, expq, exps = [], [], {}, {}
    for k, p in enumerate(x):
        q, s = p["req"], p["res"]
        fh, fb, ent, wl = framing(q["fr"], q["body"])
        head = q["m"].encode() + b" " + q["t"]["raw"].encode() + b" " + q["v"].encode() + b"\r\nHost: " + q["hostv"].encode() + b"\r\n"
        head += b"".join(line_bytes(l) for l in q["lines"])
        if q["cookie"]:
            head += b"Cookie: sid=abc123; theme=dark\r\n"
        if q["basic"]:
            head += b"Authorization: Basic dXNlcjpwYXNz\r\n"
        qm.append(head + fh + b"\r\n" + fb)
        if ent is not None:
            expq[k] = (ent, wl)
        fh, fb, ent, wl = framing(s["fr"], s["body"])
        head = s["v"].encode() + b" " + s["st"]["text"].encode() + b" " + s["st"]["reason"].encode() + b"\r\n" + b"".join(line_bytes(l) for l in s["lines"])
        sm.append(head + fh + b"\r\n" + fb)
        if ent is not None:
            exps[k] = (ent, wl)
    ex = dict(q=qm, s=sm, n=len(x), cls="wire", expq=expq, exps=exps)
    import streams
    streams.finish_exchange(ex)
    return ex


def generate(ctx, frm, to, maxn):
    """Run TLC on HtpWireGen for the index range; returns list of scenario dicts {i, n, x}."""
    cfgp = ctx.path("wiregen_%d_%d.cfg" % (frm, to))
    open(cfgp, "w").write("CONSTANTS From = %d  To = %d  MaxN = %d\nINIT Init\nNEXT Next\nINVARIANT Emit\nCHECK_DEADLOCK FALSE\n" % (frm, to, maxn))
    r = vlib.tlc_or_die(ctx, "HtpWireGen", cfgp, workers=1, timeout=1200, xmx="4g", name="wiregen")
    return scenarios_from_tlc(r), r


if __name__ == "__main__":
    for k, v in BODIES.items():
        print(k, len(v))
