"""C17 - containers and string/number primitives behave as their abstract types.
Specification: spec/Containers.tla (List, Ring refinement, Table), spec/Prims.tla (compare/search/prefix/trim/append, numeric parsers on digit
sequences); ContainersMC checks Ring refines List exhaustively; binding: pattern F (ContainersRows, PrimsRows)."""
import json, vlib


def run(ctx):
    q = ctx.quick
    mc = vlib.tlc_or_die(ctx, "ContainersMC", "ContainersMC.cfg" if q else "ContainersMC_thorough.cfg", workers=vlib.NCPU, timeout=3000, xmx="12g")
    for inv in mc.violated:
        ctx.violations.append({"clause": "Model:" + inv, "what": "the ring model does not refine the abstract list: " + mc.out[-1200:], "sites": []})
    # unbounded number of operations: Apalache discharges an inductive invariant of the ring (spec/RingInd.tla, capacities up to 8):
    # Init => IndInv always, IndInv /\ Next => IndInv' in the thorough tier (about 3 minutes)
    import shutil, subprocess
    apa = {}
    if shutil.which("apalache-mc"):
        steps = [("base", ["--init=Init", "--length=0"])] + ([] if q else [("step", ["--init=IndInvInit", "--length=1"])])
        for name, args in steps:
            p = subprocess.run(["timeout", "3000", "apalache-mc", "check", "--cinit=CInit", "--inv=IndInv", "--out-dir=" + ctx.path("apalache_" + name)] + args + [vlib.SPEC + "/RingInd.tla"],
                               capture_output=True, text=True, cwd=ctx.work)
            out = p.stdout + p.stderr
            ok = "The outcome is: NoError" in out
            apa[name] = "NoError" if ok else ("Error" if "The outcome is: Error" in out else "not decided (exit %d)" % p.returncode)
            if "The outcome is: Error" in out:
                ctx.violations.append({"clause": "Model:RingIndInv_" + name, "what": "Apalache: the ring invariant is not inductive (%s): %s" % (name, out[-800:]), "sites": []})
            elif not ok:
                ctx.notes.append("apalache %s did not decide: %s" % (name, out[-300:]))
    n = vlib.NCPU
    ld, td = (8, 6) if q else (10, 7)
    shards = [["list", ld, i, n] for i in range(n)] + [["table", td, i, 4] for i in range(4)] + [["rand", ctx.seed * 7 + i, 400 if q else 6000] for i in range(4)]
    t1, d1, bad1, files1 = vlib.pattern_f(ctx, "san", "fn_cont", shards, "ContainersRows", "ContainersRows.cfg")
    pl = 3 if q else 4
    shards2 = [["pair", pl, i, n] for i in range(n)] + [["one", 4 if q else 5], ["num"]] + [["rand", ctx.seed * 3 + i, 3000 if q else 60000] for i in range(4)]
    t2, d2, bad2, files2 = vlib.pattern_f(ctx, "san", "fn_prim", shards2, "PrimsRows", "PrimsRows.cfg")
    for v in bad1 + bad2:
        r = v.get("row") or {}
        if isinstance(r, dict) and r.get("t") == "pair":
            v["input"] = "pair:%s:%s" % (json.dumps(r["a"]).replace(" ", ""), json.dumps(r["b"]).replace(" ", ""))
        elif isinstance(r, dict) and r.get("t") in ("num", "one"):
            v["input"] = "%s:%s" % (r["t"], json.dumps(r["a"]).replace(" ", ""))
    ctx.violations += bad1 + bad2
    exp_list = 3 * 4 ** ld
    exp_pair = sum(4 ** k for k in range(pl + 1)) ** 2
    vac = None
    if d1 < exp_list:
        vac = "container rows: %d distinct < %d declared" % (d1, exp_list)
    if d2 < exp_pair:
        vac = "primitive rows: %d distinct < %d declared pairs" % (d2, exp_pair)
    samples = [json.loads(open(files1[0]).readline()), json.loads(open(files2[0]).readline())]
    vlib.finish(ctx, "model_checking", {
        "states": mc.distinct, "transitions": mc.generated, "traces_validated_against_impl": t1 + t2,
        "evaluations": t1 + t2, "distinct_nontrivial": d1 + d2,
        "rule": "lists: every sequence of %d operations over {push, pop, shift, replace(middle)} on initial capacities 1..3 with the result of each operation and a full snapshot (get(i) for all i, "
                "size, out-of-range get) after each, plus long random sequences with growth/drain phases on capacities 1..8; tables: every sequence of %d operations over {add a, add A, add b, "
                "add a-NUL-b, clear} for add/addn/addk with snapshots and get_c/get/get_mem lookups of {a A b ab}; primitives: all pairs of strings of length <= %d over {a A b NUL} "
                "(compare x3, search x3, prefix x2, append with/without growth), all strings <= 4 over {a A SP TAB LF b} (trim, lower-case), 3600 numerals around 2^31/2^63/65535 with LWS/zeros/junk "
                "(pint base 10/16, Content-Length, chunk length), random pairs over all bytes" % (ld, td, pl),
        "samples": samples, "exhaustive": True, "apalache_inductive_invariant": apa,
        "model": "ContainersMC: Ring (first,last,size,max, re-linearising growth) refines Seq for all operation sequences within (Caps, MaxOps, MaxLen)",
    }, assumptions=["numeric results are logged as decimal digit lists and compared as numerals (TLC integers are 32-bit)",
                    "lastlen of bstr_util_mem_to_pint for a fully consumed region is pinned to Len+1 by the project's own test and is not judged"], vacuous=vac)
