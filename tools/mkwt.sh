#!/bin/sh
# mkwt.sh <name>: scratch git worktree of /repo under /tmp/wt/<name>, with the (git-ignored) autotools
# build state copied in so that `make check` works there.  Remove with: git -C /repo worktree remove --force /tmp/wt/<name>
set -e
n="$1"; d=/tmp/wt/$n
mkdir -p /tmp/wt
git -C /repo worktree add -q --detach "$d" HEAD
rsync -a --exclude .git --ignore-existing /repo/ "$d"/
echo "$d"
