"""C06 - body bytes are delivered exactly once, in order, with correct length accounting.
Specification: spec/HtpObs.tla clauses C06:* (DeliveredIsBody by offset/match bits and total, EntityLenIsDelivered, MessageLenIsWire, IdentityLens,
MarkerBeforeComplete) and spec/Framing.tla (DeChunk reference, model-checked); binding: bodies over an adversarial alphabet x framings x every single cut."""
import itertools, random
import streams, gens, vlib
from streams import Scn, R, A

PROPS = ["C06"]
ATOMS = [b"a", b"\r", b"\n", b"\x00", b"0", b";", b"GET / HTTP/1.1\r\n", b"HTTP/1.1 200 OK\r\n", b"\r\n\r\n", b"5\r\n"]


def bodies(rnd, q):
    out = [b"", b"a", b"\r\n", b"\n", b"\r", b"0\r\n\r\n", b"\r\nGET /x HTTP/1.1\r\nHost: h\r\n\r\n", b"HTTP/1.1 404 Not Found\r\n\r\n", b"\x00\x00", b"a" * 70]
    for n in (2, 3):
        for t in itertools.product(ATOMS[:7], repeat=n):
            out.append(b"".join(t))
    rnd.shuffle(out)
    keep = out[:60 if q else 400]
    for _ in range(10 if q else 100):
        keep.append(bytes(rnd.choice(b"a\r\n\x000;:GHT /1.") for _ in range(rnd.randint(1, 60))))
    return keep


def chunk_wire(rnd, body, style):
    """returns (wire bytes, number of body bytes taken from the wire): the chunked body is every chunk-size line (with extensions), the
    chunk data, the CRLF after each chunk and the last-chunk line; the trailer section and its closing empty line are read by the header
    parser and are header bytes, not body bytes (htp.h: message_len is the length of the body as seen over TCP)"""
    if style == "one":
        parts = [body] if body else []
    elif style == "bytes":
        parts = [body[i:i + 1] for i in range(len(body))]
    else:
        parts = []
        i = 0
        while i < len(body):
            n = rnd.randint(1, 9); parts.append(body[i:i + n]); i += n
    w = b""
    for k, p in enumerate(parts):
        ext = b";ext=1" if style == "ext" and k == 0 else (b";name=value-of-the-extension", b";q=\"quoted, long\"", b";x")[k % 3] if style == "lext" else b""
        size = (b"%X" if k % 2 else b"%x") % len(p)
        if style == "ext" and k == 1:
            size = b"000" + size
        w += size + ext + b"\r\n" + p + b"\r\n"
    w += b"0;final=yes-it-is-final\r\n" if style == "lext" else b"0\r\n"
    trailer = b"X-T: 1\r\n" if style in ("ext", "rand", "lext") else b""
    return w + trailer + b"\r\n", len(w)


def scenarios(ctx):
    q = ctx.quick
    rnd = random.Random(ctx.seed)
    H = b"Host: h\r\n"
    out = []
    nxt_req = b"GET /next HTTP/1.1\r\n" + H + b"\r\n"
    nxt_res = b"HTTP/1.1 200 OK\r\nContent-Length: 2\r\n\r\nok"
    for bi, body in enumerate(bodies(rnd, q)):
        for fr in ("cl", "one", "bytes", "ext", "lext", "rand", "close"):
            for side in ("q", "s"):
                if fr == "close" and side == "q":
                    continue
                if fr == "cl" and not body and side == "q":
                    pass
                if fr == "cl":
                    fh = b"Content-Length: %d\r\n\r\n" % len(body); wire = body
                elif fr == "close":
                    fh = b"\r\n"; wire = body
                else:
                    cw, wl = chunk_wire(rnd, body, fr)
                    fh = b"Transfer-Encoding: chunked\r\n\r\n"; wire = cw
                if side == "q":
                    qs = b"POST /b HTTP/1.1\r\n" + H + b"Content-Type: application/octet-stream\r\n" + fh + wire + nxt_req
                    ss = b"HTTP/1.1 200 OK\r\nContent-Length: 1\r\n\r\nx" + nxt_res
                    exp = [(">", 0, body, None)]; n = 2
                    lo = len(qs) - len(nxt_req) - len(wire) - 4; hi = len(qs) - len(nxt_req) + 4
                else:
                    last = fr == "close"
                    qs = b"GET /b HTTP/1.1\r\n" + H + b"\r\n" + (b"" if last else nxt_req)
                    ss = b"HTTP/1.1 200 OK\r\n" + fh + wire + (b"" if last else nxt_res)
                    exp = [("<", 0, body, None)] + ([] if last else [("<", 1, b"ok", 2)]); n = 1 if last else 2
                    lo = len(ss) - (0 if last else len(nxt_res)) - len(wire) - 4; hi = len(ss) - (0 if last else len(nxt_res)) + 4
                exp[0] = (exp[0][0], 0, body, len(body) if fr in ("cl", "close") else wl)
                name = "body/b%d.%s.%s" % (bi, fr, side)
                cfg = {"wf": 1, "n": n, "cls": "body", "dump": 0}
                cuts = list(range(max(1, lo), min(hi, len(qs if side == "q" else ss))))
                if q and len(cuts) > 14:
                    cuts = sorted(rnd.sample(cuts, 14))
                whole = [(">", qs), ("<", ss)]
                out.append(Scn(name + ".whole", whole, cfg, (), exp))
                for c in cuts:
                    if side == "q":
                        arr = [(">", qs[:c]), (">", qs[c:]), ("<", ss)]
                    else:
                        arr = [(">", qs), ("<", ss[:c]), ("<", ss[c:])]
                    out.append(Scn("%s.c%d" % (name, c), arr, cfg, (), exp))
                if bi % (4 if q else 1) == 0:
                    out.append(Scn(name + ".byte", streams.recut(whole, "byte"), cfg, (), exp))
                    out.append(Scn(name + ".rand", streams.recut(whole, "rand", rnd), cfg, (), exp))
    # a response that arrives while the request body is still in flight (Expect: 100-continue and plain early answers):
    # request cut at every position after its head, the response offered in between, then the rest of the request
    for bi, body in enumerate([b"0123456789" * 4, b"abc\r\nGET /smuggled HTTP/1.1\r\nHost: h\r\n\r\n", b"x"]):
        for ename, ehdr in (("expect", b"Expect: 100-continue\r\n"), ("plain", b"")):
            for sname, first in (("100_201", b"HTTP/1.1 100 Continue\r\n\r\n" + A(201, b"Created", body=b"")), ("417", A(417, b"Expectation Failed", body=b"no")),
                                 ("401", A(401, b"Unauthorized", body=b"")), ("200", A(200, body=b"fine"))):
                head = b"PUT /b HTTP/1.1\r\n" + H + ehdr + b"Content-Length: %d\r\n\r\n" % len(body)
                qs = head + body + nxt_req
                ss = first + nxt_res
                exp = [(">", 0, body, len(body)), ("<", 1, b"ok", 2)]
                cfg = {"wf": 1, "n": 2, "cls": "body", "dump": 0}
                pts = list(range(len(head), len(head) + len(body) + 1))
                if q and len(pts) > 12:
                    pts = sorted(set(rnd.sample(pts, 10) + [len(head), len(head) + len(body)]))
                for c in pts:
                    for sc in (len(first), len(ss)):
                        arr = [(">", qs[:c]), ("<", ss[:sc]), (">", qs[c:])] + ([("<", ss[sc:])] if sc < len(ss) else [])
                        c2, e2 = cfg, exp
                        if ename == "expect" and sname in ("417", "401") and c == len(head):
                            # a client that announced Expect: 100-continue and is refused before it sent a body byte does not send
                            # the body (the parser relies on that, htp_response.c Expect handling): not a well-formed continuation
                            c2, e2 = dict(cfg, wf=0, cls="expect-refused-body-sent"), []
                        out.append(Scn("early/b%d.%s.%s.c%d.s%d" % (bi, ename, sname, c, sc), arr, c2, (), e2))
    # a response announced as chunked whose first line is not a chunk length: libhtp falls back to "identity up to the close"
    # (htp_connp_RES_BODY_CHUNKED_LENGTH); every byte after the head (a leading empty line excepted, which is skipped as framing)
    # is body, taken from the wire once and handed over once, for every chunking
    rest = b"3\r\nabc\r\n0\r\n\r\n"
    for li, (line, skipped) in enumerate([(b";\n", 0), (b";\r\n", 0), (b"zz\r\n", 0), (b"-5\r\n", 0), (b"g1\r\n", 0), (b"\r\n;\r\n", 2), (b" \t;x\r\n", 0), (b"notachunklength\r\n", 0), (b"ffffffffff\r\n", 0)]):
        qs = b"GET /b HTTP/1.1\r\n" + H + b"\r\n"
        head = b"HTTP/1.1 200 OK\r\nTransfer-Encoding: chunked\r\n\r\n"
        ss = head + line + rest
        exp = [("<", 0, (line + rest)[skipped:], len(line + rest))]
        cfg = {"wf": 0, "n": 1, "cls": "notchunked", "dump": 0}
        whole = [(">", qs), ("<", ss)]
        out.append(Scn("notchunked/l%d.whole" % li, whole, cfg, (), exp))
        for c in range(len(head) - 2, len(ss)):
            out.append(Scn("notchunked/l%d.c%d" % (li, c), [(">", qs), ("<", ss[:c]), ("<", ss[c:])], cfg, (), exp))
        out.append(Scn("notchunked/l%d.byte" % li, streams.recut(whole, "byte"), cfg, (), exp))
        out.append(Scn("notchunked/l%d.rand" % li, streams.recut(whole, "rand", rnd), cfg, (), exp))
    # accounting on arbitrary input (no expectations): corpus and mutants
    out += gens.corpus(ctx.seed, q, modes=("orig", "rand"), nrand=1 if q else 6, mutants=2 if q else 10)
    # ... and stream gaps: the bytes of a gap inside an identity body count as delivered (NULL data with a length)
    out += gens.gaps(ctx.seed, q)
    return out


def run(ctx):
    if ctx.replay:
        return streams.replay(ctx)
    mc = vlib.tlc_or_die(ctx, "FramingMC", "FramingMC.cfg" if ctx.quick else "FramingMC_thorough.cfg", workers=vlib.NCPU, timeout=3000, xmx="12g")
    for inv in mc.violated:
        ctx.violations.append({"clause": "Model:" + inv, "what": mc.out[-1500:], "sites": []})
    scns = scenarios(ctx)
    import drift
    drift.with_steps(scns, every=max(1, -(-len(scns) // (600 if ctx.quick else 6000))))
    exe = vlib.build(ctx, "san", ["rec"])["rec"]
    files = streams.run_rec(ctx, exe, scns, "c06")
    execs, events, viols = streams.judge_obs(ctx, files, PROPS)
    streams.attach_replays(ctx, viols, scns)
    ctx.violations += viols
    acc = drift.check(ctx, files)
    # the framing decision itself: spec/ResFraming.tla (RES_BODY_DETERMINE transcribed), every point of the recorded lattice
    ft, fd, fbad, _ = vlib.pattern_f(ctx, "san", "fn_resfr", [["all", i, 8] for i in range(8)], "ResFramingRows", "ResFramingRows.cfg", xmx="5g")
    for v in fbad:
        r = v.get("row") or {}
        if isinstance(r, dict) and "status" in r:
            v["what"] = "%s: %s %s te=%r cls=%r ct=%r -> state %s rc %s tc %s sp %s smug %s" % (v["clause"], r.get("m"), r.get("status"), [bytes(x) for x in r.get("te", [])], [bytes(x) for x in r.get("cls", [])],
                                                                                              [bytes(x) for x in r.get("ct", [])], r.get("state"), r.get("rc"), r.get("tc"), r.get("sp"), r.get("smug"))
            v["row"] = {k: r[k] for k in ("m", "status", "ver11", "te", "cls", "ct") if k in r}
    ctx.violations += fbad
    vlib.finish(ctx, "model_checking", {
        "model_acceptance": acc, "framing_decision_rows": ft,
        "framing_decision_rule": "method {GET, HEAD} x status {100, 101, 150, 200, 204, 304, 404} x {HTTP/1.0, 1.1} x Transfer-Encoding {none, chunked, CHUNKED, 'gzip, chunked', xchunkedx, identity, chu NUL nked, chunke} x "
                                 "Content-Length {none, 5, 0, abc, '7 ', -1, 12x, 00} x {once, twice, then 9} x Content-Type {none, text/html, Multipart/ByteRanges, 'TEXT/Plain ;q=1', a TAB b}: state after the head, return code, "
                                 "transfer coding, progress, smuggling indicator, content length, media type = spec/ResFraming.tla",
        "states": mc.distinct, "transitions": mc.generated, "traces_validated_against_impl": execs,
        "evaluations": execs, "distinct_nontrivial": len({s.text().split("\n", 1)[1] for s in scns if s.nbytes() > 0}),
        "events_judged": events,
        "model": "Framing.tla: streaming de-chunker (shaped like the CHUNKED_LENGTH / CHUNKED_DATA / CHUNKED_DATA_END states) = reference DeChunk for every wire text over the bounded alphabet and every chunking",
        "rule": "bodies over {a CR LF NUL 0 ; request-line/status-line look-alikes, CRLFCRLF, chunk-size look-alike} (all products of <= 3 atoms sampled + random) x framing in "
                "{Content-Length, chunked: one chunk / 1-byte chunks / extensions+leading zeros+trailer / random sizes+trailer, close-delimited} x direction, followed by a next "
                "message; every cut position from 4 bytes before the body to 4 bytes after it (sampled in quick), 1-byte and random delivery; corpus + mutants for the for-every-input accounting clauses",
        "samples": [scns[0].text()[:500], scns[7].text()[:500]],
    }, assumptions=["expected entity bodies are declared by the scenario (X lines); the recorder compares delivered bytes at the running offset and logs a match bit, TLC judges bits and totals"])
