"""./check setup: offline sanity of the toolchain - parse every TLA+ module with SANY and build every flavour of the library once."""
import glob, os, subprocess, sys, shutil
import vlib


def main():
    ctx = vlib.Ctx("setup", "quick", 0)
    bad = 0
    def sany(f):
        if "Apalache" in open(f).read().split("EXTENDS", 1)[-1].split("\n", 1)[0]:
            # a module for Apalache (its Apalache.tla lives inside the Apalache distribution): type-checked by apalache-mc itself
            if not shutil.which("apalache-mc"):
                return f, False, "apalache-mc not installed: module skipped"
            p = subprocess.run(["timeout", "300", "apalache-mc", "typecheck", "--out-dir=" + ctx.path("apalache_tc"), f], capture_output=True, text=True, cwd=ctx.work)
            return f, "EXITCODE: OK" not in p.stdout, p.stdout[-600:]
        p = subprocess.run(["java", "-cp", vlib.TLA_CP, "tla2sany.SANY", os.path.basename(f)], cwd=vlib.SPEC, capture_output=True, text=True)
        return f, ("Semantic errors" in p.stdout or "error" in p.stdout.lower() and "Parsing or semantic" in p.stdout or p.returncode != 0), p.stdout[-600:]
    for f, err, out in vlib.pmap(sany, sorted(glob.glob(os.path.join(vlib.SPEC, "*.tla")))):
        if err:
            bad += 1
            print("SANY failed:", f, out)
    for fl in ("san", "plain", "alloc", "tsan", "cov"):
        try:
            vlib.build(ctx, fl, [])
        except vlib.Infra as e:
            print("build failed:", fl, e); bad += 1
    print("setup:", "ok" if not bad else "%d problem(s)" % bad)
    return 0 if not bad else 3
