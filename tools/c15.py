"""C15 - urlencoded parameters equal the reference split/decoding for any chunking.
Specification: spec/UrlEncoded.tla (RefPairs + streaming model).  Binding: pattern F (rows from the real parser)."""
import json, vlib


def run(ctx):
    # (1) the specification itself: streaming model = reference for every input and EVERY chunking
    mc = vlib.tlc_or_die(ctx, "UrlEncodedMC", "UrlEncodedMC.cfg" if ctx.quick else "UrlEncodedMC_thorough.cfg", workers=vlib.NCPU,
                         timeout=3000, xmx="16g", coverage=True)
    for inv in mc.violated:
        ctx.violations.append({"clause": "Model:" + inv, "what": "the streaming model disagrees with RefPairs: " + mc.out[-1500:], "sites": []})
    # (2) the implementation: every string <= L over {a = & % + 1 NUL}, every single cut, 6 configs, 3 routes
    L = 5 if ctx.quick else 6
    nsh = vlib.NCPU
    shards = [["exh", L, i, nsh] for i in range(nsh)] + [["rand", ctx.seed * 100 + i, 1500 if ctx.quick else 20000] for i in range(4)]
    # the decoder's further options: 48 configurations (3 modes x plus x %u decoding x encoded-NUL x raw-NUL termination)
    # over every sequence of <= A atoms out of 16 (valid / overlong / best-fit / unmapped / NUL / invalid / short %u forms, ...)
    A = 2 if ctx.quick else 3
    shards += [["dec", A, i, 8] for i in range(8)]
    # inputs that cross the library's container sizes (more than 32 pairs, fields arriving in more than 16 pieces): whole, bytewise, 3 and 17 bytes per call
    shards += [["long"]]
    total, distinct, bad, files = vlib.pattern_f(ctx, "san", "fn_urlenc", shards, "UrlEncodedRows", "UrlEncodedRows.cfg")
    ctx.violations += bad
    expected = sum(7 ** n for n in range(L + 1)) * 6 + sum(16 ** n for n in range(1, A + 1)) * 48
    vac = None
    if distinct < expected:
        vac = "recorded %d distinct rows, the declared space has at least %d" % (distinct, expected)
    samples = [json.loads(l) for l in open(files[0]).read().splitlines()[1000:1003]]
    cuts = 0
    for f in files:
        for l in open(f):
            cuts += l.count("]]]") + l.count("[]")  # rough; exact count below
    evals = 0
    for f in files:
        for l in open(f):
            evals += len(json.loads(l)["outs"])
    vlib.finish(ctx, "model_checking", {
        "states": mc.distinct, "transitions": mc.generated,
        "traces_validated_against_impl": evals,
        "evaluations": evals, "distinct_nontrivial": distinct,
        "rule": "rows = (input, invalid-%% mode, plus setting, route) with one recorded result per single cut; exhaustive over "
                "strings of length <= %d over {a = & %% + 1 NUL} (route direct; body/query for length <= %d) plus seeded random "
                "inputs over all bytes with 1-byte and random multi-cut chunkings; plus rows kind=dec: 'k=' + every sequence of <= %d atoms out of 16 "
                "percent/%%u/NUL forms under all 48 decoder configurations (mode x plus x u_encoding_decode x nul_encoded_terminates x "
                "nul_raw_terminates), whole and two cut sets; plus rows kind=long: six inputs that cross the container sizes (40 pairs, 60-byte fields, 35 empty pieces, 34 empty names, 34 names without value) delivered whole / bytewise / by 3 / by 17; distinct = distinct (in,mode,plus,via) as counted by TLC" % (L, L - 1, A),
        "samples": samples, "exhaustive": True,
        "exhaustive_space": "all strings <= %d over 7 symbols x every single cut x 3 modes x 2 plus settings (direct route)" % L,
        "model": "UrlEncoded.tla: streaming model vs RefPairs, every chunking, MaxLen %d" % (4 if ctx.quick else 6),
    }, assumptions=["TLC evaluates RefPairs correctly", "rows are what the recorder observed (fn_urlenc.c prints the parser's own tables)"], vacuous=vac)
