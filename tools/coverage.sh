#!/bin/bash
# coverage.sh [checks...]: line coverage of libhtp's sources under the inputs of the quick checks (gcc --coverage build of the same
# recorders).  Informational: shows which parts of the library no check reaches.  Output: /tmp/vcov/summary.txt and *.gcov files.
set -u
G=/tmp/vcov; rm -rf $G; mkdir -p $G
checks=${@:-C01 C02 C03 C04 C05 C06 C07 C09 C10 C11 C12 C13 C14 C15 C16 C17 C18}
for c in $checks; do
  VERIF_GCOV=$G VERIF_OUTDIR=$G/out timeout 3600 /verif/check $c quick > $G/$c.log 2>&1; echo "$c exit=$? $(tail -1 $G/$c.log | cut -c1-80)"
done
cd $G/gcov/lib && for f in *.gcda lzma/*.gcda; do gcov -o $(dirname $f) $f > /dev/null 2>&1; done
for f in *.c.gcov; do
  tot=$(grep -vc "^ *-:" $f); miss=$(grep -c "^ *#####:" $f); echo "$f lines=$tot missed=$miss"
done | sort -t= -k3 -n -r > $G/summary.txt
cat $G/summary.txt
