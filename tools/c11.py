"""C11 - framing and host ambiguities are always flagged (anti-smuggling indicators).
Specification: spec/FramingFlags.tla (feature lattice, Required, Coding, Quiet); TLC enumerates the complete lattice (FramingFlagsGen, which also checks lattice sanity),
python renders each vector in several spellings (field order, letter case, optional whitespace incl. tab and space before the colon, value formatting, padding past the
repetition cap) and schedules; TLC judges flags and transfer coding of every execution (FramingFlagsJudge)."""
import json, os, random, re, sys
import streams, vlib, wire
from streams import Scn


def case(name, style, rnd):
    if style == 0: return name
    if style == 1: return name.upper()
    if style == 2: return name.lower()
    return b"".join(bytes([c]).upper() if rnd.random() < .5 else bytes([c]).lower() for c in name)


def field(name, value, sp, rnd):
    n = case(name, sp["case"], rnd)
    sep = {0: b": ", 1: b":", 2: b":\t", 3: b" : ", 4: b":  "}[sp["sep"]]
    tail = {0: b"", 1: b" ", 2: b"\t"}[sp["tail"]]
    return n + sep + value + tail + b"\r\n"


def render(v, sp, rnd):
    """-> request bytes for feature vector v under spelling sp"""
    body = b"hello"
    fields = []
    te = v["te"]
    if te == "chunked": fields.append(("te", field(b"Transfer-Encoding", b"chunked", sp, rnd)))
    elif te == "CHUNKED": fields.append(("te", field(b"Transfer-Encoding", b"ChUnKeD", sp, rnd)))
    elif te == "gzip_chunked": fields.append(("te", field(b"Transfer-Encoding", rnd.choice((b"gzip, chunked", b"gzip,chunked", b"gzip ,  chunked")), sp, rnd)))
    elif te == "rep":
        fields.append(("te", field(b"Transfer-Encoding", b"gzip", sp, rnd))); fields.append(("te2", field(b"Transfer-Encoding", b"chunked", sp, rnd)))
    elif te == "identity": fields.append(("te", field(b"Transfer-Encoding", b"identity", sp, rnd)))
    elif te == "junk": fields.append(("te", field(b"Transfer-Encoding", b"chunk ed;q=1", sp, rnd)))
    cl = v["cl"]
    if cl == "valid": fields.append(("cl", field(b"Content-Length", b"5", sp, rnd)))
    elif cl == "two_equal":
        fields.append(("cl", field(b"Content-Length", b"5", sp, rnd))); fields.append(("cl2", field(b"Content-Length", b"5", sp, rnd)))
    elif cl == "two_diff":
        fields.append(("cl", field(b"Content-Length", b"5", sp, rnd))); fields.append(("cl2", field(b"Content-Length", b"6", sp, rnd)))
    elif cl == "folded": fields.append(("cl", case(b"Content-Length", sp["case"], rnd) + b":\r\n 5\r\n"))
    elif cl == "unparse": fields.append(("cl", field(b"Content-Length", b"abc", sp, rnd)))
    elif cl == "empty": fields.append(("cl", case(b"Content-Length", sp["case"], rnd) + b":\r\n"))
    host = v["host"]
    uri_has = v["uri"] != "origin"
    hv = {"equal": b"www.example.com:8080" if uri_has else b"www.example.com", "diff": b"other.example.org", "diffport": b"www.example.com:81",
          "invalid": b"www.exa mple.com:x", "empty": b""}.get(host)
    if host == "equal" and uri_has and sp["hostcase"]:
        hv = b"WWW.Example.COM:8080"
    if hv is not None:
        fields.append(("host", field(b"Host", hv, sp, rnd) if host != "empty" else case(b"Host", sp["case"], rnd) + b":\r\n"))
    other = [("x1", field(b"Accept", b"*/*", sp, rnd)), ("x2", field(b"User-Agent", b"t", sp, rnd))]
    allf = fields + other
    order = sp["order"]
    if order == 1: allf = allf[::-1]
    elif order == 2: rnd.shuffle(allf)
    # keep the relative order of repeated fields (first / second occurrence) stable: value semantics do not depend on it here
    target = {"origin": b"/index.html?x=1", "abs": b"http://www.example.com:8080/index.html", "abs_invalid": b"http://www.exa[mple.com/index.html"}[v["uri"]]
    pad = b"".join(b"X-Pad: %d\r\n" % i for i in range(70)) if v["pad"] else b""
    head = b"POST " + target + b" HTTP/" + v["ver"].encode() + b"\r\n" + pad + b"".join(f for _, f in allf) + b"\r\n"
    if te in ("chunked", "CHUNKED", "gzip_chunked", "rep"):
        wire_body = b"5\r\nhello\r\n0\r\n\r\n"
    elif cl in ("valid", "two_equal", "two_diff", "folded"):
        wire_body = body
    else:
        wire_body = b""
    return head + wire_body


def run(ctx):
    q = ctx.quick
    rnd = random.Random(ctx.seed)
    gen = vlib.tlc_or_die(ctx, "FramingFlagsGen", "FramingFlagsGen.cfg", workers=1, timeout=1200, xmx="4g")
    for inv in gen.violated:
        ctx.violations.append({"clause": "Model:" + inv, "what": gen.out[-800:], "sites": []})
    vecs = []
    for ln in gen.printed:
        if ln.startswith('<<"VEC", "'):
            vecs.append(json.loads(wire.unescape_tla(ln[len('<<"VEC", "'):-3])))
    scns, meta = [], []
    nsp = 3 if q else 10
    for vi, v in enumerate(vecs):
        for k in range(nsp):
            sp = {"case": rnd.randrange(4), "sep": rnd.randrange(5), "tail": rnd.randrange(3), "order": rnd.randrange(3), "hostcase": rnd.randrange(2)}
            if k == 0:
                sp = {"case": 0, "sep": 0, "tail": 0, "order": 0, "hostcase": 0}
            req = render(v, sp, rnd)
            res = b"HTTP/1.1 200 OK\r\nContent-Length: 0\r\n\r\n"
            for sched in (("whole", "byte") if k % 2 == 0 else ("whole", "rand")):
                arr = streams.recut([(">", req), ("<", res)], "orig" if sched == "whole" else sched, rnd)
                name = "fl/v%d.s%d.%s" % (vi, k, sched)
                scns.append(Scn(name, arr, {"dump": 1, "cls": "flags"}))
                meta.append({"v": v, "sp": k, "sched": sched})
    exe = vlib.build(ctx, "san", ["rec"])["rec"]
    files = streams.run_rec(ctx, exe, scns, "c11")
    by = {s.name: m for s, m in zip(scns, meta)}
    rows = []
    for f in files:
        run = None
        for ln in open(f):
            if ln.startswith('{"e":"Reset"'):
                run = json.loads(ln)["run"]
            elif ln.startswith('{"e":"Final"'):
                fin = json.loads(ln); m = by.get(run)
                if m and fin["txs"] and not fin["txs"][0]["dead"]:
                    t = fin["txs"][0]
                    rows.append({"v": m["v"], "sp": m["sp"], "sched": m["sched"], "run": run, "flags": t["flags"], "tc": t["req_tc"]})
    shards = vlib.chunks(rows, vlib.NCPU)
    rfiles = []
    for i, sh in enumerate(shards):
        f = ctx.path("frows_%d.ndjson" % i)
        open(f, "w").write("".join(json.dumps(r) + "\n" for r in sh))
        rfiles.append(f)

    def one(f):
        return vlib.run_tlc(ctx, "FramingFlagsJudge", "FramingFlagsJudge.cfg", env={"ROWS": f}, workers=1, timeout=2000, xmx="4g", cont=True, name="fj_" + os.path.basename(f))
    total = distinct = 0
    byname = {s.name: s for s in scns}
    for f, r in zip(rfiles, vlib.pmap(one, rfiles)):
        if r.error:
            sys.stdout.write(r.out[-3000:]); raise vlib.Infra("FramingFlagsJudge failed: %s" % r.error)
        for ln in r.printed:
            m = re.match(r'<<"CENSUS", (\d+), (\d+)>>', ln)
            if m:
                total += int(m.group(1)); distinct += int(m.group(2))
        lines = None
        for inv, k in re.findall(r"Invariant (\w+) is violated by the initial state:\s*\n(?:/\\ )?k = (\d+)", r.out):
            if lines is None:
                lines = open(f).read().splitlines()
            row = json.loads(lines[int(k) - 1])
            ctx.violations.append({"clause": inv, "what": "%s: vector %s spelling %s/%s flags %s tc %s" % (inv, row["v"], row["sp"], row["sched"], row["flags"], row["tc"]), "sites": [],
                                   "cls": "folded-content-length" if inv == "FoldedClOK" else "", "run": row["run"], "scenario": byname[row["run"]].text() if row["run"] in byname else ""})
    # the Host header in depth: spec/HostPort.tla (host name, numeric port, HTP_HOSTH_INVALID), rows from real requests
    hmc = vlib.tlc_or_die(ctx, "HostPortMC", "HostPortMC.cfg", workers=vlib.NCPU, timeout=1800, xmx="8g")
    for inv in hmc.violated:
        ctx.violations.append({"clause": "Model:" + inv, "what": "HostPort reference violates its own sanity property: " + hmc.out[-1200:], "sites": []})
    ncpu = vlib.NCPU
    ha = 3 if q else 4
    hshards = [["exh", ha, i, ncpu] for i in range(ncpu)] + [["rand", ctx.seed * 19 + i, 1500 if q else 30000] for i in range(4)] + [["ports"]]
    ht, hd, hbad, _ = vlib.pattern_f(ctx, "san", "fn_host", hshards, "HostPortRows", "HostPortRows.cfg", xmx="5g")
    for v in hbad:
        r = v.get("row") or {}
        if isinstance(r, dict) and "hv" in r:
            v["what"] = "%s: Host value %r -> host %r port %s HOSTH_INVALID %s" % (v["clause"], bytes(r["hv"]), r.get("host"), r.get("portn"), r.get("hosth_invalid"))
    ctx.violations += hbad
    total += ht; distinct += hd
    vac = None if len(vecs) == 7 * 7 * 2 * 6 * 3 * 2 and total >= len(scns) * 0.98 else "lattice size %d, %d of %d executions judged" % (len(vecs), total, len(scns))
    vlib.finish(ctx, "model_checking", {
        "states": gen.distinct, "transitions": max(gen.generated, 1), "traces_validated_against_impl": total,
        "evaluations": total, "distinct_nontrivial": distinct,
        "rule": "the complete feature lattice (7 T-E x 7 C-L x 2 versions x 6 Host x 3 target forms x padding past the repetition cap = %d vectors) x %d spellings each (field order, letter case, "
                "separator ': ' / ':' / ':TAB' / ' : ' / ':  ', trailing space or tab, value formatting, host case) x {whole, one byte per call | random cuts}" % (len(vecs), nsp),
        "host_rows": ht, "host_rule": "every Host value built from <= %d atoms of 19 (labels, dots, dash, underscore, colon, ports 80 65535 65536 0 080, SP TAB, [::1] [ ] x! @) + random values with labels around 63 bytes: "
                                      "reported host name, numeric port and HTP_HOSTH_INVALID = spec/HostPort.tla" % ha,
        "samples": [vecs[5], scns[7].text()[:400]], "exhaustive": True, "exhaustive_space": "all feature vectors of FramingFlags!Vectors",
    }, assumptions=["flags and request_transfer_coding are read from the transaction after close", "E.2 reading: repeated / folded / unparseable C-L triggers are required only when no Transfer-Encoding field is present (otherwise the T-E rules decide)"], vacuous=vac)
