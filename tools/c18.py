"""C18 - allocation failure anywhere is survived without memory unsafety.
Specification: the fault model of DESIGN.md 3.5 (one AllocFail per execution, in any allocating function; afterwards the API contract of
HtpObs (C09 clauses), every call returns, teardown leaves no live allocation) judged by TLC on traces; enumeration: for every input of a corpus
that reaches every subsystem and EVERY k up to the number of allocations of its fault-free run, the k-th allocation fails
(allocator renamed inside libhtp translation units, no source change) under ASan+UBSan."""
import json, os, random, re, subprocess
import streams, gens, vlib
from streams import Scn, R, A

PROPS = ["C01", "C09"]


def inputs(ctx):
    H = [(b"Host", b"h.example")]
    mp = (b"--BB\r\nContent-Disposition: form-data; name=\"f1\"\r\n\r\nv1\r\n--BB\r\nContent-Disposition: form-data; name=\"f2\"\r\n\r\nv2 longer value\r\n"
          b"--BB\r\nContent-Disposition: form-data; name=\"file\"; filename=\"a.txt\"\r\n"
          b"Content-Type: text/plain\r\n\r\nfile data\r\n--BB--\r\n")
    import gzip, zlib
    gz = gzip.compress(b"hello compressed world " * 20)
    L = []
    L.append(("post_urlenc", R(b"POST", b"/p?x=1&y=%41", H + [(b"Content-Type", b"application/x-www-form-urlencoded"), (b"Cookie", b"a=b; c=d"), (b"Authorization", b"Basic dXNlcjpwYXNz")], body=b"a=1&b=2"),
              A(200, hdrs=[(b"Server", b"x")], body=b"ok"), {}))
    L.append(("multipart", R(b"POST", b"/m", H + [(b"Content-Type", b"multipart/form-data; boundary=BB")], body=mp), A(200, body=b""), {}))
    L.append(("gzip_chunked", R(b"GET", b"http://user:pw@h.example:8080/a/../b?q#f", H), A(200, hdrs=[(b"Content-Encoding", b"gzip")], chunked=[gz[:30], gz[30:]]), {}))
    L.append(("pipeline_autod", R(b"GET", b"/1", H) + R(b"PUT", b"/2", H, chunked=[b"abc"]) + R(b"HEAD", b"/3", H), A(200, body=b"1") + A(204, b"No") + A(200, hdrs=[(b"Content-Length", b"5")]), {"autod": 1, "freed": 1}))
    L.append(("connect_404", R(b"CONNECT", b"a.example:443", [(b"Host", b"a.example:443")]) + R(b"GET", b"/r1", H), A(404, b"No", body=b"x") + A(200, body=b"y"), {}))
    L.append(("expect_100_digest", R(b"PUT", b"/e", H + [(b"Expect", b"100-continue"), (b"Authorization", b'Digest username="u", realm="r"')], body=b"0123456789"),
              b"HTTP/1.1 100 Continue\r\n\r\n" + A(201, b"Created", body=b""), {}))
    L.append(("invalid_logs", b"GET /%zz%00/../x HTTP/1.1\r\nHost: a\r\nHost: b\r\nContent-Length: x\r\nBroken header\r\n folded\r\n\r\n", b"HTTP/1.1 abc\r\nX\r\n\r\nbody", {"loglevel": 6}))
    # a failed stream that keeps being fed logs one error-level message per call: the message list grows (9th, 17th message) while
    # last_error is updated; and 8 warnings followed by an error-level message
    L.append(("errors_after_error", b"GET / HTTP/1.1\r\nX: " + b"a" * 300 + b"".join(b"|more%d" % i for i in range(20)), b"", {"hard": 100, "soft": 50, "mode": "raw", "loglevel": 6, "sep": 1}))
    L.append(("warnings_then_error", b"".join(R(b"GET", b"/%d" % i, H + [(b"Broken-no-colon", b"")]).replace(b"Broken-no-colon: ", b"Broken no colon") for i in range(8))
              + b"POST /x HTTP/1.1\r\nHost: h\r\nTransfer-Encoding: chunked\r\n\r\nxyz\r\n",
              b"".join(A(200, body=b"") for i in range(8)), {"loglevel": 6}))
    L.append(("http09_junk", b"GET /old\r\njunk after\r\n", b"plain old body", {}))
    # inputs that make the library's containers GROW past their initial sizes (multipart parts list 64, header / parameter / cookie tables 32,
    # transaction list 16, hook and message lists): the failing allocation is then a realloc of a container that already holds live entries
    many_parts = b"".join(b"--BB\r\nContent-Disposition: form-data; name=\"f%d\"\r\n\r\nv%d\r\n" % (i, i) for i in range(70)) + b"--BB--\r\n"
    L.append(("grow_multipart_parts", R(b"POST", b"/m", H + [(b"Content-Type", b"multipart/form-data; boundary=BB")], body=many_parts), A(200, body=b""), {"wholeonly": 1}))
    L.append(("grow_headers_params", R(b"GET", b"/g?" + b"&".join(b"p%d=%d" % (i, i) for i in range(40)), H + [(b"X-H%d" % i, b"v") for i in range(40)] + [(b"Cookie", b"; ".join(b"c%d=%d" % (i, i) for i in range(40)))]),
              A(200, hdrs=[(b"X-R%d" % i, b"w") for i in range(40)], body=b"ok"), {"wholeonly": 1}))
    L.append(("grow_transactions", b"".join(R(b"GET", b"/t%d" % i, H) for i in range(20)), b"".join(A(200, body=b"%d" % i) for i in range(20)), {"wholeonly": 1}))
    if not ctx.quick:
        for f in ("06-uri-normal", "17-multipart-1", "41-auth-digest", "60-request-cookies", "94-compressed-response-multiple", "99-expect-100", "25-small-chunks"):
            arr = streams.parse_t(os.path.join(streams.CORPUS, f + ".t"))
            q, s = streams.streams_of(arr)
            L.append(("corpus_" + f, q, s, {}))
    return L


def run(ctx):
    if ctx.replay:
        return streams.replay(ctx, "alloc")
    exe = vlib.build(ctx, "alloc", ["rec"])["rec"]
    base = []
    for name, q, s, cfg in inputs(ctx):
        for mode in (("whole", "byte") if ctx.quick else ("whole", "half", "byte")):
            cfg = dict(cfg)
            if cfg.pop("wholeonly", 0) and mode != "whole":
                continue
            if cfg.pop("sep", 0):
                arr = [(">", p) for p in q.split(b"|")]
                if mode != "whole":
                    continue
            else:
                arr = streams.recut([(">", q), ("<", s)], "orig" if mode == "whole" else mode)
            base.append(Scn("af/%s.%s" % (name, mode), arr, dict(cfg, cls="fault", dump=1)))
    # fault-free runs: number of allocations of each input
    f0 = streams.run_rec(ctx, exe, base, "c18base", nshards=4)
    counts = {}
    for f in f0:
        run = None
        for ln in open(f):
            if ln.startswith('{"e":"Reset"'):
                run = json.loads(ln)["run"]
            elif ln.startswith('{"e":"End"'):
                counts[run] = json.loads(ln)["allocs"]
    scns = []
    for b in base:
        n = counts.get(b.name, 0)
        ks = list(range(1, n + 1))
        if b.name.endswith(".byte") and ctx.quick:
            ks = ks[::3]                    # the whole-delivery variant is exhaustive in k; 1-byte delivery is sampled in the quick tier
        for k in ks:
            scns.append(Scn("%s.k%d" % (b.name, k), b.arr, dict(b.cfg, failat=k), b.beh, (), b.close))
    files = streams.run_rec(ctx, exe, scns, "c18")
    execs, events, viols = streams.judge_obs(ctx, files + f0, PROPS)
    streams.attach_replays(ctx, viols, scns)
    for v in viols:
        v["clause"] = "C18:" + v["clause"].split(":", 1)[1]
        fs = [s for s in v["sites"] if s.startswith("fault:")]
        if v["clause"] == "C18:NoSanitizerReport":
            # key: kind of report + innermost libhtp frames, plus the function whose allocation failed
            v["sites"] = fs + [re.sub(r"^ERROR: AddressSanitizer: ", "", str(v.get("detail", "")))]
        else:
            v["sites"] = fs
    ctx.violations += viols
    vlib.finish(ctx, "fault_enumeration", {
        "evaluations": execs, "distinct_nontrivial": len(scns), "events_judged": events, "traces_validated_against_impl": execs,
        "allocation_counts": counts,
        "rule": "for each of %d inputs (urlencoded POST with cookies+basic auth, multipart with file, gzip chunked response with absolute URI, pipelined requests with auto-destroy, refused CONNECT, "
                "Expect/100 with digest auth, invalid input with logging, HTTP/0.9, three container-growth inputs: 70 multipart parts, 40 headers / parameters / cookies, 20 pipelined transactions%s) delivered whole and bytewise: fail allocation k for every k in 1..(allocations of the fault-free run) "
                "[1-byte delivery: every 3rd k in the quick tier]; each faulted execution is one case, all are distinct (input, delivery, k)" % (len(inputs(ctx)), "" if ctx.quick else ", 7 corpus captures"),
        "samples": [scns[0].text()[:400], scns[len(scns) // 2].text()[:400]],
        "exhaustive": True, "exhaustive_space": "k in 1..N for every (input, whole delivery); N = allocation count of the fault-free run",
        "trusted_base": ["ASan+UBSan", "harness/vf_alloc.[ch] renames malloc/calloc/realloc/strdup/free inside libhtp translation units (zlib's own allocations are not failed)"],
    }, assumptions=["exactly one allocation fails per execution", "allocations made by zlib / LZMA internals through their own allocator hooks are failed only where libhtp passes its allocator (LZMA)"])
