"""C13 - URI splitting partitions the request target without inventing bytes.
Specification: spec/UriSplit.tla (Split, Rejoin, PortNumber); meta-properties checked by TLC (UriSplitMC); binding: pattern F (UriSplitRows)."""
import json, vlib


def run(ctx):
    mc = vlib.tlc_or_die(ctx, "UriSplitMC", "UriSplitMC.cfg" if ctx.quick else "UriSplitMC_thorough.cfg", workers=vlib.NCPU, timeout=3000, xmx="12g")
    for inv in mc.violated:
        ctx.violations.append({"clause": "Model:" + inv, "what": "the reference split violates its own meta-property: " + mc.out[-1200:], "sites": []})
    L = 4 if ctx.quick else 5
    nsh = vlib.NCPU * (2 if ctx.quick else 12)
    shards = [["exh", L, i, nsh] for i in range(nsh)] + [["rand", ctx.seed * 10 + i, 3000 if ctx.quick else 40000] for i in range(4)] + [["ports"]]
    total, distinct, bad, files = vlib.pattern_f(ctx, "san", "fn_uri", shards, "UriSplitRows", "UriSplitRows.cfg")
    ctx.violations += bad
    expected = 9 * sum(12 ** n for n in range(L + 1))
    vac = None if distinct >= expected else "recorded %d distinct rows, the declared space has %d targets" % (distinct, expected)
    samples = [json.loads(l) for l in open(files[1]).read().splitlines()[500:503]]
    vlib.finish(ctx, "model_checking", {
        "states": mc.distinct, "transitions": max(mc.generated, 1), "traces_validated_against_impl": total,
        "evaluations": total, "distinct_nontrivial": distinct,
        "rule": "targets = 9 prefix families {'', a, a:, a:/, a://, a://a@, a://[, //, /} x every string of length <= %d over {a : / @ ? # [ ] . 0 9 SP} through htp_parse_uri and, "
                "when the request line can carry it, a real request (parsed_uri_raw + numeric port), plus seeded random compositions incl. arbitrary bytes, plus 42 port texts (boundaries of 1..65535, leading zeros, signs / junk, digit strings equal to p + k * 2^16 / 2^31 / 2^32 / 2^63 / 2^64) in 5 target frames; distinct = distinct (target, route) counted by TLC" % L,
        "samples": samples, "exhaustive": True,
        "exhaustive_space": "9 prefix families x all suffixes of length <= %d over 12 symbols (direct route)" % L,
        "model": "UriSplitMC: Rejoin(Split(t)) = RTrim(t), SlashMeansNoAuthority, PortRange for the families with suffix length <= %d" % (3 if ctx.quick else 4),
    }, assumptions=["rows are what the recorder read from htp_uri_t (harness/fn_uri.c)"], vacuous=vac)
