"""C10 - configured limits bound what the parser keeps.
Specification: spec/HtpObs.tla clauses C10:* (BufferedWithinHard, HeaderCaps, TxCount, OverLimitIsError, NotSilentlyTruncated, SteadyState),
Inv_TxBound / C10:TxCount model-checked on HtpParser.tla; binding: pump scenarios (unterminated / folded / repeated lines around the limits),
max_tx pipelines and a long auto-destroy run under the counting allocator, all judged by TLC."""
import random
import streams, gens, vlib
from streams import Scn, R, A

PROPS = ["C10"]


def pumps(ctx):
    q = ctx.quick
    out = []
    lattice = [(20, 40), (50, 100), (100, 101)] + ([] if q else [(9000, 18000), (1, 2), (500, 1000)])
    H = b"Host: h\r\n"
    # (name, dir, prefix of the pumped direction, other direction's bytes delivered first)
    sites = [
        ("req_line", 0, b"", b""),
        ("req_header", 0, b"GET / HTTP/1.1\r\n" + H, b""),
        ("req_folded", 0, b"GET / HTTP/1.1\r\nX-A: a\r\n", b""),
        ("req_chunklen", 0, b"POST / HTTP/1.1\r\n" + H + b"Transfer-Encoding: chunked\r\n\r\n", b""),
        ("req_trailer", 0, b"POST / HTTP/1.1\r\n" + H + b"Transfer-Encoding: chunked\r\n\r\n1\r\na\r\n0\r\n", b""),
        ("res_line", 1, b"", b"GET / HTTP/1.1\r\n" + H + b"\r\n"),
        ("res_header", 1, b"HTTP/1.1 200 OK\r\n", b"GET / HTTP/1.1\r\n" + H + b"\r\n"),
        ("res_chunklen", 1, b"HTTP/1.1 200 OK\r\nTransfer-Encoding: chunked\r\n\r\n", b"GET / HTTP/1.1\r\n" + H + b"\r\n"),
    ]
    for soft, hard in lattice:
        # a header assembled from folded lines that each arrive whole (no buffering, so no limit check) to more than the hard limit,
        # followed by an unterminated line: the pending header counts towards what is retained
        fl = b"".join(b" " + b"f" * max(1, (hard * 2) // 3) + b"\r\n" for _ in range(3))
        fsites = [("req_afterfold", 0, b"GET / HTTP/1.1\r\n" + H + b"X-F: s\r\n" + fl, b""),
                  ("res_afterfold", 1, b"HTTP/1.1 200 OK\r\nX-F: s\r\n" + fl, b"GET / HTTP/1.1\r\n" + H + b"\r\n")]
        for name, d, prefix, other in sites + fsites:
            unit = {"req_line": b"G", "res_line": b"H", "req_folded": b" ", "req_chunklen": b"1", "res_chunklen": b"1"}.get(name, b"X")
            lead = b" f" if name == "req_folded" else b""
            for L in sorted({hard - 1, hard, hard + 1, hard + 7, 2 * hard + 3, max(1, hard // 2)}):
                for c in sorted({1, 7, hard - 1, hard, hard + 1, L}):
                    if c < 1 or (c == 1 and L > 3000):
                        continue
                    line = (lead + unit * L)[:L]
                    arr = []
                    if other:
                        arr.append((">" if d == 1 else "<", other))
                    dd = "<" if d == 1 else ">"
                    if prefix:
                        arr.append((dd, prefix))
                    arr += [(dd, line[i:i + c]) for i in range(0, L, c)]
                    out.append(Scn("pump/%s.h%d.L%d.c%d" % (name, hard, L, c), arr,
                                   {"soft": soft, "hard": hard, "pumpdir": d, "pumpstart": len(prefix), "cls": "pump"}))
    return out


def caps(ctx):
    out = []
    fold = b"GET / HTTP/1.1\r\nHost: h\r\nX-F: start\r\n" + b"".join(b" " + b"f" * 1000 + b"\r\n" for _ in range(130)) + b"\r\n"
    rep = b"GET / HTTP/1.1\r\nHost: h\r\n" + b"X-R: v\r\n" * 200 + b"\r\n"
    rfold = b"HTTP/1.1 200 OK\r\nX-F: start\r\n" + b"".join(b"\t" + b"f" * 1000 + b"\r\n" for _ in range(130)) + b"Content-Length: 0\r\n\r\n"
    rrep = b"HTTP/1.1 200 OK\r\n" + b"X-R: v\r\n" * 200 + b"Content-Length: 0\r\n\r\n"
    req = b"GET / HTTP/1.1\r\nHost: h\r\n\r\n"
    for name, qb, sb in (("fold_req", fold, b""), ("rep_req", rep, b""), ("fold_res", req, rfold), ("rep_res", req, rrep)):
        for mode in ("orig", "rand"):
            arr = streams.recut([(">", qb)] + ([("<", sb)] if sb else []), mode, random.Random(ctx.seed))
            out.append(Scn("caps/%s.%s" % (name, mode), arr, {"cls": "caps-fold" if name.startswith("fold") else "caps-rep", "dump": 2}))
    return out


def maxtx(ctx):
    out = []
    req = b"GET /x HTTP/1.1\r\nHost: h\r\n\r\n"
    res = b"HTTP/1.1 200 OK\r\nContent-Length: 1\r\n\r\nz"
    for m in (1, 2, 3, 8):
        for autod in (0, 1):
            out.append(Scn("maxtx/m%d.a%d.pipelined" % (m, autod), [(">", req * (m + 6)), ("<", res * (m + 6))], {"maxtx": m, "autod": autod, "cls": "maxtx"}))
            out.append(Scn("maxtx/m%d.a%d.sequential" % (m, autod), [x for _ in range(m + 6) for x in ((">", req), ("<", res))], {"maxtx": m, "autod": autod, "cls": "maxtx"}))
            out.append(Scn("maxtx/m%d.a%d.resonly" % (m, autod), [("<", res * (m + 6))], {"maxtx": m, "autod": autod, "cls": "maxtx"}))
    return out


def steady(ctx):
    n = 1000 if ctx.quick else 10000
    rnd = random.Random(ctx.seed)
    out = []
    for variant, loglevel in (("logoff", 0), ("logon", 6)):
        arr = []
        for i in range(n):
            k = i % 4
            if k == 0:
                q = R(b"GET", b"/a/b/../c?x=%d&y=2" % i, [(b"Host", b"h"), (b"Cookie", b"a=b; c=d"), (b"Authorization", b"Basic dTpw")])
                s = A(200, hdrs=[(b"Server", b"s")], body=b"hello world")
            elif k == 1:
                q = R(b"POST", b"/p", [(b"Host", b"h"), (b"Content-Type", b"application/x-www-form-urlencoded")], body=b"a=1&b=2&c=%41")
                s = A(200, chunked=[b"abc", b"defg"])
            elif k == 2:
                q = R(b"POST", b"/m", [(b"Host", b"h"), (b"Content-Type", b"multipart/form-data; boundary=XX")],
                      body=b"--XX\r\nContent-Disposition: form-data; name=\"f\"\r\n\r\nvalue\r\n--XX--\r\n")
                s = A(404, b"Not Found", body=b"")
            else:
                q = R(b"GET", b"/bad line here", [(b"Host", b"h"), (b"X-Fold", b"a\r\n b")])
                s = A(204, b"No Content")
            if variant == "logon" and i % 50 == 7:
                q = q.replace(b"Host: h", b"Host: h\r\nContent-Length: x")    # provokes log messages
                s = s
            arr += [(">", q), ("<", s)]
        out.append(Scn("steady/%s" % variant, arr, {"autod": 1, "freed": 1, "loglevel": loglevel, "cls": "steady", "dump": 0, "maxcb": 100000000, "maxsec": 3000}))
        if variant == "logoff":
            # the same exchanges pipelined: d requests, then their d responses (constant depths that do not divide a power of two, and an
            # irregular pattern) - freed transaction slots must be recycled whatever the depth
            pairs = [(arr[2 * i][1], arr[2 * i + 1][1]) for i in range(n)]
            for label, depths in (("pipe3", [3]), ("pipe5", [5]), ("pipeirr", [1, 3, 2, 5, 4, 7, 1, 6])):
                parr, i, k = [], 0, 0
                while i < n:
                    d = depths[k % len(depths)]; k += 1
                    grp = pairs[i:i + d]; i += d
                    parr += [(">", b"".join(x[0] for x in grp)), ("<", b"".join(x[1] for x in grp))]
                out.append(Scn("steady/%s" % label, parr, {"autod": 1, "freed": 1, "loglevel": 0, "cls": "steady", "dump": 0, "maxcb": 100000000, "maxsec": 3000}))
                # ... and with every message in its own call: a finished transaction is disposed of, and its slot recycled (htp_connp_tx_freed
                # after every call), while younger transactions of the same group are still listed and unanswered
                sarr, i, k = [], 0, 0
                while i < n:
                    d = depths[k % len(depths)]; k += 1
                    grp = pairs[i:i + d]; i += d
                    sarr += [(">", x[0]) for x in grp] + [("<", x[1]) for x in grp]
                out.append(Scn("steady/%s.split" % label, sarr, {"autod": 1, "freed": 1, "loglevel": 0, "cls": "steady", "dump": 0, "maxcb": 100000000, "maxsec": 3000}))
    return out


def run(ctx):
    if ctx.replay:
        return streams.replay(ctx, "alloc")
    import modelcheck
    mc = modelcheck.run_parser_model(ctx, PROPS, cbfail_ok=False)
    scns = pumps(ctx) + caps(ctx) + maxtx(ctx) + steady(ctx)
    scns += [s for s in gens.corpus(ctx.seed, ctx.quick, cfgs=({"hard": 60, "soft": 30}, {"maxtx": 1}), modes=("orig", "byte"), nrand=0, mutants=1)]
    import drift
    drift.with_steps(scns, every=max(1, -(-len(scns) // (300 if ctx.quick else 4000))))
    exe = vlib.build(ctx, "alloc", ["rec"])["rec"]
    files = streams.run_rec(ctx, exe, scns, "c10")
    execs, events, viols = streams.judge_obs(ctx, files, PROPS)
    streams.attach_replays(ctx, viols, [s for s in scns if s.nbytes() < 200000])
    ctx.violations += viols
    acc = drift.check(ctx, files)
    vlib.finish(ctx, "model_checking", {
        "model_acceptance": acc,
        "states": mc["distinct"], "transitions": mc["generated"], "traces_validated_against_impl": execs,
        "evaluations": execs, "distinct_nontrivial": len({s.text().split("\n", 1)[1][:4000] for s in scns if s.nbytes() > 0}),
        "events_judged": events, "model": mc["what"],
        "rule": "pump scenarios: an unterminated request line / header / folded header / chunk-size line / trailer / status line / response header / "
                "response chunk-size line of length L around the hard limit delivered in chunks of size c in {1,7,hard-1,hard,hard+1,L} for (soft,hard) in a lattice; "
                "folded and repeated headers past the caps; max_tx pipelines; corpus under tiny limits; and %d pipelined-free exchanges with auto-destroy + "
                "htp_connp_tx_freed under the counting allocator (live heap sampled after every complete transaction)" % (1000 if ctx.quick else 10000),
        "samples": [scns[0].text()[:400], scns[len(scns) // 3].text()[:400]],
    }, assumptions=["in_buf_size / in_header / out_buf_size / out_header are read from the parser after every call (htp_private.h, as the repository's tests do)",
                    "live heap = bytes and objects allocated by libhtp translation units through the renamed allocator (harness/vf_alloc.h)"],
        vacuous=mc.get("vacuous"))
