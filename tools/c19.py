"""C19 - parsers sharing one configuration are independent and race-free.
Specification: spec/MultiTrace.tla (Independent: each parser's projected events = its solo events; ConfigImmutable: the configuration digest logged at
every return never changes; NoSan).  Single thread: every call-level interleaving of 2 parsers x 3 calls (exhaustive) and sampled interleavings of 3-4
parsers; threads: the same streams from one thread each under ThreadSanitizer.  TLC judges every family."""
import gzip, itertools, os, random, re, subprocess, sys, time, zlib
import streams, vlib
from streams import R, A


def stream_pool():
    H = [(b"Host", b"h.example")]
    gz = gzip.compress(b"compressed response body " * 8)
    P = []
    P.append(("get", R(b"GET", b"/a/../b?x=1", H + [(b"Cookie", b"a=b")]), A(200, body=b"plain")))
    P.append(("post_urlenc", R(b"POST", b"/p", H + [(b"Content-Type", b"application/x-www-form-urlencoded")], body=b"a=1&b=%41"), A(404, b"Not Found", body=b"")))
    P.append(("gzip_ok", R(b"GET", b"/gz", H), A(200, hdrs=[(b"Content-Encoding", b"gzip")], body=gz)))
    P.append(("gzip_mislabelled", R(b"GET", b"/bad", H), A(200, hdrs=[(b"Content-Encoding", b"gzip")], body=b"this is plain text, not gzip at all, long enough to be probed")))
    P.append(("deflate_zlib", R(b"GET", b"/z", H), A(200, hdrs=[(b"Content-Encoding", b"deflate")], body=zlib.compress(b"zlib wrapped deflate " * 10))))
    P.append(("multipart", R(b"POST", b"/m", H + [(b"Content-Type", b"multipart/form-data; boundary=BB")],
                             body=b"--BB\r\nContent-Disposition: form-data; name=\"f\"\r\n\r\nv\r\n--BB--\r\n"), A(200, chunked=[b"ab", b"c"])))
    P.append(("invalid", b"GET /%zz HTTP/1.1\r\nHost: a\r\nHost: b\r\nBroken\r\n\r\n", b"HTTP/1.1 abc\r\n\r\nbody"))
    P.append(("pipelined", R(b"GET", b"/1", H) + R(b"GET", b"/2", H), A(200, body=b"1") + A(200, hdrs=[(b"Content-Encoding", b"gzip")], body=gz)))
    P.append(("connect", R(b"CONNECT", b"a:443", [(b"Host", b"a:443")]) + b"\x16\x03\x01tls", A(200) + b"\x16\x03\x03srv"))
    import lzma
    P.append(("lzma", R(b"GET", b"/lz", H), A(200, hdrs=[(b"Content-Encoding", b"lzma")], body=lzma.compress(b"lzma coded response body " * 6, format=lzma.FORMAT_ALONE, preset=1))))
    return P


def interleavings(counts):
    """all sequences over parser ids with counts[i] occurrences of i"""
    items = []
    for i, c in enumerate(counts):
        items += [i] * c
    return sorted(set(itertools.permutations(items)))


def fam_text(name, kline, streams_, schedule=None, threads=False, cut=False):
    out = ["M " + name, "K " + kline]
    for i, (sn, q, s) in enumerate(streams_):
        out.append("P %d" % i)
        if cut:
            out += ["> " + q[:len(q) // 2].hex(), "> " + q[len(q) // 2:].hex()] + ([("< " + s[:len(s) // 2].hex()), ("< " + s[len(s) // 2:].hex())] if len(s) > 1 else ["< " + s.hex()])
        else:
            out += ["> " + q.hex(), "< " + s.hex()]
        out.append("C")
    out.append("T" if threads else "O " + " ".join(str(x) for x in schedule))
    out.append("E")
    return "\n".join(out) + "\n"


def families(ctx):
    q = ctx.quick
    rnd = random.Random(ctx.seed)
    P = stream_pool()
    K = ["dump=1", "dump=1 pers=2 autod=1", "dump=1 decomp=0 urlen=0"]
    fams = []
    il2 = interleavings([3, 3])          # 20 interleavings of 2 parsers x (req, res, close)
    pairs = list(itertools.permutations(range(len(P)), 2))
    rnd.shuffle(pairs)
    # two parsers carrying the SAME kind of traffic (both compressed, both multipart, ...): where state shared through the configuration or a
    # file-scope variable would be hit by both
    same = [(a, a) for a in range(len(P))]
    pairs = same + pairs
    for pi, (a, b) in enumerate(pairs[:24 if q else len(pairs)]):
        for si, sch in enumerate(il2):
            fams.append(fam_text("st2.%s+%s.k%d.s%d" % (P[a][0], P[b][0], pi % len(K), si), K[pi % len(K)], [P[a], P[b]], sch))
    il3 = interleavings([3, 3, 3])
    for t in range(40 if q else 600):
        idx = rnd.sample(range(len(P)), 3)
        fams.append(fam_text("st3.%s.t%d" % ("+".join(P[i][0] for i in idx), t), rnd.choice(K), [P[i] for i in idx], rnd.choice(il3)))
    for t in range(20 if q else 300):            # 4 parsers, split delivery (5 calls each), random interleaving
        idx = rnd.sample(range(len(P)), 4)
        sch = [i for i in range(4) for _ in range(5)]
        rnd.shuffle(sch)
        fams.append(fam_text("st4.%s.t%d" % ("+".join(P[i][0] for i in idx), t), rnd.choice(K), [P[i] for i in idx], sch, cut=True))
    # state carried ACROSS calls: parser A's request (or response) is cut near its end - inside a urlencoded field, a multipart delimiter, a
    # compressed stream, a chunk, a header line - and parser B runs completely between the two pieces
    def custom(name, kline, blocks, schedule):
        out = ["M " + name, "K " + kline]
        for i, lines in enumerate(blocks):
            out.append("P %d" % i); out += lines; out.append("C")
        out.append("O " + " ".join(str(x) for x in schedule)); out.append("E")
        return "\n".join(out) + "\n"
    mids = []
    for a, b in pairs:
        qa, sa = P[a][1], P[a][2]
        for side, data in ((">", qa), ("<", sa)):
            for p in sorted(set([len(data) - k for k in range(1, 13) if len(data) - k > 0] + [len(data) // 3, len(data) // 2])):
                la = ([side + " " + data[:p].hex(), side + " " + data[p:].hex()] + ["< " + sa.hex()]) if side == ">" else (["> " + qa.hex(), "< " + data[:p].hex(), "< " + data[p:].hex()])
                lb = ["> " + P[b][1].hex(), "< " + P[b][2].hex()]
                # A1 [A2 if the cut is in the response] B B B A...   : B complete (request, response, close) between A's two pieces
                sch = ([0] if side == ">" else [0, 0]) + [1, 1, 1] + ([0, 0, 0] if side == ">" else [0, 0])
                mids.append(custom("mid.%s+%s.%s%d" % (P[a][0], P[b][0], "q" if side == ">" else "s", p), K[(a + b + p) % len(K)], [la, lb], sch))
    smids = [m for m in mids if re.match(r"M mid\.(\w+)\+\1\.", m)]
    omids = [m for m in mids if not re.match(r"M mid\.(\w+)\+\1\.", m)]
    rnd.shuffle(omids)
    fams += smids + omids[:1200 if q else len(omids)]
    thr = []
    for t in range(12 if q else 200):
        n = rnd.choice((2, 3, 4, 8))
        idx = [rnd.randrange(len(P)) for _ in range(n)]
        thr.append(fam_text("thr%d.%s.t%d" % (n, "+".join(P[i][0] for i in idx)[:60], t), rnd.choice(K), [P[i] for i in idx], threads=True, cut=True))
    return fams, thr


def run_multi(ctx, exe, fams, tag, env):
    shards = [s for s in vlib.chunks(fams, vlib.NCPU) if s]
    def one(i):
        sf = ctx.path("%s_%d.mscn" % (tag, i)); tf = ctx.path("%s_%d.ndjson" % (tag, i))
        open(sf, "w").write("".join(shards[i]))
        p = subprocess.run(["timeout", "900", exe, sf], stdout=open(tf, "w"), stderr=subprocess.PIPE, env=env, text=True, errors="replace")
        return tf, p.returncode, p.stderr[-3000:]
    return vlib.pmap(one, range(len(shards)))


def judge(ctx, results, viols, kind):
    fams = runs = 0
    def one(x):
        tf = x[0]
        if os.path.getsize(tf) == 0:
            return None
        return vlib.run_tlc(ctx, "MultiTrace", "MultiTrace.cfg", env={"TRACE": tf}, workers=1, timeout=1500, xmx="4g", cont=True, name="multi_" + os.path.basename(tf))
    res = vlib.pmap(one, results)
    for (tf, rc, err), r in zip(results, res):
        if rc != 0:
            m = re.search(r"(WARNING: ThreadSanitizer: [^\n]+|ERROR: AddressSanitizer: [\w-]+|runtime error: [^\n]+)", err)
            fr = [x for x in re.findall(r"#\d+ (\w+) ", err) if not x.startswith("__") and x not in ("main", "runner", "run_scenario", "api_data")][:3]
            viols.append({"clause": "C19:NoSanitizerReport", "what": "%s recorder exit %d: %s @ %s" % (kind, rc, m.group(1) if m else "died", ">".join(fr)), "sites": [], "detail": err[-1500:]})
        if r is None:
            continue
        if r.error:
            sys.stdout.write(r.out[-3000:]); raise vlib.Infra("MultiTrace run failed: %s" % r.error)
        for ln in r.printed:
            m = re.match(r'<<"FAMILIES", (\d+), (\d+)>>', ln)
            if m:
                fams += int(m.group(1)); runs += int(m.group(2))
        for inv, fam in re.findall(r"Invariant (\w+) is violated by the initial state:\s*\n(?:/\\ )?fam = \"([^\"]+)\"", r.out):
            viols.append({"clause": "C19:" + inv.replace("Inv_", ""), "what": "%s family %s" % (kind, fam), "sites": [], "run": fam, "file": tf})
    return fams, runs


def run(ctx):
    fams, thr = families(ctx)
    exe = vlib.build(ctx, "san", ["multi"])["multi"]
    viols = []
    t = time.time()
    r1 = run_multi(ctx, exe, fams, "st", vlib.san_env())
    f1, n1 = judge(ctx, r1, viols, "single-thread")
    ctx.log("single-thread: %d families, %d runs judged in %.1fs" % (f1, n1, time.time() - t))
    exet = vlib.build(ctx, "tsan", ["multi"])["multi"]
    t = time.time()
    r2 = run_multi(ctx, exet, thr * (2 if ctx.quick else 4), "thr", vlib.san_env())
    f2, n2 = judge(ctx, r2, viols, "threads")
    ctx.log("threads (TSan): %d families, %d runs judged in %.1fs" % (f2, n2, time.time() - t))
    by = {}
    for f in fams + thr:
        by[f.split("\n", 1)[0][2:]] = f
    for v in viols:
        if v.get("run") in by:
            v["scenario_multi"] = by[v["run"]]
    ctx.violations += viols
    vlib.finish(ctx, "model_checking", {
        "states": max(f1 + f2, 1), "transitions": max(n1 + n2, 1), "traces_validated_against_impl": n1 + n2,
        "evaluations": n1 + n2, "distinct_nontrivial": len(set(fams)) + len(set(thr)),
        "families_single_thread": f1, "families_threads": f2,
        "rule": "families = N parsers created from one configuration + the same N streams run alone; single thread: ALL 20 call-level interleavings of 2 parsers x (request, response, close) "
                "for sampled ordered pairs of a 9-stream pool (plain, urlencoded, gzip, mislabelled gzip, zlib deflate, multipart, invalid input with logging, pipelined, CONNECT tunnel) under 3 shared "
                "configurations, sampled interleavings of 3 parsers x 3 calls and 4 parsers x 5 calls; threads: 2/3/4/8 parsers each on its own thread under ThreadSanitizer, repeated; 'states' = families judged",
        "samples": [fams[0][:500], thr[0][:300]],
        "exhaustive_space": "all 20 interleavings of 2 parsers x 3 calls for each sampled pair",
        "trusted_base": ["ThreadSanitizer (clang 14) for data races", "ASan/UBSan in the single-thread build"],
    }, assumptions=["the cfg digest covers the bytes of htp_cfg_t and the callback pointers of its hook lists", "thread schedules are whatever the OS produces in repeated runs (exploration, not enumeration)"])
