NOTES = "Model-based verification with explicit TLA+ specifications (spec/*.tla) checked by TLC and bound to the code by recorded rows/traces that TLC judges; see DESIGN.md."
ENGINES = [
 {"name": "check", "path": "check", "serves_properties": [], "kind_free_text": "python3 orchestrator: builds /repo/htp from the working tree, runs the recorders in harness/, runs TLC on spec/*.tla (model checking + judging recorded rows/traces), triages against known_findings.txt, writes evidence"},
]
NA = {}
C("C15", "model_checking",
  "TLC model-checks the streaming model of spec/UrlEncoded.tla against the reference rule RefPairs for every input over {a = & % + 1 NUL} up to a length bound and EVERY chunking; the real parser is then run on every string of that alphabet (length <= 5 quick / 6 thorough) with every single cut, 3 invalid-encoding modes x 2 plus settings, through htp_urlenp_parse_partial, a real POST body and a real query string, plus seeded random inputs over all bytes with multi-cuts, and TLC judges every recorded row against RefPairs.",
  "Exhaustive within the stated alphabet/length bound and single cuts on the implementation side; beyond it seeded sampling. Trusts TLC's evaluation of the reference and that the recorder prints the parser's own result tables.",
  "TLA+ reference + streaming model (TLC exhaustive) and TLC-judged rows recorded from the real parser (pattern F)", "5/C15, 3.4, 4")
