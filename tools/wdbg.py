#!/usr/bin/env python3
"""wdbg.py <replay.json>: development aid - prints expected (from TLC) and observed dump side by side for a failing HtpWire row."""
import json, subprocess, sys, os, re
sys.path.insert(0, os.path.dirname(os.path.abspath(__file__)))
import vlib, wire
r = json.load(open(sys.argv[1]))["first"]
open("/tmp/w.scn", "w").write(r["scenario"])
out = subprocess.run(["/verif/.work/t/san/rec", "/tmp/w.scn"], capture_output=True, text=True).stdout
fin = [json.loads(l) for l in out.splitlines() if l.startswith('{"e":"Final"')][0]
i, n = r["row_i"], r["row_n"]
open("/tmp/wexp.cfg", "w").write("CONSTANTS From = %d  To = %d  MaxN = %d\nINIT Init\nNEXT Next\nINVARIANT EmitExp\nCHECK_DEADLOCK FALSE\n" % (i, i, n))
open("/tmp/HtpWireDbg.tla", "w").write("---- MODULE HtpWireDbg ----\nEXTENDS HtpWireGen\nEmitExp == n = %d => PrintT(<<\"EXP\", ToJson(Expected(Exchange(i, n)))>>)\n====\n" % n)
for f in os.listdir("/verif/spec"):
    if f.endswith(".tla"):
        subprocess.run(["cp", "/verif/spec/" + f, "/tmp/"])
p = subprocess.run(["java", "-cp", vlib.TLA_CP, "tlc2.TLC", "-workers", "1", "-metadir", "/tmp/md_dbg", "-config", "/tmp/wexp.cfg", "HtpWireDbg.tla"], cwd="/tmp", capture_output=True, text=True)
exp = None
for ln in p.stdout.splitlines():
    if ln.startswith('<<"EXP", "'):
        exp = json.loads(wire.unescape_tla(ln[len('<<"EXP", "'):-3]))
if exp is None:
    print(p.stdout[-2000:]); sys.exit(1)
for k, (e, o) in enumerate(zip(exp, fin["txs"])):
    print("== tx", k, r["run"])
    def opt(x): return x[0] if x else None
    pairs = [("method", e["method"], opt(o["method"])), ("uri", e["uri"], opt(o["uri"])), ("protocol", e["protocol"], opt(o["protocol"])),
             ("hostname", opt(e["hostname"]), opt(o["hostname"])), ("port", e["port"], o["port"]), ("npath", opt(e["npath"]), opt(o["parsed_uri"]["path"]) if o["parsed_uri"] else None),
             ("query", opt(e["query"]) if e["query"] else None, opt(o["parsed_uri_raw"]["query"])), ("params", e["qparams"], [[opt(p[0]), opt(p[1])] for p in o["params"]]),
             ("cookies", e["cookies"], [[opt(c[0]), opt(c[1])] for c in o["cookies"]]), ("auth", [opt(e["auth_user"]), opt(e["auth_pass"])], [opt(o["auth_user"]), opt(o["auth_pass"])]),
             ("status", e["status"], opt(o["status"])), ("message", e["message"], opt(o["message"])), ("res_protocol", e["res_protocol"], opt(o["res_protocol"])),
             ("req_headers", [[h["name"], h["value"]] for h in e["req_headers"]], [[opt(h[0]), opt(h[1])] for h in o["req_headers"]]),
             ("res_headers", [[h["name"], h["value"]] for h in e["res_headers"]], [[opt(h[0]), opt(h[1])] for h in o["res_headers"]]),
             ("raw", [opt(e["scheme"]) if e["scheme"] else None, opt(e["user"]) if e["user"] else None, opt(e["uhost"]) if e["uhost"] else None, opt(e["uport"]) if e["uport"] else None, opt(e["path"])],
              [opt(o["parsed_uri_raw"][x]) for x in ("scheme", "username", "hostname", "port", "path")]), ("progress", [5, 5], [o["rp"], o["sp"]]), ("numbers", [e.get("method_number"), e.get("protocol_number"), e.get("res_protocol_number")], [o["method_number"], o["protocol_number"], o["res_protocol_number"]]),
             ("qbody", e["req_body"], o["qbody"]), ("sbody", [e["res_body"], e["res_coding"]], [o["sbody"], o["res_ce"]])]
    for name, a, b in pairs:
        if a != b:
            print("   DIFF %-12s expected=%r observed=%r" % (name, a, b))
print("ntx", len(fin["txs"]), "expected", len(exp))
