"""Trace acceptance by the code-shaped model (rule R2 of DESIGN.md): every recorded execution must be a behaviour of spec/HtpParser.tla.
TLC runs TSpec (the model's own actions, each guarded by the next trace record) over a file of concatenated executions; the file is accepted
iff the last record is consumed (INVARIANT NotAccepted violated).  A rejection has no counterexample: the furthest record reached (MAXL) names
the execution and the record the model could not follow; that execution is reported as MODEL-DRIFT (exit code unaffected: the observers
decide the property) and the rest of the file is validated in a further run."""
import json, os, re, sys
import vlib

MAX_DRIFT_PER_FILE = 12


def split_executions(files, want):
    """-> list of executions (each a list of raw lines) selected by want(cfg, lines)."""
    out = []
    for f in files:
        cur = None
        for ln in open(f):
            if ln.startswith('{"e":"Reset"'):
                if cur:
                    out.append(cur)
                cur = [ln]
            elif cur is not None:
                cur.append(ln)
        if cur:
            out.append(cur)
    sel = []
    for ex in out:
        try:
            cfg = json.loads(ex[0]).get("cfg", {})
        except Exception:
            continue
        if want(cfg, ex):
            sel.append((cfg, ex))
    return sel


def modelled(cfg, ex):
    """Executions inside the model's scope: no allocation faults, no transaction limit, no callback that destroys / re-enters, no crash."""
    if cfg.get("failat", -1) >= 0 or cfg.get("maxtx", 0) > 0 or cfg.get("cls") == "crash":
        return False
    steps = False
    for ln in ex:
        if '"e":"SB"' in ln:
            steps = True
        if '"e":"Cb"' in ln and '"act":"none"' not in ln:
            return False
        if '"e":"End"' in ln and ('"san":true' in ln or '"stall":true' in ln):
            return False
        if '"e":"Destroy"' in ln or '"e":"Fault"' in ln:
            return False
    return steps                      # only executions recorded with state-function brackets (K steps=1) can be followed


def accept(ctx, files, want=modelled, nshards=None, timeout=1500):
    """Returns (accepted executions, considered executions, drifts)."""
    d = vlib.spec_workdir(ctx)
    sel = split_executions(files, want)
    groups = {False: [], True: []}
    for cfg, ex in sel:
        groups[bool(cfg.get("autod"))].append(ex)
    jobs = []
    nshards = nshards or vlib.NCPU
    for autod, exs in groups.items():
        if not exs:
            continue
        cfgp = os.path.join(d, "drift_%d.cfg" % autod)
        open(cfgp, "w").write("CONSTANTS MaxTx = 100000  MaxCalls = 100000000  MaxAvail = 2  AutoDestroy = %s  FixD4 = TRUE  TraceMode = TRUE  Gaps = FALSE\n CbFail = {}\n Known <- KnownSet\n"
                              "SPECIFICATION TSpec\nINVARIANT NotAccepted\nCONSTRAINT Progress\nPOSTCONDITION Report\nCHECK_DEADLOCK FALSE\n" % ("TRUE" if autod else "FALSE"))
        for si, chunk in enumerate(vlib.chunks(exs, max(1, nshards // len([g for g in groups.values() if g])))):
            jobs.append((cfgp, "%d_%d" % (autod, si), chunk))

    def one(job):
        cfgp, tag, exs = job
        acc, drifts, rounds = 0, [], 0
        while exs and rounds <= MAX_DRIFT_PER_FILE:
            rounds += 1
            f = ctx.path("drift_%s_%d.ndjson" % (tag, rounds))
            with open(f, "w") as fo:
                for ex in exs:
                    fo.writelines(ex)
            nlines = sum(len(ex) for ex in exs)
            r = vlib.run_tlc(ctx, "HtpParserMC", cfgp, env={"TRACE": f}, workers=1, timeout=timeout, xmx="4g", deque=True, name="drift_" + tag, cwd=d)
            os.remove(f)
            if "NotAccepted" in r.violated:
                acc += len(exs)
                break
            m = None
            for ln in r.printed:
                m = re.match(r'<<"MAXL", (\d+), (\d+)>>', ln) or m
            if r.error == "timeout":
                # refuting a trace means exhausting every behaviour of the model that matches its prefix; when that search does not
                # finish within the budget the question stays open: reported as drift (informational), the observers' verdicts stand
                drifts.append({"run": json.loads(exs[0][0]).get("run"), "record": "acceptance UNDECIDED: TLC's search for a matching behaviour of the model did not finish within %d s "
                               "(%d execution(s) from this one on left unjudged by the model)" % (timeout, len(exs)), "after": "", "line_in_execution": 0})
                break
            if r.error or m is None:
                sys.stdout.write(r.out[-2500:])
                raise vlib.Infra("trace acceptance run failed (%s): %s" % (tag, r.error))
            maxl = int(m.group(1))
            pos = 0
            for k, ex in enumerate(exs):
                if pos + len(ex) >= maxl:
                    rec = ex[min(len(ex) - 1, max(0, maxl - pos - 1))].strip()
                    prev = ex[max(0, maxl - pos - 2)].strip() if maxl - pos - 2 >= 0 else ""
                    drifts.append({"run": json.loads(ex[0]).get("run"), "record": rec[:300], "after": prev[:200], "line_in_execution": maxl - pos})
                    acc += k
                    exs = exs[k + 1:]
                    break
                pos += len(ex)
            else:
                break
        return acc, drifts
    res = vlib.pmap(one, jobs)
    acc = sum(a for a, _ in res)
    drifts = [x for _, ds in res for x in ds]
    return acc, len(sel), drifts


def with_steps(scns, every=1, limit=None):
    """Marks every `every`-th scenario (at most `limit`) to be recorded with state-function brackets, so that the model can follow it."""
    n = 0
    for k, s in enumerate(scns):
        if k % every == 0 and (limit is None or n < limit) and not s.beh_destroys() and not s.cfg.get("freed") and not s.cfg.get("maxtx"):   # slot recycling / transaction limits are not modelled
            s.cfg = dict(s.cfg, steps=1)
            n += 1
    return scns


def check(ctx, files):
    """Acceptance of the recorded executions by HtpParser.tla; rejections become MODEL-DRIFT lines (ctx.drift).  Returns coverage fields."""
    acc, tot, drifts = accept(ctx, files, timeout=900 if ctx.quick else 5000)
    for d in drifts:
        ctx.drift.append("execution %s is not a behaviour of spec/HtpParser.tla: the model cannot follow record %d %s (after %s)" % (d["run"], d["line_in_execution"], d["record"][:160], d["after"][:120]))
    ctx.log("model acceptance (HtpParser.tla TSpec): %d of %d execution(s) accepted, %d drift(s)" % (acc, tot, len(drifts)))
    return {"traces_accepted_by_model": acc, "traces_offered_to_model": tot, "model_drifts": drifts[:5]}
