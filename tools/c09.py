"""C09 - stream API contract: return codes, consumed counts, sticky failure, progress.
Specification: spec/HtpObs.tla (ObsCall/ObsRet/ObsEnd clauses C09:*), model-checked on spec/HtpParser.tla incl. failing callbacks;
binding: traces of the real library (protocol-following driver and raw call histories) judged by TLC."""
import streams, gens, vlib
from streams import Scn

PROPS = ["C09"]


def scenarios(ctx):
    q = ctx.quick
    base = gens.corpus(ctx.seed, q, cfgs=({}, {"autod": 1}), nrand=1 if q else 5, mutants=2 if q else 10)
    ex = gens.exchanges(ctx.seed, q, maxcuts=30 if q else None)
    cb = gens.with_callback_failures(base + ex[::3], ctx.seed, 1 if q else 3)
    # arbitrary call histories: the same arrivals fed call by call, return codes ignored (no hand-over protocol)
    raw = [Scn(s.name + ".raw", s.arr, dict(s.cfg, mode="raw", wf=0, cls="raw"), s.beh, (), s.close) for s in (base[::2] + cb[::4])]
    # an unterminated line / header / chunk-size line pumped past the hard field limit (the direction fails while buffering at the end of a
    # call), then more calls for the same direction incl. a complete message: the failure must stick
    import c10
    tail = {0: b"\r\nGET /after HTTP/1.1\r\nHost: h\r\n\r\n", 1: b"\r\nHTTP/1.1 200 OK\r\nContent-Length: 0\r\n\r\n"}
    pumps = []
    for s in c10.pumps(ctx)[:: (7 if q else 2)]:
        d = s.cfg["pumpdir"]
        dd = "<" if d == 1 else ">"
        pumps.append(Scn(s.name + ".then", s.arr + [(dd, tail[d]), (dd, tail[d][2:])], dict(s.cfg, cls="pump-then", wf=0), (), (), s.close))
    # a direction that has failed (callback returned ERROR, field limit) stays failed through htp_connp_close and in data calls made after it
    after = []
    more = {">": b"GET /after-close HTTP/1.1\r\nHost: h\r\n\r\n", "<": b"HTTP/1.1 200 OK\r\nContent-Length: 0\r\n\r\n"}
    for s in (cb[::2] + pumps):
        arr = [x for x in s.arr if x[0] != "C"] + [("C", 0), ("<", more["<"]), (">", more[">"]), ("<", more["<"])]
        after.append(Scn(s.name + ".afterclose", arr, dict(s.cfg, mode="raw", wf=0, cls="after-close"), s.beh, (), False))
    return base + ex + cb + raw + pumps + after + gens.gaps(ctx.seed, q) + gens.structural(ctx.seed, q, per=40 if q else 400)


def run(ctx):
    if ctx.replay:
        return streams.replay(ctx)
    import modelcheck
    mc = modelcheck.run_parser_model(ctx, PROPS)
    live = modelcheck.run_driver_liveness(ctx)
    scns = scenarios(ctx)
    import drift
    drift.with_steps(scns, every=max(1, -(-len(scns) // (1000 if ctx.quick else 8000))))
    exe = vlib.build(ctx, "san", ["rec"])["rec"]
    files = streams.run_rec(ctx, exe, scns, "c09")
    execs, events, viols = streams.judge_obs(ctx, files, PROPS)
    streams.attach_replays(ctx, viols, scns)
    ctx.violations += viols
    acc = drift.check(ctx, files)
    vlib.finish(ctx, "model_checking", {
        "model_acceptance": acc, "caller_progress": live,
        "states": mc["distinct"], "transitions": mc["generated"], "traces_validated_against_impl": execs,
        "evaluations": execs, "distinct_nontrivial": len({s.text().split("\n", 1)[1] for s in scns if s.nbytes() > 0}),
        "events_judged": events, "model": mc["what"],
        "rule": "executions = corpus captures re-cut, byte-mutated captures, exchange library under single cuts, each also with one hook returning "
                "DECLINED/STOP/ERROR at its n-th invocation, and raw call histories (no hand-over); every Call/Ret pair is judged by the C09 clauses",
        "samples": [scns[0].text()[:500], scns[-1].text()[:500]],
    }, assumptions=["consumed is read with htp_connp_re[qs]_data_consumed() right after each call", "byte counters are read from htp_conn_t after each call"],
        vacuous=mc.get("vacuous"))
