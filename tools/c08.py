"""C08 - work is linear in stream length (no algorithmic-complexity blow-up).
Specification: spec/Cost.tla (the cost law w <= A (length + buffered) + B: Bounded against a calibrated per-pattern base, and the constant-free NoGrowth
clause over the doubling ladder).  Meter: basic blocks executed in libhtp (clang trace-pc-guard, deterministic) + bytes moved by its memcpy / moving realloc.
Patterns: prefix + unit^k + suffix for a unit dictionary (repeated / distinct header names, folded lines, space runs, parameters, cookies, empty lines, NUL, CR, chunk-size
lines, chunk extensions, multipart parts and near-boundary data, encoding tokens, pipelined requests, junk lines), both directions, whole and 1-byte delivery."""
import json, os, re, subprocess, sys
import vlib

CAL = os.path.join(vlib.VERIF, "cost_calibration.json")
NPAT = 45


def measure(ctx, kmax):
    exe = vlib.build(ctx, "cov", ["cost"])["cost"]
    def one(i):
        p = subprocess.run(["timeout", "1500", exe, str(kmax), str(i), "1"], capture_output=True, text=True)
        if p.returncode != 0:
            raise vlib.Infra("cost meter failed on pattern %d: %s" % (i, p.stderr[-500:]))
        return [json.loads(l) for l in p.stdout.splitlines()]
    rows = []
    for r in vlib.pmap(one, range(NPAT)):
        rows += r
    return rows


def nc(r, j):
    return r["ws"][j] // (r["lens"][j] + r["bufsums"][j] + 1)


def run(ctx):
    kmax = 2048 if ctx.quick else 16384
    rows = measure(ctx, kmax)
    if os.environ.get("VERIF_CALIBRATE"):
        cal = {"%s/%s" % (r["pat"], r["mode"]): max(nc(r, j) for j in range(min(4, len(r["ws"])))) for r in rows}      # base = normalised cost at small k
        json.dump(cal, open(CAL, "w"), indent=1, sort_keys=True)
        print("calibration written:", CAL); sys.exit(0)
    cal = json.load(open(CAL))
    for r in rows:
        key = "%s/%s" % (r["pat"], r["mode"])
        if key not in cal:
            raise vlib.Infra("no calibration for %s (run VERIF_CALIBRATE=1 ./check C08 quick on the reference tree)" % key)
        r["base"] = cal[key]
    f = ctx.path("cost_rows.ndjson")
    open(f, "w").write("".join(json.dumps(r) + "\n" for r in rows))
    r = vlib.tlc_or_die(ctx, "Cost", "Cost.cfg", env={"ROWS": f}, workers=1, timeout=600, xmx="2g", cont=True)
    total = 0
    for ln in r.printed:
        m = re.match(r'<<"CENSUS", (\d+), (\d+)>>', ln)
        if m:
            total = int(m.group(2))
    for inv, k in re.findall(r"Invariant (\w+) is violated by the initial state:\s*\n(?:/\\ )?k = (\d+)", r.out):
        row = rows[int(k) - 1]
        if inv == "Pumped":
            raise vlib.Infra("pattern %s did not pump: lens %s" % (row["pat"], row["lens"]))
        ctx.violations.append({"clause": inv, "cls": row["pat"], "what": "%s: pattern %s (%s delivery): normalised cost %s over k=%s, base %s" % (inv, row["pat"], row["mode"], [nc(row, j) for j in range(len(row["ws"]))], row["ks"], row["base"]),
                               "sites": [], "row": row})
    evals = sum(len(x["ks"]) for x in rows)
    vlib.finish(ctx, "exploration", {
        "evaluations": evals, "distinct_nontrivial": total, "kmax": kmax,
        "rule": "%d pump patterns x {whole, 1-byte} delivery x doubling ladder k = 64..%d; one evaluation = one measured stream; distinct = (pattern, delivery) ladders judged by TLC" % (NPAT, kmax),
        "samples": [{k: rows[2][k] for k in ("pat", "mode", "ks", "ws", "lens", "bufsums", "base")}],
        "trusted_base": ["clang -fsanitize-coverage=trace-pc-guard counts basic blocks of libhtp translation units", "harness/vf_alloc.c counts bytes moved"],
    }, assumptions=["time inside zlib / LZMA is not metered", "the per-pattern base values in cost_calibration.json were measured on the reference tree (committed, never written by a check run)",
                    "realloc is charged only when the block really moved"])
