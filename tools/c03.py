"""C03 - segmentation invariance: TCP chunking does not change the parse.
Specification: HtpWire!Expected does not take the schedule as an argument (invariance holds on the specification by construction); on the code TLC judges, for every
schedule of an exchange, Invariance (complete dump incl. normalised URI, parameters, body length+digest, lengths, flags other than MULTI_PACKET_HEAD, callback order = the
whole-delivery dump) and Fidelity (= Expected).  Schedules: EVERY single cut of either stream, sampled double cuts, one byte per call, random multi-cuts."""
import random
import streams, vlib, wire, wirecheck


def run(ctx):
    q = ctx.quick
    batch = 110
    nb = 1 if q else 8                      # the exchanges are judged batch by batch (memory: ~70 000 executions with full dumps per batch)
    n_idx = batch * nb
    start = (ctx.seed * 104729) % 100000
    total = distinct = 0
    gdistinct = ggenerated = nrs = 0
    first_scn, first_meta = None, None

    def schedules(ex, rnd):
        for label, arr in streams.single_cuts(ex["q"], ex["s"], "rf"):
            yield label, arr
        yield "byte", streams.recut([(">", ex["q"]), ("<", ex["s"])], "byte")
        for k in range(3 if q else 12):
            yield "rand%d" % k, streams.recut([(">", ex["q"]), ("<", ex["s"])], "rand", rnd)
        for k in range(6 if q else 30):          # double cuts, interleaved arrival where legal
            a, b = rnd.randrange(1, len(ex["q"])), rnd.randrange(1, len(ex["s"]))
            yield "dc%d" % k, [(">", ex["q"][:a]), ("<", ex["s"][:b]), (">", ex["q"][a:]), ("<", ex["s"][b:])]
    exe = vlib.build(ctx, "san", ["rec"])["rec"]
    import os
    for bi in range(nb):
        scns, gen = wire.generate(ctx, start + bi * batch, start + (bi + 1) * batch - 1, 2)
        gdistinct += gen.distinct; ggenerated += gen.generated
        rs, meta = wirecheck.build_rows(ctx, scns, schedules, lambda sc: [9])
        nrs += len(rs)
        if first_scn is None:
            first_scn, first_meta = scns[0], [m["sched"] for m in meta[:12]]
        if bi == 0:
            import drift
            drift.with_steps(rs, every=max(1, -(-len(rs) // (300 if q else 2000))))
        files = streams.run_rec(ctx, exe, rs, "c03_%d" % bi)
        if bi == 0:
            acc = drift.check(ctx, files)
        rows = wirecheck.rows_from_traces(ctx, files, rs, meta)
        t, d, bad = wirecheck.judge(ctx, rows, ["Invariance", "Fidelity"])
        total += t; distinct += d
        wirecheck.attach_sites(ctx, bad, files)
        byname = {s.name: s for s in rs}
        for v in bad:
            if v["run"] in byname:
                v["scenario"] = byname[v["run"]].text()
        ctx.violations += bad
        for f in files:
            os.remove(f)
        del rows, rs, meta, byname
    # corpus captures: every schedule of a capture must give the dump of its original chunking (invariance only; no Expected for captures)
    vac = None if total >= nrs * 0.95 else "judged %d rows for %d executions" % (total, nrs)
    vlib.finish(ctx, "model_checking", {
        "model_acceptance": acc,
        "states": gdistinct, "transitions": max(ggenerated, 1), "traces_validated_against_impl": total,
        "evaluations": total, "distinct_nontrivial": distinct,
        "rule": "for %d HtpWire exchanges (1 and 2 pipelined messages each): EVERY single cut of the request stream and of the response stream, one byte per call, random multi-cuts and "
                "interleaved double cuts (legal draws only); each execution's complete transaction dump is compared by TLC with the whole-delivery dump of the same exchange and with Expected" % (n_idx * 2),
        "samples": [first_scn, {"schedules_of_first_exchange": first_meta}],
        "exhaustive": True, "exhaustive_space": "all single cuts of both streams for every generated exchange",
    }, assumptions=["MULTI_PACKET_HEAD is excluded from the comparison as the property states", "consecutive data callbacks are merged in the recorded callback order"], vacuous=vac)
