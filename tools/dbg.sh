#!/bin/bash
# dbg.sh <replay.json> : run the first scenario of a replay file and print its events compactly
python3 - "$1" > /tmp/dbg.scn <<'PY'
import json,sys
r=json.load(open(sys.argv[1])); print(r["first"]["scenario"],end="")
PY
[ -x /verif/.work/t/san/rec ] || make -s -j16 -C /verif/harness OUT=/verif/.work/t FLAVOUR=san /verif/.work/t/san/rec
/verif/.work/t/san/rec /tmp/dbg.scn 2>/dev/null | python3 -c '
import sys,json
for l in sys.stdin:
    e=json.loads(l)
    k=e["e"]
    if k=="Cb": print("   Cb %-24s tx=%s rp=%s sp=%s len=%s nul=%s ret=%s c100=%s"%(e["n"],e["tx"],e["rp"],e["sp"],e["len"],e["nul"],e["ret"],e.get("c100")))
    elif k=="Call": print("Call",e["d"],e["k"],e["len"],"off",e["off"])
    elif k=="Ret": print("Ret ",e["d"],e["rc"],"consumed",e["consumed"],e["ist"],e["ost"],"ntx",e["ntx"])
    elif k=="TP": print("   TP",e["id"],e["tx"])
    elif k in("SB","SE"): pass
    elif k=="Final": pass
    else: print(k, {x:e[x] for x in e if x not in("cfg",)})
'
