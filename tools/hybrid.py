"""Hybrid-mode API (htp_connp_tx_create, htp_tx_state_*, htp_tx_re[qs]_process_body_data): spec/HtpHybrid.tla.
  run_model(ctx)      TLC: HSpec (every documented caller within the bounds) with the C05 clauses as invariants
  scenarios(ctx)      executions of the documented caller for the recorder ("H" lines of harness/rec.c): message shapes x pipelining orders
  accept(ctx, files)  TLC: THSpec - every recorded hybrid execution must be a behaviour of the model (MODEL-DRIFT lines otherwise)"""
import gzip, json, os, random, re, sys, zlib
import vlib
from streams import Scn

# (MaxTx, MaxCalls, AutoDestroy, CbFail)
QUICK = [(2, 12, False, ()), (2, 12, True, ()), (2, 11, False, ("request_headers", "response_line", "request_body_data", "response_complete", "transaction_complete"))]
THOROUGH = QUICK + [(2, 14, False, ()), (2, 14, True, ()), (2, 17, False, ()), (3, 15, True, ()), (2, 14, True, ("request_line", "response_headers", "response_body_data", "request_complete")),
                    (2, 14, False, ("request_start", "request_headers", "response_start", "response_body_data", "transaction_complete"))]


def run_model(ctx):
    d = vlib.spec_workdir(ctx)
    cfgs = QUICK if ctx.quick else THOROUGH

    def one(i):
        mt, mc, ad, cf = cfgs[i]
        cfgp = os.path.join(d, "hyb_%d.cfg" % i)
        # C05 is not quantified over callback results, but "completion happens once" and "nothing after transaction-complete" must survive a failing
        # callback as well when the caller stops at the first failed call, so the invariant is kept for those configurations too
        open(cfgp, "w").write("CONSTANTS MaxTx = %d  MaxCalls = %d  MaxAvail = 1  AutoDestroy = %s  FixD4 = TRUE  TraceMode = FALSE  Gaps = FALSE\n CbFail = {%s}\n Known <- KnownSet\n"
                              "SPECIFICATION HSpec\nINVARIANTS Inv_C05 HTypeOK\nVIEW HView\nCHECK_DEADLOCK FALSE\n" % (mt, mc, "TRUE" if ad else "FALSE", ", ".join('"%s"' % x for x in cf)))
        return vlib.run_tlc(ctx, "HtpHybridMC", cfgp, workers=4 if ctx.quick else 8, timeout=900 if ctx.quick else 5000, xmx="6g" if ctx.quick else "16g", name="hyb_%d" % i, cwd=d, coverage=ctx.quick)
    res = vlib.pmap(one, range(len(cfgs)), nproc=3)
    distinct = generated = 0
    never = None
    for c, r in zip(cfgs, res):
        if r.error:
            sys.stdout.write(r.out[-3000:])
            raise vlib.Infra("model checking HtpHybrid failed: %s (config %s)" % (r.error, c))
        distinct += r.distinct; generated += r.generated
        for inv in r.violated:
            m = re.search(r"viol \|-> (\{[^}]*\})", r.out[r.out.rfind("State "):])
            ctx.violations.append({"clause": "Model:" + inv, "sites": [], "cls": "model-hybrid",
                                   "what": "TLC violates %s on HtpHybrid %s; last state viol=%s" % (inv, c, m.group(1) if m else None), "counterexample_tail": r.out[-6000:]})
        dead = [a for a, (taken, gen) in r.cover.items() if taken == 0 and a in ("CallerCall", "CallerRet", "CbStep", "HybCall", "HybRet")]
        if dead:
            never = "HtpHybrid actions never taken in config %s: %s" % (c, dead)
    return {"hybrid_states": distinct, "hybrid_transitions": generated, "hybrid_vacuous": never,
            "hybrid_model": "HtpHybrid.tla HSpec + Inv_C05 over %d bounded callers (MaxTx, MaxCalls, AutoDestroy, failing callbacks): %s" % (len(cfgs), [c[:3] + (len(c[3]),) for c in cfgs])}


def H(op, n, *args):
    return ("H", "%s %d%s" % (op, n, "".join(" " + (a.hex() or "-") for a in args)))


def one_tx(rnd, n):
    """request ops and response ops of transaction n (two lists of H lines) for a random message shape"""
    meth = rnd.choice((b"GET", b"POST", b"HEAD", b"PUT", b"CONNECT", b"GET"))
    body = rnd.choice((b"", b"", b"a=1&b=2", b"0123456789" * 3)) if meth in (b"POST", b"PUT") else b""
    target = b"a.example:443" if meth == b"CONNECT" else rnd.choice((b"/h%d" % n, b"/p/../q?x=%d" % n, b"http://h.example/abs"))
    proto = rnd.choice((b" HTTP/1.1", b" HTTP/1.1", b" HTTP/1.0", b""))        # "" = HTTP/0.9 style line
    q = [H("qstart", n), H("qsetline", n, meth + b" " + target + proto), H("qline", n), H("qhdr", n, b"Host", b"h.example")]
    framing = rnd.choice(("cl", "chunked")) if body else "none"
    if framing == "cl":
        q.append(H("qhdr", n, b"Content-Length", b"%d" % len(body)))
    elif framing == "chunked":
        q.append(H("qhdr", n, b"Transfer-Encoding", b"chunked"))
    if body and rnd.random() < .5:
        q.append(H("qhdr", n, b"Content-Type", b"application/x-www-form-urlencoded"))
    q.append(H("qheaders", n))
    if body:
        k = rnd.choice((1, 2, len(body)))
        step = max(1, len(body) // k)
        q += [H("qbody", n, body[i:i + step]) for i in range(0, len(body), step)]
    q.append(H("qcomplete", n))
    status = rnd.choice((b"200 OK", b"200 OK", b"404 Not Found", b"204 No Content", b"301 Moved"))
    payload = rnd.choice((b"", b"hello world", b"response body " * 40))
    coding = rnd.choice(("none", "none", "gzip", "deflate")) if payload else "none"
    wire = payload if coding == "none" else (gzip.compress(payload) if coding == "gzip" else zlib.compress(payload))
    s = [H("sstart", n), H("ssetline", n, b"HTTP/1.1 " + status), H("sline", n), H("shdr", n, b"X-Id", b"%d" % n)]
    if coding != "none":
        s.append(H("shdr", n, b"Content-Encoding", coding.encode()))
    if wire:
        s.append(H("shdr", n, b"Content-Length", b"%d" % len(wire)))
    s.append(H("sheaders", n))
    if wire:
        k = rnd.choice((1, 3, 7))
        step = max(1, len(wire) // k)
        s += [H("sbody", n, wire[i:i + step]) for i in range(0, len(wire), step)]
    s.append(H("scomplete", n))
    return q, s


def scenarios(ctx):
    """the documented caller: requests in order, responses in order, each response after its request; requests may run ahead (pipelining)"""
    rnd = random.Random(ctx.seed + 53)
    out = []
    for k in range(300 if ctx.quick else 4000):
        n = rnd.choice((1, 1, 2, 3, 4))
        txs = [one_tx(rnd, i) for i in range(n)]
        # merge: request ops of tx i (with its create) must follow request ops of tx i-1; response ops of tx i follow its request ops and response ops of tx i-1
        qi = [0] * n; si = [0] * n
        created = 0
        lines = []
        while any(si[i] < len(txs[i][1]) for i in range(n)):
            moves = []
            # request side: the first transaction whose request ops are not finished
            for i in range(n):
                if qi[i] < len(txs[i][0]):
                    moves.append(("q", i)); break
            for i in range(n):
                if si[i] < len(txs[i][1]):
                    if qi[i] == len(txs[i][0]):
                        moves.append(("s", i))
                    break
            side, i = rnd.choice(moves) if rnd.random() < .7 else moves[0]
            if side == "q":
                if qi[i] == 0:
                    lines.append(H("create", i)); created += 1
                lines.append(txs[i][0][qi[i]]); qi[i] += 1
            else:
                lines.append(txs[i][1][si[i]]); si[i] += 1
        cfg = {"wf": 0, "cls": "hybrid", "dump": 0, "steps": 1, "autod": k % 2, "reqdecomp": 0}
        out.append(Scn("hyb/n%d.k%d" % (n, k), lines, cfg, (), (), False))
    return out


def accept(ctx, files):
    """every recorded hybrid execution must be a behaviour of HtpHybrid!THSpec"""
    import drift
    d = vlib.spec_workdir(ctx)
    sel = drift.split_executions(files, lambda cfg, ex: cfg.get("cls") == "hybrid")
    groups = {False: [], True: []}
    for cfg, ex in sel:
        groups[bool(cfg.get("autod"))].append(ex)
    jobs = []
    for autod, exs in groups.items():
        if not exs:
            continue
        cfgp = os.path.join(d, "hybt_%d.cfg" % autod)
        open(cfgp, "w").write("CONSTANTS MaxTx = 100000  MaxCalls = 100000000  MaxAvail = 2  AutoDestroy = %s  FixD4 = TRUE  TraceMode = TRUE  Gaps = FALSE\n CbFail = {}\n Known <- KnownSet\n"
                              "SPECIFICATION THSpec\nINVARIANT NotAccepted\nCONSTRAINT Progress\nPOSTCONDITION Report\nCHECK_DEADLOCK FALSE\n" % ("TRUE" if autod else "FALSE"))
        for si, chunk in enumerate(vlib.chunks(exs, max(1, vlib.NCPU // 2))):
            jobs.append((cfgp, "%d_%d" % (autod, si), chunk))

    def one(job):
        cfgp, tag, exs = job
        acc, drifts, rounds = 0, [], 0
        while exs and rounds <= 12:
            rounds += 1
            f = ctx.path("hybt_%s_%d.ndjson" % (tag, rounds))
            with open(f, "w") as fo:
                for ex in exs:
                    fo.writelines(ex)
            r = vlib.run_tlc(ctx, "HtpHybridMC", cfgp, env={"TRACE": f}, workers=1, timeout=900, xmx="4g", deque=True, name="hybt_" + tag, cwd=d)
            os.remove(f)
            if "NotAccepted" in r.violated:
                acc += len(exs); break
            m = None
            for ln in r.printed:
                m = re.match(r'<<"MAXL", (\d+), (\d+)>>', ln) or m
            if r.error == "timeout":
                drifts.append({"run": json.loads(exs[0][0]).get("run"), "record": "acceptance UNDECIDED (timeout)", "line": 0}); break
            if r.error or m is None:
                sys.stdout.write(r.out[-2500:])
                raise vlib.Infra("hybrid trace acceptance failed (%s): %s" % (tag, r.error))
            maxl, pos = int(m.group(1)), 0
            for k, ex in enumerate(exs):
                if pos + len(ex) >= maxl:
                    drifts.append({"run": json.loads(ex[0]).get("run"), "record": ex[min(len(ex) - 1, max(0, maxl - pos - 1))].strip()[:300], "line": maxl - pos})
                    acc += k; exs = exs[k + 1:]; break
                pos += len(ex)
            else:
                break
        return acc, drifts
    res = vlib.pmap(one, jobs)
    acc = sum(a for a, _ in res)
    drifts = [x for _, ds in res for x in ds]
    for dr in drifts:
        ctx.drift.append("hybrid execution %s is not a behaviour of spec/HtpHybrid.tla: the model cannot follow record %d %s" % (dr["run"], dr["line"], dr["record"][:200]))
    ctx.log("hybrid model acceptance (HtpHybrid.tla THSpec): %d of %d execution(s) accepted, %d drift(s)" % (acc, len(sel), len(drifts)))
    return {"hybrid_traces_accepted": acc, "hybrid_traces_offered": len(sel), "hybrid_drifts": drifts[:5]}
