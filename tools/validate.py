#!/opt/veriftools/pyvenv/bin/python
import json, sys, glob, jsonschema
m = json.load(open('/verif/MANIFEST.json')); jsonschema.validate(m, json.load(open('/root/.vp/MANIFEST.schema.json')))
es = json.load(open('/root/.vp/EVIDENCE.schema.json'))
for c in m['checks']:
    try:
        e = json.load(open('/verif/' + c['evidence_file'])); jsonschema.validate(e, es)
        print(c['property_id'], 'evidence ok', e['tier'], e['level'], 'viol', e.get('violations'), 'wall', e['wall_s'])
    except FileNotFoundError:
        print(c['property_id'], 'NO EVIDENCE')
print('manifest ok:', len(m['checks']), 'checks,', len(m['not_applicable']), 'n/a')
