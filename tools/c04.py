"""C04 - responses are paired with their requests, in order, under pipelining.
Specification: spec/HtpObs.tla clauses C04:* (Paired by planted ids, CountIsN, InArrivalOrder, PipelinedIff); HtpParser.tla is model-checked
for the transaction bound / pairing structure; binding: N in 1..4 id-tagged exchanges under legal interleavings, judged by TLC."""
import random
import streams, gens, vlib
from streams import Scn, R, A

PROPS = ["C04"]


def make_exchange(rnd, n):
    """n id-tagged request/response pairs with random methods and framings."""
    H = [(b"Host", b"h.example")]
    qs, ss, expq, exps = [], [], {}, {}
    for i in range(n):
        kind = rnd.choice(("get", "get", "post_cl", "post_chunked", "head", "put_cl"))
        t = b"/r%d" % i
        if kind == "get":
            qs.append(R(b"GET", t, H))
        elif kind == "head":
            qs.append(R(b"HEAD", t, H))
        elif kind in ("post_cl", "put_cl"):
            b = rnd.choice((b"x", b"id=%d&a=b" % i, b"\r\n\r\nGET /evil HTTP/1.1\r\n\r\n"))
            qs.append(R(b"POST" if kind == "post_cl" else b"PUT", t, H, body=b)); expq[i] = (b, len(b))
        else:
            parts = [b"ab", b"c" * rnd.randint(1, 20)]
            qs.append(R(b"POST", t, H, chunked=parts)); expq[i] = (b"".join(parts), None)
        idh = [(b"X-Id", b"%d" % i)]
        rk = rnd.choice(("cl", "cl", "chunked", "204", "304")) if kind != "head" else "headcl"
        if rk == "cl":
            b = b"id%d:" % i + b"y" * rnd.randint(0, 30)
            ss.append(A(200, hdrs=idh, body=b)); exps[i] = (b, len(b))
        elif rk == "chunked":
            parts = [b"id%d" % i, b"HTTP/1.1 200 OK\r\n"]
            ss.append(A(200, hdrs=idh, chunked=parts)); exps[i] = (b"".join(parts), None)
        elif rk == "204":
            ss.append(A(204, b"No Content", hdrs=idh))
        elif rk == "304":
            ss.append(A(304, b"Not Modified", hdrs=idh))
        else:
            ss.append(A(200, hdrs=idh + [(b"Content-Length", b"7")]))
    ex = dict(q=qs, s=ss, n=n, cls="plain", expq=expq, exps=exps)
    streams.finish_exchange(ex)
    return ex


def interleavings(rnd, ex, k, maxchunks=3):
    """k random legal interleavings with up to maxchunks chunks per stream (illegal draws are re-drawn)."""
    out = []
    tries = 0
    while len(out) < k and tries < k * 30:
        tries += 1
        def cut(b):
            n = rnd.randint(1, maxchunks)
            pts = sorted(rnd.sample(range(1, len(b)), min(n - 1, max(0, len(b) - 1))))
            return [b[a:c] for a, c in zip([0] + pts, pts + [len(b)])]
        qc, sc = cut(ex["q"]), cut(ex["s"])
        seq = [">"] * len(qc) + ["<"] * len(sc)
        rnd.shuffle(seq)
        qi = si = 0
        arr = []
        for d in seq:
            if d == ">":
                arr.append((">", qc[qi])); qi += 1
            else:
                arr.append(("<", sc[si])); si += 1
        if streams.legal(arr, ex["qstarts"], ex["sstarts"]):
            out.append(arr)
    return out


def scenarios(ctx):
    q = ctx.quick
    rnd = random.Random(ctx.seed)
    out = []
    for n in (1, 2, 3, 4):
        for e in range(6 if q else 40):
            ex = make_exchange(rnd, n)
            name = "ids/n%d.e%d" % (n, e)
            for order in ("rf", "il"):
                for label, arr in streams.single_cuts(ex["q"], ex["s"], order, 12 if q else 60, rnd):
                    out.append(streams.scn_from_exchange("%s.%s.%s" % (name, order, label), ex, arr, {"ids": 1}))
            for j, arr in enumerate(interleavings(rnd, ex, 25 if q else 200)):
                out.append(streams.scn_from_exchange("%s.il%d" % (name, j), ex, arr, {"ids": 1, "autod": j % 2, "freed": j % 2}))
            out.append(streams.scn_from_exchange(name + ".byte", ex, streams.recut([(">", ex["q"]), ("<", ex["s"])], "byte"), {"ids": 1}))
            for label, arr in streams.structural_interleavings(ex, rnd, 30 if q else 300):
                out.append(streams.scn_from_exchange("%s.%s" % (name, label), ex, arr, {"ids": 1}))
            # the edge of the pipelining indicator: k bytes of request i+1 have arrived when response i begins (k = 0: not pipelined; k >= 1: the
            # request was started first), and j bytes of response i have arrived when request i+1 begins (j >= 1: not pipelined)
            if n >= 2:
                qb = [0] + [sum(len(m) for m in ex["qmsgs"][:i + 1]) for i in range(n)]
                sb = [0] + [sum(len(m) for m in ex["smsgs"][:i + 1]) for i in range(n)]
                i = n - 2            # the pairs before the last two are delivered serially, so that nothing else on the connection is pipelined
                serial = [x for t in range(i) for x in ((">", ex["qmsgs"][t]), ("<", ex["smsgs"][t]))]
                for kk in (0, 1, 2, 7, len(ex["qmsgs"][i + 1]) - 1):
                    arr = serial + [(">", ex["q"][qb[i]:qb[i + 1] + kk]), ("<", ex["smsgs"][i]), (">", ex["q"][qb[i + 1] + kk:]), ("<", ex["smsgs"][i + 1])]
                    out.append(streams.scn_from_exchange("%s.pe%d.k%d" % (name, i, kk), ex, [(d, v) for d, v in arr if v], {"ids": 1}))
                for jj in (1, 2, 9):
                    arr = serial + [(">", ex["qmsgs"][i]), ("<", ex["smsgs"][i][:jj]), (">", ex["qmsgs"][i + 1]), ("<", ex["smsgs"][i][jj:] + ex["smsgs"][i + 1])]
                    out.append(streams.scn_from_exchange("%s.pe%d.j%d" % (name, i, jj), ex, arr, {"ids": 1}))
    # the exchange library incl. CONNECT hand-over (ids only where every message carries one)
    out += gens.exchanges(ctx.seed, q, names=["get3", "pipe3", "post_head", "connect_404", "get_connect_get"], maxcuts=25 if q else None)
    return out


def run(ctx):
    if ctx.replay:
        return streams.replay(ctx)
    import modelcheck
    mc = modelcheck.run_parser_model(ctx, ["C10"], cbfail_ok=False)      # transaction bound + structure; pairing itself is judged on traces
    scns = scenarios(ctx)
    import drift
    drift.with_steps(scns, every=max(1, -(-len(scns) // (800 if ctx.quick else 8000))))
    exe = vlib.build(ctx, "san", ["rec"])["rec"]
    files = streams.run_rec(ctx, exe, scns, "c04")
    execs, events, viols = streams.judge_obs(ctx, files, PROPS)
    streams.attach_replays(ctx, viols, scns)
    ctx.violations += viols
    wf = sum(1 for s in scns if s.cfg.get("wf") == 1)
    acc = drift.check(ctx, files)
    vlib.finish(ctx, "model_checking", {
        "model_acceptance": acc,
        "states": mc["distinct"], "transitions": mc["generated"], "traces_validated_against_impl": execs,
        "evaluations": execs, "distinct_nontrivial": len({s.text().split("\n", 1)[1] for s in scns if s.nbytes() > 0}),
        "legal_wellformed_schedules": wf, "events_judged": events, "model": mc["what"],
        "rule": "N in 1..4 id-tagged request/response pairs (random methods and framings; id in request URI, X-Id response header and body) under "
                "every sampled single cut in two arrival orders, random legal interleavings of <= 3 chunks per stream (half of them with auto-destroy "
                "and htp_connp_tx_freed), 1-byte delivery; plus the exchange library incl. CONNECT hand-over; illegal draws (response before its request head) are marked not well-formed",
        "samples": [scns[0].text()[:600], scns[len(scns) // 2].text()[:600]],
    }, assumptions=["legality = the first byte of response i is offered only after the head of request i was offered"], vacuous=mc.get("vacuous"))
