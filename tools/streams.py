"""Scenario generation and execution for the stream-level properties (C01 C04 C05 C06 C09 C10 C16 ...).
Python renders scenarios and moves files; the recorder (harness/rec.c) observes; TLC (spec/HtpObsTrace.tla) judges."""
import glob, json, os, random, re, subprocess, sys, time
import vlib

CORPUS = os.path.join(vlib.REPO, "test", "files")


# ----------------------------------------------------------------------------- scenarios
class Scn:
    def __init__(self, name, arrivals, cfg=None, beh=None, exp=None, close=True):
        self.name = re.sub(r"[^\w.:+-]", "_", name)
        self.arr = arrivals      # list of (">"|"<"|"g>"|"g<"|"D"|"C", bytes|int)
        self.cfg = dict(cfg or {})
        self.beh = list(beh or [])          # (hook, nth|"*", action)
        self.exp = list(exp or [])          # (">"|"<", txidx, bytes, wirelen or None)
        self.close = close

    def text(self):
        out = ["S " + self.name]
        if self.cfg:
            out.append("K " + " ".join("%s=%s" % (k, v) for k, v in self.cfg.items()))
        for b in self.beh:
            out.append("B %s %s %s" % b)
        for d, i, body, wl in self.exp:
            out.append("X %s %d %s%s" % (d, i, body.hex() or "-", "" if wl is None else " %d" % wl))
        for k, v in self.arr:
            if k in (">", "<"):
                if v:
                    out.append("%s %s" % (k, v.hex()))
            elif k in ("g>", "g<"):
                out.append("%s %d" % (k, v))
            elif k == "D":
                out.append("D %d" % v)
            elif k == "C":
                out.append("C")
            elif k == "H":
                out.append("H " + v)          # hybrid-mode API call (tools/hybrid.py)
        if self.close:
            out.append("C")
        out.append("E")
        return "\n".join(out) + "\n"

    def nbytes(self):
        return sum(len(v) for k, v in self.arr if k in (">", "<"))

    def beh_destroys(self):
        """True if a callback behaviour does more than return a status (destroy / re-enter): outside the scope of HtpParser.tla."""
        return any(str(b[2]).upper() not in ("OK", "DECLINED", "STOP", "ERROR") for b in self.beh) or any(k == "D" for k, _ in self.arr)


def parse_t(path):
    b = open(path, "rb").read()
    out, d, buf = [], None, []
    for ln in b.splitlines(keepends=True):
        s = ln.rstrip(b"\r\n")
        if s in (b">>>", b"<<<", b"><>", b"<><"):
            if d is not None:
                out.append((d, b"".join(buf)))
            d = {b">>>": ">", b"<<<": "<", b"><>": "g>", b"<><": "g<"}[s]
            buf = []
        else:
            buf.append(ln)
    if d is not None:
        out.append((d, b"".join(buf)))
    res = []
    for d, data in out:
        if data.endswith(b"\r\n"):
            data = data[:-2]
        elif data.endswith(b"\n"):
            data = data[:-1]
        if d in (">", "<") and data:
            res.append((d, data))
        elif d in ("g>", "g<") and data:
            res.append((d, len(data)))
    return res


def corpus_files():
    return sorted(glob.glob(os.path.join(CORPUS, "*.t")))


def recut(arr, mode, rnd=None):
    """Re-cut every data arrival: orig | half | byte | rand (random multi-cut) ."""
    out = []
    for k, v in arr:
        if k not in (">", "<"):
            out.append((k, v)); continue
        if mode == "orig":
            out.append((k, v))
        elif mode == "half":
            out += [(k, p) for p in (v[:len(v) // 2], v[len(v) // 2:]) if p]
        elif mode == "byte":
            out += [(k, v[i:i + 1]) for i in range(len(v))]
        elif mode == "rand":
            i = 0
            while i < len(v):
                n = rnd.choice((1, 1, 2, 3, 5, 8, 13, 40, 200))
                out.append((k, v[i:i + n])); i += n
    return out


def streams_of(arr):
    """Concatenate the two directions (data arrivals only)."""
    q = b"".join(v for k, v in arr if k == ">")
    s = b"".join(v for k, v in arr if k == "<")
    return q, s


def mutate(arr, rnd):
    out = []
    ins = [b"\r\n", b"\n", b"\r", b" ", b"\r\n\r\n", b"HTTP/1.1 200 OK\r\n", b"GET / HTTP/1.1\r\n", b"0\r\n\r\n", b"Transfer-Encoding: chunked\r\n",
           b"Content-Length: 3\r\n", b"\t", b"HTTP/1.1 100 Continue\r\n\r\n", b"CONNECT a:1 HTTP/1.1\r\n\r\n", b"Expect: 100-continue\r\n", b"\x00", b"Content-Encoding: gzip\r\n"]
    for k, v in arr:
        if k not in (">", "<"):
            out.append((k, v)); continue
        b = bytearray(v)
        for _ in range(rnd.randint(0, 3)):
            if not b:
                break
            p = rnd.randrange(len(b)); op = rnd.choice("fdix")
            if op == "f":
                b[p] = rnd.choice(b"\r\n :;=,%0aHG\x00\xff")
            elif op == "d":
                del b[p:p + rnd.randint(1, 4)]
            elif op == "i":
                b[p:p] = rnd.choice(ins)
            else:
                b[p:] = b[p:p + rnd.randint(0, 3)]
        if b:
            out.append((k, bytes(b)))
    return out


def single_cuts(q, s, order="rf", maxcuts=None, rnd=None):
    """All single cuts of either stream: yields (label, arrivals).  order: rf = request first, il = interleaved."""
    def arr(qs, ss):
        if order == "rf":
            return [(">", c) for c in qs] + [("<", c) for c in ss]
        a = []
        for i in range(max(len(qs), len(ss))):
            if i < len(qs): a.append((">", qs[i]))
            if i < len(ss): a.append(("<", ss[i]))
        return a
    yield "whole", arr([q], [s])
    qc = list(range(1, len(q))); sc = list(range(1, len(s)))
    if maxcuts and rnd:
        qc = sorted(rnd.sample(qc, min(maxcuts, len(qc)))); sc = sorted(rnd.sample(sc, min(maxcuts, len(sc))))
    for c in qc:
        yield "q%d" % c, arr([q[:c], q[c:]], [s])
    for c in sc:
        yield "s%d" % c, arr([q], [s[:c], s[c:]])


# ----------------------------------------------------------------------------- exchange library (hand-written, well-formed)
def R(method, target, hdrs=(), body=b"", ver=b"HTTP/1.1", chunked=None):
    h = b"".join(b"%s: %s\r\n" % (k, v) for k, v in hdrs)
    if chunked is not None:
        wire = b"".join(b"%x\r\n%s\r\n" % (len(c), c) for c in chunked) + b"0\r\n\r\n"
        return method + b" " + target + b" " + ver + b"\r\n" + h + b"Transfer-Encoding: chunked\r\n\r\n" + wire
    if body:
        h += b"Content-Length: %d\r\n" % len(body)
    return method + b" " + target + b" " + ver + b"\r\n" + h + b"\r\n" + body


def A(status, reason=b"OK", hdrs=(), body=None, ver=b"HTTP/1.1", chunked=None):
    h = b"".join(b"%s: %s\r\n" % (k, v) for k, v in hdrs)
    if chunked is not None:
        wire = b"".join(b"%x\r\n%s\r\n" % (len(c), c) for c in chunked) + b"0\r\n\r\n"
        return ver + b" %d " % status + reason + b"\r\n" + h + b"Transfer-Encoding: chunked\r\n\r\n" + wire
    if body is not None:
        h += b"Content-Length: %d\r\n" % len(body)
    return ver + b" %d " % status + reason + b"\r\n" + h + b"\r\n" + (body or b"")


def exchange_library():
    """name -> dict(q=request stream, s=response stream, n=transactions, cls=class, expq/exps = expected bodies).
    All well-formed; ids are planted in the request URI, a response header and the response body (C04)."""
    L = {}
    H = [(b"Host", b"h.example")]
    def ids(n, mk_req, mk_res):
        return [mk_req(i) for i in range(n)], [mk_res(i) for i in range(n)]
    q, s = ids(3, lambda i: R(b"GET", b"/r%d" % i, H), lambda i: A(200, hdrs=[(b"X-Id", b"%d" % i)], body=b"body%d" % i))
    L["get3"] = dict(q=q, s=s, n=3, exps={i: (b"body%d" % i, 5) for i in range(3)})
    q = [R(b"GET", b"/r0", H), R(b"POST", b"/r1", H, body=b"abc"), R(b"GET", b"/r2", H)]
    s = [A(200, hdrs=[(b"X-Id", b"0")], body=b"1"), A(204, b"No", hdrs=[(b"X-Id", b"1")]), A(200, hdrs=[(b"X-Id", b"2")], chunked=[b"3", b"xy"])]
    L["pipe3"] = dict(q=q, s=s, n=3, expq={1: (b"abc", 3)}, exps={0: (b"1", 1), 2: (b"3xy", 16)})
    q = [R(b"POST", b"/r0", H + [(b"Content-Type", b"application/x-www-form-urlencoded")], chunked=[b"a=1&", b"b=2"]), R(b"HEAD", b"/r1", H)]
    s = [A(200, hdrs=[(b"X-Id", b"0")], body=b"\r\nGET / HTTP/1.1\r\n\x00"), A(200, hdrs=[(b"X-Id", b"1"), (b"Content-Length", b"10")])]
    L["post_head"] = dict(q=q, s=s, n=2, expq={0: (b"a=1&b=2", 20)}, exps={0: (b"\r\nGET / HTTP/1.1\r\n\x00", 19)})
    q = [R(b"GET", b"/r0", H, ver=b"HTTP/1.0")]
    s = [A(200, hdrs=[(b"X-Id", b"0")], ver=b"HTTP/1.0") + b"closed-delimited body\r\n\r\nmore"]
    L["close_delim"] = dict(q=q, s=s, n=1, exps={0: (b"closed-delimited body\r\n\r\nmore", 29)})
    q = [R(b"PUT", b"/r0", H + [(b"Expect", b"100-continue")], body=b"0123456789")]
    s = [b"HTTP/1.1 100 Continue\r\n\r\n" + A(201, b"Created", hdrs=[(b"X-Id", b"0")], body=b"")]
    L["expect100"] = dict(q=q, s=s, n=1, expq={0: (b"0123456789", 10)})
    # CONNECT family (C16)
    C = R(b"CONNECT", b"a.example:443", [(b"Host", b"a.example:443")])
    L["connect_404"] = dict(q=[C, R(b"GET", b"/r1", H)], s=[A(404, b"Not Found", hdrs=[(b"X-Id", b"0")], body=b"ab"), A(200, hdrs=[(b"X-Id", b"1")], body=b"z")], n=2, cls="resume",
                            exps={0: (b"ab", 2), 1: (b"z", 1)})
    L["connect_407"] = dict(q=[C, R(b"GET", b"/r1", H)], s=[A(407, b"Auth", hdrs=[(b"X-Id", b"0")], body=b""), A(200, hdrs=[(b"X-Id", b"1")], body=b"z")], n=2, cls="resume")
    L["connect_200_http"] = dict(q=[C, R(b"GET", b"/r1", H)], s=[A(200, hdrs=[(b"X-Id", b"0")]), A(200, hdrs=[(b"X-Id", b"1")], body=b"z")], n=2, cls="resume")
    L["connect_200_bin"] = dict(q=[C + b"\x16\x03\x01binary\x00data\r\n\r\nmore"], s=[A(200) + b"\x16\x03\x03srv\x00\x01"], n=1, cls="tunnel")
    L["upgrade_101"] = dict(q=[R(b"GET", b"/r0", H + [(b"Upgrade", b"websocket"), (b"Connection", b"Upgrade")]) + b"\x81\x05hello"],
                            s=[A(101, b"Switching Protocols", hdrs=[(b"Upgrade", b"websocket")]) + b"\x81\x02hi"], n=1, cls="tunnel")
    L["get_connect_get"] = dict(q=[R(b"GET", b"/r0", H), C, R(b"GET", b"/r2", H)],
                                s=[A(200, hdrs=[(b"X-Id", b"0")], body=b"a"), A(403, b"No", hdrs=[(b"X-Id", b"1")], body=b""), A(200, hdrs=[(b"X-Id", b"2")], body=b"c")], n=3, cls="resume")
    for ex in L.values():
        finish_exchange(ex)
    return L


def finish_exchange(ex):
    """message lists -> streams; qstarts[i] = stream offset at which the head of request i is complete."""
    ex["qpoints"] = struct_points(ex["q"]); ex["spoints"] = struct_points(ex["s"])
    ex["qmsgs"] = list(ex["q"]); ex["smsgs"] = list(ex["s"])
    ex["qstarts"] = [sum(len(m) for m in ex["q"][:i]) + ex["q"][i].index(b"\r\n\r\n") + 4 for i in range(len(ex["q"]))]
    ex["sstarts"] = [sum(len(m) for m in ex["s"][:i]) for i in range(len(ex["s"]))]
    ex["q"] = b"".join(ex["q"]); ex["s"] = b"".join(ex["s"])


def struct_points(msgs):
    """Structural cut points of a stream made of the given messages: for every message the middle of its first line, the position between the CR
    and LF that end it, its end, the end of a header line in the middle of the head, the position inside the CRLF CRLF that ends the head, the end
    of the head, the middle and the last byte of what follows the head, and one byte into the message."""
    pts, off = set(), 0
    for m in msgs:
        l1 = m.find(b"\n") + 1
        he = m.find(b"\r\n\r\n") + 4 if b"\r\n\r\n" in m else len(m)
        cand = [1, l1 // 2, l1 - 1, l1, he - 2, he, he + (len(m) - he) // 2, len(m) - 1]
        mid = m.find(b"\n", l1, he - 2)
        if mid > 0:
            cand.append(mid + 1)
        pts |= {off + c for c in cand if 0 < c < len(m)}
        off += len(m)
        pts.add(off)
    pts.discard(off)
    return sorted(pts)


def structural_interleavings(ex, rnd, k, maxcuts=2):
    """k distinct legal schedules: each stream cut at up to maxcuts structural points (struct_points), the pieces interleaved in a random order
    that keeps each stream's own order.  Illegal draws (a response before the head of its request) are re-drawn."""
    seen, out, tries = set(), [], 0
    while len(out) < k and tries < k * 40:
        tries += 1
        def cut(b, pts):
            c = sorted(rnd.sample(pts, min(len(pts), rnd.randint(0, maxcuts))))
            return [b[x:y] for x, y in zip([0] + c, c + [len(b)])], c
        (qc, qp), (sc, sp) = cut(ex["q"], ex["qpoints"]), cut(ex["s"], ex["spoints"])
        seq = [">"] * len(qc) + ["<"] * len(sc)
        rnd.shuffle(seq)
        key = (tuple(qp), tuple(sp), tuple(seq))
        if key in seen:
            continue
        seen.add(key)
        qi = si = 0
        arr = []
        for d in seq:
            if d == ">":
                arr.append((">", qc[qi])); qi += 1
            else:
                arr.append(("<", sc[si])); si += 1
        if legal(arr, ex["qstarts"], ex["sstarts"]):
            out.append(("si.q%s.s%s.%s" % ("_".join(map(str, qp)) or "w", "_".join(map(str, sp)) or "w", "".join("q" if d == ">" else "s" for d in seq)), arr))
    return out


def legal(arr, qstarts, sstarts):
    """Legality of a schedule (C04/C16): the first byte of response i arrives only after the head of request i (request
    line and headers) has arrived - a server cannot answer what it has not seen; bodies may still be in flight (Expect)."""
    qa = sa = 0
    for k, v in arr:
        if k == ">":
            qa += len(v)
        elif k == "<":
            for i, st in enumerate(sstarts):
                if sa <= st < sa + len(v):
                    if i >= len(qstarts) or qa < qstarts[i]:
                        return False
            sa += len(v)
    return True


def scn_from_exchange(name, ex, arrivals, cfg=None, beh=None):
    c = dict(wf=1, n=ex["n"], cls=ex.get("cls", "plain"), dump=1)
    c.update(cfg or {})
    if "qstarts" in ex and not legal(arrivals, ex["qstarts"], ex["sstarts"]):
        c["wf"] = 0; c["cls"] = "illegal-schedule"
    exp = [(">", i, b, w) for i, (b, w) in ex.get("expq", {}).items()] + [("<", i, b, w) for i, (b, w) in ex.get("exps", {}).items()]
    return Scn(name, arrivals, c, beh, exp)


# ----------------------------------------------------------------------------- running
def run_rec(ctx, exe, scns, tag, nshards=None, timeout=900):
    """Writes the scenarios into shard files, runs the recorder on each (restarting after a crash / sanitizer abort),
    returns the list of trace files.  A crashed scenario is recorded as Reset + End(san=true) carrying the report."""
    nshards = nshards or vlib.NCPU
    names = set()
    for s in scns:
        if s.name in names:
            raise vlib.Infra("duplicate run name %s (trace points and replays are keyed by run name)" % s.name)
        names.add(s.name)
    shards = [s for s in vlib.chunks(scns, nshards) if s]

    def one(i):
        sf = ctx.path("%s_%d.scn" % (tag, i)); tf = ctx.path("%s_%d.ndjson" % (tag, i))
        with open(sf, "w") as f:
            for s in shards[i]:
                f.write(s.text())
        first, crashes = 0, 0
        with open(tf, "w") as out:
            while first < len(shards[i]):
                p = subprocess.run(["timeout", str(timeout), exe, sf, str(first)], stdout=out, stderr=subprocess.PIPE, env=vlib.san_env(), text=True, errors="replace")
                out.flush()
                if p.returncode == 0:
                    break
                if p.returncode == 79:          # the recorder gave up inside a scenario and wrote its own End record
                    marks = re.findall(r"^@(\d+)$", p.stderr, re.M)
                    first = (int(marks[-1]) if marks else first) + 1
                    crashes += 1
                    if crashes > 200:
                        break
                    continue
                # the dying process may leave a partial last line: cut it off so that the log stays well-formed NDJSON
                out.flush()
                with open(tf, "rb+") as fx:
                    fx.seek(0, 2); size = fx.tell(); back = min(size, 1 << 16)
                    fx.seek(size - back); tail = fx.read(back)
                    if tail and not tail.endswith(b"}\n"):
                        cut = tail.rfind(b"}\n")
                        fx.truncate(size - back + cut + 2 if cut >= 0 else size - back)
                out.seek(0, 2)
                marks = re.findall(r"^@(\d+)$", p.stderr, re.M)
                bad = int(marks[-1]) if marks else first
                rep = p.stderr[p.stderr.rfind("@%d" % bad):][:1500] if marks else p.stderr[:1500]
                m = re.search(r"(ERROR: AddressSanitizer: [\w-]+|runtime error: [^\n]+|ERROR: LeakSanitizer[^\n]*|SUMMARY: [^\n]+)", rep)
                what = (m.group(1) if m else "recorder died (exit %d)" % p.returncode)
                fr = re.findall(r"#\d+ 0x[0-9a-f]+ in (\w+) ", rep)
                fr = [x for x in fr if not x.startswith("__") and not x.startswith("vf_") and x not in ("main", "run_scenario", "api_data", "out", "in")][:3]
                if "malloc_usable_size() for pointer which is not owned" in rep:
                    what = "double-free (allocator wrapper called on a block that is not live)"
                crashes += 1
                # the Reset record of the crashed scenario was flushed by the recorder; if the log does not end inside that
                # scenario (nothing of it was written), open it here
                last_reset = subprocess.run("tac %s | grep -a -m1 '\"e\":\"Reset\"'" % tf, shell=True, capture_output=True, text=True).stdout
                if ('"run":"%s"' % shards[i][bad].name) not in last_reset:
                    out.write(json.dumps({"e": "Reset", "run": shards[i][bad].name, "p": 1, "cfg": {"autod": False, "maxtx": 0, "hard": 18000, "mode": "proto", "wf": False, "ids": False, "pumpdir": "none", "pumpstart": 0, "role": "", "idx": 0, "fam": "", "bomb": 1048576, "n": -1, "pers": 0, "failat": -1, "cls": "crash"}}) + "\n")
                out.write(json.dumps({"e": "End", "live": 0, "san": True, "what": what + " @ " + ">".join(fr), "stall": False, "leftq": 0, "lefts": 0, "closed": False, "ntx": 0, "nser": 0, "ncb": 0, "allocs": 0, "failfn": ""}) + "\n")
                out.flush()
                first = bad + 1
                if crashes > 200:
                    break
        return tf
    t = time.time()
    files = vlib.pmap(one, range(len(shards)))
    ctx.log("recorded %d scenario(s) in %d shard(s), %.1fs" % (len(scns), len(shards), time.time() - t))
    return files


def split_big(files, maxlines=60000):
    """TLC's per-event cost grows with the length of the deserialized trace; files longer than maxlines are cut at
    execution boundaries (Reset lines) into pieces judged by separate TLC runs.  Nothing is dropped."""
    out = []
    for f in files:
        if not os.path.exists(f) or os.path.getsize(f) < maxlines * 40:
            out.append(f); continue
        n = sum(1 for _ in open(f))
        if n <= maxlines:
            out.append(f); continue
        part = 0; cnt = 0; fh = None
        for ln in open(f):
            if fh is None or (cnt >= maxlines and ln.startswith('{"e":"Reset"')):
                if fh:
                    fh.close()
                name = "%s.p%d.ndjson" % (f[:-7] if f.endswith(".ndjson") else f, part)
                fh = open(name, "w"); out.append(name); part += 1; cnt = 0
            fh.write(ln); cnt += 1
        if fh:
            fh.close()
    return out


def judge_obs(ctx, files, props, timeout=1500):
    """TLC folds every event of every trace file through the observers; returns (executions, events, violation records)
    restricted to clauses of the given property ids."""
    def one(f):
        if os.path.getsize(f) == 0:
            return None
        return vlib.run_tlc(ctx, "HtpObsTrace", "HtpObsTrace.cfg", env={"TRACE": f}, workers=1, timeout=timeout, xmx="4g", name="obs_" + os.path.basename(f))
    t = time.time()
    files = split_big(files)
    res = vlib.pmap(one, files)
    execs = events = 0
    recs = []
    for f, r in zip(files, res):
        if r is None:
            continue
        if r.error or r.violated:
            sys.stdout.write(r.out[-3000:])
            raise vlib.Infra("observer trace run failed on %s: %s %s" % (f, r.error, r.violated))
        got = False
        for ln in r.printed:
            m = re.match(r'<<"CONSUMED", (\d+), (\d+)>>', ln)
            if m:
                events += int(m.group(1)); execs += int(m.group(2)); got = True
        if not got:
            sys.stdout.write(r.out[-2000:])
            raise vlib.Infra("observer trace run did not consume %s" % f)
        for v in vlib.printed_json(r, "VIOLREC"):
            v["file"] = f
            recs.append(v)
    out = []
    for rec in recs:
        for v in rec.get("viol", []):
            pid = v["c"].split(":")[0]
            if v["c"] == "C01:NoSanitizerReport" and re.search(r"AddressSanitizer|runtime error|recorder died|double-free", str(v.get("d"))) and "exit 124" not in str(v.get("d")) and "C01" not in props and "C18" not in props:
                # the recorder died inside this execution (sanitizer abort / crash): nothing after that point was observed, so the execution
                # cannot count as one on which the property held; reported under the property being checked
                v = dict(v, c=props[0] + ":ExecutionObserved"); pid = props[0]
            if pid not in props:
                continue
            tx = v.get("tx", -1)
            sites = set(rec.get("gsites", []))
            st = rec.get("sites", [])
            if isinstance(tx, int) and 0 <= tx < len(st):
                sites |= set(st[tx])
            elif tx == -1:
                for x in st:
                    sites |= set(x)
            out.append({"clause": v["c"], "what": "%s %s tx=%s run=%s" % (v["c"], v.get("d"), tx, rec.get("run")), "detail": v.get("d"), "tx": tx,
                        "sites": sorted(sites), "cls": rec.get("cls"), "run": rec.get("run"), "file": rec.get("file")})
    ctx.log("TLC observers judged %d execution(s), %d event(s) in %.1fs: %d clause violation(s) for %s" % (execs, events, time.time() - t, len(out), ",".join(props)))
    return execs, events, out


def attach_replays(ctx, viols, scns):
    """Adds the scenario text of each violating run to the violation record (so the replay file is self-contained)."""
    byname = {s.name: s for s in scns}
    for v in viols:
        s = byname.get(v.get("run"))
        if s is not None:
            v["scenario"] = s.text()


def replay(ctx, exe_flavour="san"):
    """./check Cxx --replay file : re-run the recorded scenario(s) of a replay file and judge them again."""
    rp = json.load(open(ctx.replay))
    texts = [x.get("scenario") for x in [rp.get("first")] + rp.get("more", []) if x and x.get("scenario")]
    exe = vlib.build(ctx, exe_flavour, ["rec"])["rec"]
    sf = ctx.path("replay.scn"); tf = ctx.path("replay.ndjson")
    open(sf, "w").write("".join(texts))
    p = subprocess.run([exe, sf], stdout=open(tf, "w"), stderr=subprocess.PIPE, env=vlib.san_env(), text=True)
    if p.returncode != 0:
        print(p.stderr[-2000:])
    execs, events, viols = judge_obs(ctx, [tf], [ctx.id])
    for v in viols:
        print("REPLAY-VIOLATION", v["what"], "sites=", v["sites"])
    ctx.violations += viols
    vlib.finish(ctx, "exploration", {"evaluations": max(execs, 1), "distinct_nontrivial": max(execs, 2), "rule": "replay of a recorded scenario", "samples": texts[:1]})
