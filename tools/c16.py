"""C16 - CONNECT, upgrade and tunnel handling never parses or drops the wrong bytes.
Specification: spec/HtpObs.tla clauses C16:* (ConnectSuspends, TunnelQuiet, TunnelSticky, TunnelEntered, NoSpuriousTunnel,
NoByteSkippedOrTwice) and C04 pairing clauses on the resumed exchanges; model-checked on spec/HtpParser.tla; binding: CONNECT / Upgrade
exchanges under every single cut of either stream x arrival orders, judged by TLC."""
import random
import streams, gens, vlib
from streams import Scn, R, A

PROPS = ["C16"]
NAMES = ["connect_404", "connect_407", "connect_200_http", "connect_200_bin", "upgrade_101", "get_connect_get"]


def extra_exchanges():
    """status x payload lattice beyond the library: {2xx,101,407,4xx,5xx} x {HTTP requests, arbitrary bytes}."""
    L = {}
    C = R(b"CONNECT", b"a.example:443", [(b"Host", b"a.example:443")])
    H = [(b"Host", b"h")]
    for st, reason in ((403, b"Forbidden"), (502, b"Bad Gateway"), (407, b"Proxy Auth")):
        L["connect_%d_http2" % st] = dict(q=[C, R(b"GET", b"/r1", H), R(b"GET", b"/r2", H)],
            s=[A(st, reason, hdrs=[(b"X-Id", b"0")], body=b"no"), A(200, hdrs=[(b"X-Id", b"1")], body=b"b1"), A(200, hdrs=[(b"X-Id", b"2")], chunked=[b"b2"])], n=3, cls="resume")
    L["connect_204_bin"] = dict(q=[C + b"\x00\x01\x02\xff\xfe binary\n\n"], s=[A(204, b"No Content") + b"\x00srv"], n=1, cls="tunnel")
    L["connect_200_post"] = dict(q=[C, R(b"POST", b"/r1", H, body=b"inner=1")], s=[A(200, hdrs=[(b"X-Id", b"0")]), A(200, hdrs=[(b"X-Id", b"1")], body=b"ok")], n=2, cls="resume",
                                 expq={1: (b"inner=1", 7)}, exps={1: (b"ok", 2)})
    L["upgrade_101_hdrs"] = dict(q=[R(b"GET", b"/r0", H + [(b"Upgrade", b"h2c"), (b"Connection", b"Upgrade")]) + b"\x00\x00\x12\x04\x00\x00\x00\x00\x00\x00binary frame"],
                                 s=[A(101, b"Switching", hdrs=[(b"Upgrade", b"h2c"), (b"Connection", b"Upgrade")]) + b"\x00\x00\x12\x04"], n=1, cls="tunnel")
    for ex in L.values():
        streams.finish_exchange(ex)
    return L


def scenarios(ctx):
    q = ctx.quick
    rnd = random.Random(ctx.seed)
    out = gens.exchanges(ctx.seed, q, cfgs=({},) if q else ({}, {"autod": 1}), names=NAMES, maxcuts=None)
    for name, ex in extra_exchanges().items():
        for order in ("rf", "il"):
            for label, arr in streams.single_cuts(ex["q"], ex["s"], order, 40 if q else None, rnd):
                out.append(streams.scn_from_exchange("ex/%s.%s.%s" % (name, order, label), ex, arr))
        out.append(streams.scn_from_exchange("ex/%s.byte" % name, ex, streams.recut([(">", ex["q"]), ("<", ex["s"])], "byte")))
    # double cuts (one in each stream) for the library CONNECT exchanges
    L = streams.exchange_library()
    for name in NAMES:
        ex = L[name]
        for k in range(60 if q else 600):
            a = rnd.randrange(1, len(ex["q"])); b = rnd.randrange(1, len(ex["s"]))
            order = rnd.choice(("q1 s1 q2 s2", "q1 q2 s1 s2", "q1 s1 s2 q2"))
            parts = {"q1": (">", ex["q"][:a]), "q2": (">", ex["q"][a:]), "s1": ("<", ex["s"][:b]), "s2": ("<", ex["s"][b:])}
            out.append(streams.scn_from_exchange("ex/%s.dc%d" % (name, k), ex, [parts[x] for x in order.split()]))
    # structural interleavings (up to two cuts per stream at line / head / body boundaries, pieces interleaved) of the CONNECT / Upgrade exchanges
    out += gens.structural(ctx.seed, q, names=NAMES)
    for name, ex in extra_exchanges().items():
        for label, arr in streams.structural_interleavings(ex, rnd, 150 if q else 2000):
            out.append(streams.scn_from_exchange("ex/%s.%s" % (name, label), ex, arr))
    # corpus captures that contain CONNECT
    out += [s for s in gens.corpus(ctx.seed, q, nrand=2 if q else 10, mutants=1 if q else 6) if "connect" in s.name]
    return out


def run(ctx):
    if ctx.replay:
        return streams.replay(ctx)
    import modelcheck
    mc = modelcheck.run_parser_model(ctx, PROPS, cbfail_ok=False)
    scns = scenarios(ctx)
    import drift
    drift.with_steps(scns, every=max(1, -(-len(scns) // (1000 if ctx.quick else 8000))))
    exe = vlib.build(ctx, "san", ["rec"])["rec"]
    files = streams.run_rec(ctx, exe, scns, "c16")
    execs, events, viols = streams.judge_obs(ctx, files, PROPS)
    streams.attach_replays(ctx, viols, scns)
    ctx.violations += viols
    wf = sum(1 for s in scns if s.cfg.get("wf") == 1)
    acc = drift.check(ctx, files)
    vlib.finish(ctx, "model_checking", {
        "model_acceptance": acc,
        "states": mc["distinct"], "transitions": mc["generated"], "traces_validated_against_impl": execs,
        "evaluations": execs, "distinct_nontrivial": len({s.text().split("\n", 1)[1] for s in scns if s.nbytes() > 0}),
        "legal_wellformed_schedules": wf, "events_judged": events, "model": mc["what"],
        "rule": "CONNECT / Upgrade exchanges: status in {200,204,101,403,404,407,502} x payload in {HTTP requests, arbitrary bytes}; every single cut of "
                "either stream in two arrival orders, seeded double cuts in three arrival orders, 1-byte delivery, plus corpus CONNECT captures re-cut and mutated",
        "samples": [scns[0].text()[:500], scns[-1].text()[:500]],
    }, assumptions=["tunnel / resume expectation of an exchange is declared by the scenario (cls=tunnel|resume)"], vacuous=mc.get("vacuous"))
