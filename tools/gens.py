"""Scenario families shared by the stream-level checks (generators G3/G4 of DESIGN.md and the exchange library)."""
import os, random
import streams
from streams import Scn

HOOKS_TX = ["request_start", "request_line", "request_uri_normalize", "request_headers", "request_trailer", "request_complete",
            "response_start", "response_line", "response_headers", "response_trailer", "response_complete", "transaction_complete"]
HOOKS_DATA = ["request_header_data", "request_body_data", "request_trailer_data", "response_header_data", "response_body_data", "response_trailer_data"]
PERS = [0, 1, 2, 5, 6, 7, 8, 9]          # IIS_4_0 / IIS_5_0 are rejected by the setter


def corpus(seed, quick, cfgs=({},), modes=("orig", "half", "byte", "rand"), nrand=2, mutants=1, bytelimit=2500):
    rnd = random.Random(seed)
    out = []
    for f in streams.corpus_files():
        base = os.path.basename(f)[:-2]
        arr = streams.parse_t(f)
        if not arr:
            continue
        total = sum(len(v) for k, v in arr if k in (">", "<"))
        for ci, cfg in enumerate(cfgs):
            for m in modes:
                if m == "byte" and total > bytelimit:
                    continue
                reps = nrand if m == "rand" else 1
                for r in range(reps):
                    out.append(Scn("corpus/%s.%s%d.c%d" % (base, m, r, ci), streams.recut(arr, m, rnd), dict(cfg, cls="corpus")))
            for r in range(mutants):
                ma = streams.mutate(arr, rnd)
                out.append(Scn("mutant/%s.m%d.c%d" % (base, r, ci), streams.recut(ma, rnd.choice(("orig", "rand", "half")), rnd), dict(cfg, cls="mutant")))
    return out


def exchanges(seed, quick, cfgs=({},), orders=("rf", "il"), names=None, maxcuts=None):
    rnd = random.Random(seed + 7)
    out = []
    L = streams.exchange_library()
    for name, ex in L.items():
        if names and name not in names:
            continue
        for ci, cfg in enumerate(cfgs):
            for order in orders:
                for label, arr in streams.single_cuts(ex["q"], ex["s"], order, maxcuts, rnd):
                    out.append(streams.scn_from_exchange("ex/%s.%s.%s.c%d" % (name, order, label, ci), ex, arr, cfg))
            for r in range(2 if quick else 8):
                arr = streams.recut([(">", ex["q"]), ("<", ex["s"])], "rand", rnd)
                # random legal interleaving that keeps request-first arrival: shuffle while preserving per-direction order,
                # then move every response chunk behind the request chunks (request-first is always legal)
                out.append(streams.scn_from_exchange("ex/%s.rand%d.c%d" % (name, r, ci), ex, arr, cfg))
            arr = streams.recut([(">", ex["q"]), ("<", ex["s"])], "byte")
            out.append(streams.scn_from_exchange("ex/%s.byte.c%d" % (name, ci), ex, arr, cfg))
    return out


def with_callback_failures(scns, seed, per=1):
    """For each scenario `per` variants in which one hook returns DECLINED / STOP / ERROR at its n-th invocation."""
    rnd = random.Random(seed + 13)
    out = []
    for s in scns:
        for k in range(per):
            hook = rnd.choice(HOOKS_TX + HOOKS_DATA)
            act = rnd.choice(("STOP", "ERROR", "DECLINED", "ERROR", "STOP"))
            nth = rnd.choice((1, 1, 2, 3))
            cfg = dict(s.cfg); cfg["wf"] = 0; cfg["cls"] = "cbfail"
            out.append(Scn(s.name + ".cb%d" % k, s.arr, cfg, s.beh + [(hook, nth, act)], s.exp, s.close))
    return out


def gaps(seed, quick):
    """Stream gaps (data = NULL, len > 0) at every position of small exchanges: inside an identity body (delivered to the body callbacks as NULL data
    with the length of the gap), inside a compressed / urlencoded / multipart body (the body processor takes NULL data for the end), behind the
    last byte of a message (FINALIZE: completion without probing), and everywhere else (refused: the call returns CLOSED, stream state untouched).
    Fed in raw mode (return codes ignored, no hand-over needed: every request precedes its response)."""
    import zlib
    rnd = random.Random(seed + 29)
    H = b"Host: h\r\n"
    gz = zlib.compressobj(6, zlib.DEFLATED, 31)
    zbody = gz.compress(b"compressed body " * 8) + gz.flush()
    get = b"GET /g HTTP/1.1\r\n" + H + b"\r\n"
    E = {
        "qcl": (b"POST /p HTTP/1.1\r\n" + H + b"Content-Length: 10\r\n\r\n0123456789" + get, b"HTTP/1.1 200 OK\r\nContent-Length: 1\r\n\r\nxHTTP/1.1 200 OK\r\nContent-Length: 0\r\n\r\n"),
        "scl": (get + get, b"HTTP/1.1 200 OK\r\nContent-Length: 10\r\n\r\n0123456789HTTP/1.1 204 No Content\r\n\r\n"),
        "sclose": (get, b"HTTP/1.0 200 OK\r\n\r\nbody until the close"),
        "sgzip": (get, b"HTTP/1.1 200 OK\r\nContent-Encoding: gzip\r\nContent-Length: %d\r\n\r\n" % len(zbody) + zbody),
        "qurl": (b"POST /u HTTP/1.1\r\n" + H + b"Content-Type: application/x-www-form-urlencoded\r\nContent-Length: 11\r\n\r\na=1&bb=22&c", b"HTTP/1.1 200 OK\r\nContent-Length: 0\r\n\r\n"),
        "qchunk": (b"POST /c HTTP/1.1\r\n" + H + b"Transfer-Encoding: chunked\r\n\r\n5\r\nabcde\r\n0\r\n\r\n", b"HTTP/1.1 200 OK\r\nTransfer-Encoding: chunked\r\n\r\n3\r\nxyz\r\n0\r\n\r\n"),
        "q09": (b"GET /old\r\nignored after 0.9", b"old body"),
        # request decompression (off by default; K reqdecomp=1): a gap inside the compressed request body ends the decompressor
        "qgzip": (b"POST /z HTTP/1.1\r\n" + H + b"Content-Encoding: gzip\r\nContent-Length: %d\r\n\r\n" % len(zbody) + zbody + get, b"HTTP/1.1 200 OK\r\nContent-Length: 0\r\n\r\nHTTP/1.1 200 OK\r\nContent-Length: 0\r\n\r\n"),
    }
    extra = {"qgzip": {"reqdecomp": 1}}
    out = []
    for name, (q, s) in E.items():
        for side, stream in (("q", q), ("s", s)):
            n = len(stream)
            step = 1 if not quick else (1 if n < 60 else 2)
            for p in range(0, n + 1, step):
                for g in ((1, 4) if quick else (1, 2, 4, 9, 40)):
                    if p + g > n and g != 1:
                        continue
                    a, b = stream[:p], stream[min(n, p + g):]
                    mine = ([(">" if side == "q" else "<", a)] if a else []) + [("g>" if side == "q" else "g<", g)] + ([(">" if side == "q" else "<", b)] if b else [])
                    arr = ([(">", q)] + mine) if side == "s" else (mine + [("<", s)])
                    for autod in ((0,) if quick else (0, 1)):
                        out.append(Scn("gap/%s.%s.p%d.g%d.a%d" % (name, side, p, g, autod), arr, dict({"mode": "raw", "wf": 0, "cls": "gap", "autod": autod, "dump": 0}, **extra.get(name, {})), (), (), rnd.random() < .8))
    return out


def structural(seed, quick, names=None, cfgs=({},), per=None):
    """The exchange library under structural interleavings (streams.structural_interleavings): more draws for the CONNECT / Upgrade exchanges, whose
    hand-over makes the order of arrival matter most."""
    rnd = random.Random(seed + 41)
    out = []
    for name, ex in streams.exchange_library().items():
        if names and name not in names:
            continue
        k = per or ((300 if ex.get("cls") in ("resume", "tunnel") else 60) if quick else (3000 if ex.get("cls") in ("resume", "tunnel") else 600))
        for ci, cfg in enumerate(cfgs):
            for label, arr in streams.structural_interleavings(ex, rnd, k):
                out.append(streams.scn_from_exchange("ex/%s.%s.c%d" % (name, label, ci), ex, arr, cfg))
    return out
