"""Scenario families shared by the stream-level checks (generators G3/G4 of DESIGN.md and the exchange library)."""
import os, random
import streams
from streams import Scn

HOOKS_TX = ["request_start", "request_line", "request_uri_normalize", "request_headers", "request_trailer", "request_complete",
            "response_start", "response_line", "response_headers", "response_trailer", "response_complete", "transaction_complete"]
HOOKS_DATA = ["request_header_data", "request_body_data", "request_trailer_data", "response_header_data", "response_body_data", "response_trailer_data"]
PERS = [0, 1, 2, 5, 6, 7, 8, 9]          # IIS_4_0 / IIS_5_0 are rejected by the setter


def corpus(seed, quick, cfgs=({},), modes=("orig", "half", "byte", "rand"), nrand=2, mutants=1, bytelimit=2500):
    rnd = random.Random(seed)
    out = []
    for f in streams.corpus_files():
        base = os.path.basename(f)[:-2]
        arr = streams.parse_t(f)
        if not arr:
            continue
        total = sum(len(v) for k, v in arr if k in (">", "<"))
        for ci, cfg in enumerate(cfgs):
            for m in modes:
                if m == "byte" and total > bytelimit:
                    continue
                reps = nrand if m == "rand" else 1
                for r in range(reps):
                    out.append(Scn("corpus/%s.%s%d.c%d" % (base, m, r, ci), streams.recut(arr, m, rnd), dict(cfg, cls="corpus")))
            for r in range(mutants):
                ma = streams.mutate(arr, rnd)
                out.append(Scn("mutant/%s.m%d.c%d" % (base, r, ci), streams.recut(ma, rnd.choice(("orig", "rand", "half")), rnd), dict(cfg, cls="mutant")))
    return out


def exchanges(seed, quick, cfgs=({},), orders=("rf", "il"), names=None, maxcuts=None):
    rnd = random.Random(seed + 7)
    out = []
    L = streams.exchange_library()
    for name, ex in L.items():
        if names and name not in names:
            continue
        for ci, cfg in enumerate(cfgs):
            for order in orders:
                for label, arr in streams.single_cuts(ex["q"], ex["s"], order, maxcuts, rnd):
                    out.append(streams.scn_from_exchange("ex/%s.%s.%s.c%d" % (name, order, label, ci), ex, arr, cfg))
            for r in range(2 if quick else 8):
                arr = streams.recut([(">", ex["q"]), ("<", ex["s"])], "rand", rnd)
                # random legal interleaving that keeps request-first arrival: shuffle while preserving per-direction order,
                # then move every response chunk behind the request chunks (request-first is always legal)
                out.append(streams.scn_from_exchange("ex/%s.rand%d.c%d" % (name, r, ci), ex, arr, cfg))
            arr = streams.recut([(">", ex["q"]), ("<", ex["s"])], "byte")
            out.append(streams.scn_from_exchange("ex/%s.byte.c%d" % (name, ci), ex, arr, cfg))
    return out


def with_callback_failures(scns, seed, per=1):
    """For each scenario `per` variants in which one hook returns DECLINED / STOP / ERROR at its n-th invocation."""
    rnd = random.Random(seed + 13)
    out = []
    for s in scns:
        for k in range(per):
            hook = rnd.choice(HOOKS_TX + HOOKS_DATA)
            act = rnd.choice(("STOP", "ERROR", "DECLINED", "ERROR", "STOP"))
            nth = rnd.choice((1, 1, 2, 3))
            cfg = dict(s.cfg); cfg["wf"] = 0; cfg["cls"] = "cbfail"
            out.append(Scn(s.name + ".cb%d" % k, s.arr, cfg, s.beh + [(hook, nth, act)], s.exp, s.close))
    return out
