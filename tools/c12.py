"""C12 - path decoding and normalisation match the documented semantics for every path.
Specification: spec/PathNorm.tla (DecodePath, Utf8 with the transcribed DFA and best-fit pairs, RemoveDotSegments with the pinned trailing-slash rule,
Normalise, flags); PathNormMC checks the meta-properties on the reference; binding: pattern F (PathNormRows: path, flags, length, no dot segment, idempotence)."""
import json, vlib


def run(ctx):
    q = ctx.quick
    mc = vlib.tlc_or_die(ctx, "PathNormMC", "PathNormMC.cfg" if q else "PathNormMC_thorough.cfg", workers=vlib.NCPU, timeout=3000, xmx="12g")
    for inv in mc.violated:
        ctx.violations.append({"clause": "Model:" + inv, "what": "the reference pipeline violates its own meta-property: " + mc.out[-1200:], "sites": []})
    n = vlib.NCPU * (2 if q else 8)
    L = 2 if q else 3
    shards = [["atoms", L, i, n] for i in range(n)] + [["dots", 8 if q else 10]] + [["rand", ctx.seed * 5 + i, 4000 if q else 60000] for i in range(6)]
    if q:
        # a slice of the 3-atom space (every 40th sequence), the thorough tier enumerates it completely
        shards += [["atoms", 3, i * 40 + (ctx.seed % 40), 40 * 16] for i in range(16)]
    total, distinct, bad, files = vlib.pattern_f(ctx, "san", "fn_path", shards, "PathNormRows", "PathNormRows.cfg", tlc_timeout=3000)
    for v in bad:
        r = v.get("row") or {}
        if v["clause"] == "RawNulOK":
            v["cls"] = "raw-nul-in-path"
    ctx.violations += bad
    exp = sum(29 ** k for k in range(L + 1)) * 26
    vac = None if distinct >= exp else "recorded %d distinct rows, the declared space has %d (atom sequences x configurations)" % (distinct, exp)
    samples = [json.loads(l) for l in open(files[0]).read().splitlines()[300:302]]
    vlib.finish(ctx, "model_checking", {
        "states": mc.distinct, "transitions": max(mc.generated, 1), "traces_validated_against_impl": total,
        "evaluations": total, "distinct_nontrivial": distinct,
        "rule": "paths = all sequences of <= %d atoms from 29 atoms {/ . a A \\\\ %% u %%2f %%5c %%2e %%00 %%25 %%41 %%zz %%2 %%u002f %%uff0f %%u00 NUL, 2-byte UTF-8, overlong slash, lone continuation, 4-byte forms (supplementary-plane character with a best-fit low half, U+10000, overlong 4- and 3-byte slash, above U+10FFFF, surrogate), "
                "fullwidth solidus} x 26 decoder configurations (8 personalities + single-switch deviations + combinations), through htp_normalize_parsed_uri and (when the request line can carry it) "
                "a real request; all strings <= %d over {/ . a}; seeded random atom/byte mixes; %s" % (L, 8 if q else 10, "a 1/40 slice of the 3-atom space" if q else ""),
        "samples": samples, "exhaustive": True, "exhaustive_space": "atom sequences of length <= %d x 26 configurations; dot alphabet strings" % L,
        "model": "PathNormMC: RemoveDotSegments never lengthens / leaves no dot segment / idempotent for all strings over {/ . a}; pipeline never lengthens, no dot segment, strict and loose cfg",
    }, assumptions=["the effective decoder configuration of each row is read from cfg->decoder_cfgs[URL_PATH] by the recorder", "the UTF-8 DFA and best-fit pairs in PathNorm.tla are transcribed from the library's documented tables",
                    "expected-status (..._unwanted) settings are not part of the property statement and are not judged"], vacuous=vac)
