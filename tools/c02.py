"""C02 - parse fidelity: what was sent is what is reported (well-formed messages).
Specification: spec/HtpWire.tla (exchange grammar, Expected); TLC generates the exchanges (HtpWireGen) and judges the observed transaction dumps
(HtpWireJudge!Fidelity)."""
import streams, vlib, wire, wirecheck


def run(ctx):
    q = ctx.quick
    n_idx = 1500 if q else 12000
    start = (ctx.seed * 7919) % 100000
    scns, gen = wire.generate(ctx, start, start + n_idx - 1, 2 if q else 3)

    def schedules(ex, rnd):
        yield "whole", [(">", ex["q"]), ("<", ex["s"])]
        arr = streams.recut([(">", ex["q"]), ("<", ex["s"])], "rand", rnd)
        yield "rand", arr
        yield "byte", streams.recut([(">", ex["q"]), ("<", ex["s"])], "byte")
    rs, meta = wirecheck.build_rows(ctx, scns, schedules, lambda sc: [wirecheck.PERS_SAMPLE[sc["i"] % 2 * 1], wirecheck.PERS_SAMPLE[(sc["i"] // 2) % len(wirecheck.PERS_SAMPLE)]][: (1 if q else 2)])
    exe = vlib.build(ctx, "san", ["rec"])["rec"]
    files = streams.run_rec(ctx, exe, rs, "c02")
    rows = wirecheck.rows_from_traces(ctx, files, rs, meta)
    total, distinct, bad = wirecheck.judge(ctx, rows, ["Fidelity"])
    wirecheck.attach_sites(ctx, bad, files)
    byname = {s.name: s for s in rs}
    for v in bad:
        if v["run"] in byname:
            v["scenario"] = byname[v["run"]].text()
    ctx.violations += bad
    # interpreted request fields (cookies, credentials): reference operators of spec/ReqFields.tla, meta-properties checked by TLC, rows from real requests
    rmc = vlib.tlc_or_die(ctx, "ReqFieldsMC", "ReqFieldsMC.cfg", workers=vlib.NCPU, timeout=1800, xmx="8g")
    for inv in rmc.violated:
        ctx.violations.append({"clause": "Model:" + inv, "what": "ReqFields reference violates its own meta-property: " + rmc.out[-1200:], "sites": []})
    n = vlib.NCPU
    cl, al = (6, 2) if q else (8, 3)
    shards = [["cookie", cl, i, n] for i in range(n)] + [["auth", al, i, n] for i in range(n)] + [["rand", ctx.seed * 5 + i, 2000 if q else 40000] for i in range(4)]
    ft, fd, fbad, _ = vlib.pattern_f(ctx, "san", "fn_fields", shards, "ReqFieldsRows", "ReqFieldsRows.cfg")
    for v in fbad:
        r = v.get("row") or {}
        if isinstance(r, dict) and "hv" in r:
            v["what"] = "%s: %s header value %r" % (v["clause"], r.get("t"), bytes(r["hv"]))
    ctx.violations += fbad
    vac = None if total >= len(scns) else "judged %d rows for %d generated exchanges" % (total, len(scns))
    if fd < 5 ** cl:
        vac = "request-field rows: %d distinct < %d declared" % (fd, 5 ** cl)
    vlib.finish(ctx, "model_checking", {
        "states": gen.distinct, "transitions": max(gen.generated, 1), "traces_validated_against_impl": total,
        "evaluations": total + ft, "distinct_nontrivial": distinct + fd, "request_field_rows": ft,
        "request_fields": "every Cookie value of length <= %d over {a b = ; SP}; Authorization = 9 scheme spellings x every sequence of <= %d atoms from 19 (base64 groups with and without ':', padding, junk, "
                          "username=, quotes, escapes); random values; cookies in order, credentials, auth type, HTP_AUTH_INVALID, stream failure judged against spec/ReqFields.tla" % (cl, al),
        "rule": "exchanges = HtpWire!Exchange(i, n) for %d consecutive indices x n in 1..%d pipelined messages (one production choice per component with co-prime strides: 6 methods, 7 targets incl. absolute "
                "URI / userinfo / dot segments / percent escapes / odd queries, 2 versions, 0-2 extra header lines from a pool with folding, repetition, case and separator spellings, Host with/without port, "
                "Cookie, Basic authorization, request framing none/C-L/chunked x2, 5 statuses, response framing C-L / chunked x2 / close / zero); delivered whole, with random cuts and one byte per call under sampled personalities; "
                "distinct = distinct (i, n, schedule, personality)" % (n_idx, 2 if q else 3),
        "samples": [scns[1], scns[len(scns) // 2]],
    }, assumptions=["bodies are tokens rendered by tools/wire.py; their delivery is judged by C06", "Expected follows the documented combination rules (folded lines appended raw with their indent, repeats joined with ', ', trailer fields in the same table, URI authority over Host)"], vacuous=vac)
