"""C02 - parse fidelity: what was sent is what is reported (well-formed messages).
Specification: spec/HtpWire.tla (exchange grammar, Expected); TLC generates the exchanges (HtpWireGen) and judges the observed transaction dumps
(HtpWireJudge!Fidelity)."""
import streams, vlib, wire, wirecheck


def run(ctx):
    q = ctx.quick
    n_idx = 1500 if q else 12000
    start = (ctx.seed * 7919) % 100000
    scns, gen = wire.generate(ctx, start, start + n_idx - 1, 2 if q else 3)

    def schedules(ex, rnd):
        yield "whole", [(">", ex["q"]), ("<", ex["s"])]
        arr = streams.recut([(">", ex["q"]), ("<", ex["s"])], "rand", rnd)
        yield "rand", arr
        yield "byte", streams.recut([(">", ex["q"]), ("<", ex["s"])], "byte")
    rs, meta = wirecheck.build_rows(ctx, scns, schedules, lambda sc: [wirecheck.PERS_SAMPLE[sc["i"] % 2 * 1], wirecheck.PERS_SAMPLE[2 + (sc["i"] // 2) % (len(wirecheck.PERS_SAMPLE) - 2)]][: (1 if q else 2)])
    import drift
    drift.with_steps(rs, every=max(1, -(-len(rs) // (300 if q else 3000))))
    exe = vlib.build(ctx, "san", ["rec"])["rec"]
    files = streams.run_rec(ctx, exe, rs, "c02")
    acc = drift.check(ctx, files)
    rows = wirecheck.rows_from_traces(ctx, files, rs, meta)
    total, distinct, bad = wirecheck.judge(ctx, rows, ["Fidelity"])
    wirecheck.attach_sites(ctx, bad, files)
    byname = {s.name: s for s in rs}
    for v in bad:
        if v["run"] in byname:
            v["scenario"] = byname[v["run"]].text()
    ctx.violations += bad
    # interpreted request fields (cookies, credentials): reference operators of spec/ReqFields.tla, meta-properties checked by TLC, rows from real requests
    rmc = vlib.tlc_or_die(ctx, "ReqFieldsMC", "ReqFieldsMC.cfg", workers=vlib.NCPU, timeout=1800, xmx="8g")
    for inv in rmc.violated:
        ctx.violations.append({"clause": "Model:" + inv, "what": "ReqFields reference violates its own meta-property: " + rmc.out[-1200:], "sites": []})
    n = vlib.NCPU
    cl, al = (6, 2) if q else (8, 3)
    shards = [["cookie", cl, i, n] for i in range(n)] + [["auth", al, i, n] for i in range(n)] + [["rand", ctx.seed * 5 + i, 2000 if q else 40000] for i in range(4)]
    ft, fd, fbad, _ = vlib.pattern_f(ctx, "san", "fn_fields", shards, "ReqFieldsRows", "ReqFieldsRows.cfg")
    for v in fbad:
        r = v.get("row") or {}
        if isinstance(r, dict) and "hv" in r:
            v["what"] = "%s: %s header value %r" % (v["clause"], r.get("t"), bytes(r["hv"]))
    ctx.violations += fbad
    # the request line: transcribed reference spec/ReqLine.tla (partition meta-property checked by TLC), rows from real connections under 8 option points
    lmc = vlib.tlc_or_die(ctx, "ReqLineMC", "ReqLineMC.cfg", workers=vlib.NCPU, timeout=1800, xmx="8g")
    for inv in lmc.violated:
        ctx.violations.append({"clause": "Model:" + inv, "what": "ReqLine reference violates its own meta-property: " + lmc.out[-1200:], "sites": []})
    la = 3 if q else 4
    lshards = [["exh", la, i, n] for i in range(n)] + [["rand", ctx.seed * 11 + i, 1500 if q else 30000] for i in range(4)]
    lt, ld, lbad, _ = vlib.pattern_f(ctx, "san", "fn_reqline", lshards, "ReqLineRows", "ReqLineRows.cfg", xmx="5g")
    for v in lbad:
        r = v.get("row") or {}
        if isinstance(r, dict) and "in" in r:
            v["what"] = "%s: request line %r allow_space_uri=%s nul=%s keep=%s" % (v["clause"], bytes(r["in"]), r.get("allow"), r.get("nul"), r.get("keep"))
    ctx.violations += lbad
    ft += lt; fd += ld
    # the status line: spec/ResLine.tla
    smc = vlib.tlc_or_die(ctx, "ResLineMC", "ResLineMC.cfg", workers=vlib.NCPU, timeout=1800, xmx="8g")
    for inv in smc.violated:
        ctx.violations.append({"clause": "Model:" + inv, "what": "ResLine reference violates its own meta-property: " + smc.out[-1200:], "sites": []})
    sshards = [["exh", la, i, n] for i in range(n)] + [["rand", ctx.seed * 13 + i, 1500 if q else 30000] for i in range(4)]
    st, sd, sbad, _ = vlib.pattern_f(ctx, "san", "fn_resline", sshards, "ResLineRows", "ResLineRows.cfg", xmx="5g")
    for v in sbad:
        r = v.get("row") or {}
        if isinstance(r, dict) and "in" in r:
            v["what"] = "%s: status line %r" % (v["clause"], bytes(r["in"]))
    ctx.violations += sbad
    ft += st; fd += sd
    # one header line, request and response side: spec/HdrLine.tla
    hmc = vlib.tlc_or_die(ctx, "HdrLineMC", "HdrLineMC.cfg", workers=vlib.NCPU, timeout=1800, xmx="8g")
    for inv in hmc.violated:
        ctx.violations.append({"clause": "Model:" + inv, "what": "HdrLine reference violates its own meta-property: " + hmc.out[-1200:], "sites": []})
    hshards = [["exh", la, i, n] for i in range(n)] + [["rand", ctx.seed * 17 + i, 1500 if q else 30000] for i in range(4)]
    ht, hd, hbad, _ = vlib.pattern_f(ctx, "san", "fn_hdrline", hshards, "HdrLineRows", "HdrLineRows.cfg", xmx="5g")
    for v in hbad:
        r = v.get("row") or {}
        if isinstance(r, dict) and "in" in r:
            v["what"] = "%s: %s header line %r" % (v["clause"], r.get("side"), bytes(r["in"]))
    ctx.violations += hbad
    ft += ht; fd += hd
    # repeated fields combined: one name k times under different spellings, every tuple of value lengths of a lattice, and k up to 70: spec/HdrRepeat.tla
    RL = 6 if q else 8
    rshards = [["lat", RL, i, n] for i in range(n)] + [["many", 0, 1]]
    rt, rd, rbad, _ = vlib.pattern_f(ctx, "san", "fn_hdrrep", rshards, "HdrRepeatRows", "HdrRepeatRows.cfg", xmx="4g")
    for v in rbad:
        r = v.get("row") or {}
        if isinstance(r, dict) and "lens" in r:
            v["what"] = "%s: %s header repeated with value lengths %s%s: reported %r" % (v["clause"], r.get("side"), r.get("lens"), " (another field in between)" if r.get("pad") else "", bytes(r.get("value", [])))
    ctx.violations += rbad
    ft += rt; fd += rd
    vac = None if total >= len(scns) else "judged %d rows for %d generated exchanges" % (total, len(scns))
    if ld < 8 * 15 ** la * 0.9:
        vac = "request-line rows: %d distinct < %d declared" % (ld, 8 * 15 ** la)
    if sd < 20 ** la * 0.9:
        vac = "status-line rows: %d distinct < %d declared" % (sd, 20 ** la)
    if hd < 2 * 6 * 11 ** la * 0.9:
        vac = "header-line rows: %d distinct < %d declared" % (hd, 2 * 6 * 11 ** la)
    if fd - ld - sd - hd - rd < 5 ** cl:
        vac = "request-field rows: %d distinct < %d declared" % (fd, 5 ** cl)
    vlib.finish(ctx, "model_checking", {
        "model_acceptance": acc,
        "states": gen.distinct, "transitions": max(gen.generated, 1), "traces_validated_against_impl": total,
        "evaluations": total + ft, "distinct_nontrivial": distinct + fd, "request_field_rows": ft,
        "request_lines": "every sequence of <= %d atoms from {GET X /a HTTP/1.1 HTTP/1.0 HTTP/0.9 HTTP/2.0 SP TAB SPSP CR FF '?b c' http://h/p NUL} as a request line under allow_space_uri x Apache (NUL-terminated) / generic x leading whitespace kept or not; "
                         "method, URI, protocol, 0.9 indicator, protocol number = spec/ReqLine.tla Parse, and the observed components tile the line" % la,
        "status_lines": "every sequence of <= %d atoms from 20 (protocol spellings, status texts 200 404 0200 99 1000 20x, reasons, SP TAB FF NUL) as the first response line: taken as a status line iff spec/ResLine.tla "
                        "LooksLikeStatusLine; protocol, status, reason, protocol number, status number = ParseStatusLine; components tile the line" % la,
        "header_lines": "every line = one of 6 first atoms + <= %d atoms from {X Y-z : SP TAB NUL @ VT v 'a b' ::} as the only header of a request and of a response: name, value, UNPARSEABLE, INVALID = spec/HdrLine.tla" % la,
        "repeated_fields": "one field name occurring k times under 4 spellings, request and response: every tuple of 2..4 value lengths in 0..%d (with and without another field in between) and k = 5..70 "
                           "occurrences in 4 length patterns (crossing the cap of 64 combinations): one table entry, first spelling, values joined with ', ' in order = spec/HdrRepeat.tla Combined" % RL,
        "request_fields": "every Cookie value of length <= %d over {a b = ; SP}; Authorization = 9 scheme spellings x every sequence of <= %d atoms from 19 (base64 groups with and without ':', padding, junk, "
                          "username=, quotes, escapes); random values; cookies in order, credentials, auth type, HTP_AUTH_INVALID, stream failure judged against spec/ReqFields.tla" % (cl, al),
        "rule": "exchanges = HtpWire!Exchange(i, n) for %d consecutive indices x n in 1..%d pipelined messages (one production choice per component with co-prime strides: 6 methods, 7 targets incl. absolute "
                "URI / userinfo / dot segments / percent escapes / odd queries, 2 versions, 0-2 extra header lines from a pool with folding, repetition, case and separator spellings, Host with/without port, "
                "Cookie, Basic authorization, request framing none/C-L/chunked x2, 5 statuses, response framing C-L / chunked x2 / close / zero); delivered whole, with random cuts and one byte per call under sampled personalities; "
                "distinct = distinct (i, n, schedule, personality)" % (n_idx, 2 if q else 3),
        "samples": [scns[1], scns[len(scns) // 2]],
    }, assumptions=["bodies are tokens rendered by tools/wire.py; their delivery is judged by C06", "Expected follows the documented combination rules (folded lines appended raw with their indent, repeats joined with ', ', trailer fields in the same table, URI authority over Host)"], vacuous=vac)
