"""Shared driver of the HtpWire-based checks (C02 fidelity, C03 invariance): TLC generates exchanges, python renders and schedules them,
the recorder observes, TLC judges rows against Expected and against the whole-delivery observation."""
import json, os, random
import streams, vlib, wire
from streams import Scn

PERS_SAMPLE = [9, 1, 2, 0, 5, 8]


def build_rows(ctx, scns, schedules_of, perss):
    """scns: list of {i,n,x}.  schedules_of(ex, rnd) -> list of (label, arrivals).  Returns (Scn list, meta list aligned)."""
    rnd = random.Random(ctx.seed)
    out, meta = [], []
    for sc in scns:
        ex = wire.render(sc["x"])
        for pers in dict.fromkeys(perss(sc)):          # distinct personalities only: run names (and with them trace points / replays) must be unique
            fam = []
            for label, arr in schedules_of(ex, rnd):
                name = "w/i%d.n%d.p%d.%s" % (sc["i"], sc["n"], pers, label)
                s = streams.scn_from_exchange(name, ex, arr, {"pers": pers, "dump": 1, "lzmalayers": 1})
                if s.cfg.get("wf") != 1:
                    continue              # illegal draw (response before its request head): not a well-formed schedule
                out.append(s)
                meta.append({"i": sc["i"], "n": sc["n"], "sched": label, "pers": pers, "whole": label == "whole", "fam": (sc["i"], sc["n"], pers)})
    assert len({s.name for s in out}) == len(out), "duplicate run names"
    return out, meta


def rows_from_traces(ctx, files, scns, meta):
    """Final records -> judge rows (one per execution), each pointing at the whole-delivery row of its family."""
    by = {s.name: m for s, m in zip(scns, meta)}
    rows = []
    for f in files:
        run = None
        for ln in open(f):
            if ln.startswith('{"e":"Reset"'):
                run = json.loads(ln)["run"]; final = False
            elif ln.startswith('{"e":"Final"'):
                fin = json.loads(ln); final = True
                m = by.get(run)
                if m is not None:
                    rows.append(dict(i=m["i"], n=m["n"], sched=m["sched"], pers=m["pers"], txs=fin["txs"], pipelined=fin["pipelined"], samearr=not m["sched"].startswith("dc"), fam=list(m["fam"]), whole=m["whole"], run=run, completed=True))
            elif (ln.startswith('{"e":"End"') or ln.startswith('{"e": "End"')) and not final and '"san": true' in ln.replace('"san":true', '"san": true'):
                # the recorder died in this execution (sanitizer abort, crash): there is no result to compare; TLC judges the row as neither
                # faithful nor invariant instead of the execution silently dropping out of the comparison
                m = by.get(run)
                if m is not None:
                    rows.append(dict(i=m["i"], n=m["n"], sched=m["sched"], pers=m["pers"], txs=[], pipelined=False, samearr=not m["sched"].startswith("dc"), fam=list(m["fam"]), whole=m["whole"], run=run, completed=False))
                final = True
    rows.sort(key=lambda r: (r["fam"], not r["whole"], r["sched"]))
    ref = {}
    for k, r in enumerate(rows):
        if r["whole"]:
            ref[tuple(r["fam"])] = k + 1
    for k, r in enumerate(rows):
        r["ref"] = ref.get(tuple(r["fam"]), k + 1)
    return rows


def judge(ctx, rows, invariants):
    """Writes the rows into shards (families kept together, refs re-based) and lets TLC judge them."""
    shards, cur, curfam = [], [], None
    target = max(1, len(rows) // vlib.NCPU)
    for r in rows:
        if len(cur) >= target and tuple(r["fam"]) != curfam:
            shards.append(cur); cur = []
        cur.append(r); curfam = tuple(r["fam"])
    if cur:
        shards.append(cur)
    files = []
    for si, sh in enumerate(shards):
        base = {}
        for k, r in enumerate(sh):
            if r["whole"]:
                base[tuple(r["fam"])] = k + 1
        f = ctx.path("wrows_%d.ndjson" % si)
        with open(f, "w") as fo:
            for k, r in enumerate(sh):
                rr = dict(r); rr["ref"] = base.get(tuple(r["fam"]), k + 1); del rr["fam"]; del rr["whole"]
                fo.write(json.dumps(rr) + "\n")
        files.append(f)
    cfgp = ctx.path("wirejudge.cfg")
    open(cfgp, "w").write("INIT RInitW\nNEXT RNext\nINVARIANTS %s\nCHECK_DEADLOCK FALSE\n" % " ".join(invariants))
    bad, total, distinct = [], 0, 0
    import re, sys

    def one(f):
        return vlib.run_tlc(ctx, "HtpWireJudge", cfgp, env={"ROWS": f}, workers=1, timeout=2500, xmx="5g", cont=True, name="wj_" + os.path.basename(f))
    res = vlib.pmap(one, files)
    for f, r in zip(files, res):
        if r.error:
            sys.stdout.write(r.out[-3000:]); raise vlib.Infra("HtpWireJudge failed on %s: %s" % (f, r.error))
        for ln in r.printed:
            m = re.match(r'<<"CENSUS", (\d+), (\d+)>>', ln)
            if m:
                total += int(m.group(1)); distinct += int(m.group(2))
        lines = None
        for inv, k in re.findall(r"Invariant (\w+) is violated by the initial state:\s*\n(?:/\\ )?k = (\d+)", r.out):
            if lines is None:
                lines = open(f).read().splitlines()
            row = json.loads(lines[int(k) - 1])
            bad.append({"clause": inv, "run": row["run"], "what": "%s violated by %s" % (inv, row["run"]), "row_i": row["i"], "row_n": row["n"], "sched": row["sched"], "sites": []})
    return total, distinct, bad


def attach_sites(ctx, bad, files):
    """Trace points seen in the offending execution (for Invariance: those absent from the whole-delivery run of the family)."""
    tps = {}
    run = None
    for f in files:
        for ln in open(f):
            if ln.startswith('{"e":"Reset"'):
                run = json.loads(ln)["run"]; tps[run] = set()
            elif ln.startswith('{"e":"TP"'):
                tps[run].add(json.loads(ln)["id"])
    unfaithful = {v["run"] for v in bad if v["clause"] == "Fidelity"}
    for v in bad:
        mine = tps.get(v["run"], set())
        wname = v["run"].rsplit(".", 1)[0] + ".whole"
        whole = tps.get(wname, set())
        if v["clause"] == "Invariance":
            # sites seen only in the differing run; when the whole-delivery reference is itself not faithful (a finding already hit it),
            # the sites of the reference taint the comparison as well
            v["sites"] = sorted((mine - whole) | (whole if wname in unfaithful else set()))
        else:
            v["sites"] = sorted(mine)
