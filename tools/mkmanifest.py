#!/usr/bin/env python3
"""Regenerates MANIFEST.json from the table below (kept in one place so it stays valid)."""
import json, os, subprocess
V = os.path.dirname(os.path.dirname(os.path.abspath(__file__)))
props = [json.loads(l) for l in open(os.path.join(V, "properties.jsonl"))]
CHECKS = {}
def C(pid, cat, text, note, tech, ref):
    CHECKS[pid] = dict(category=cat, text=text, note=note, technique=tech, ref=ref)
exec(open(os.path.join(V, "tools", "manifest_table.py")).read())
hooks = subprocess.run(["git", "-C", "/repo", "log", "--format=%H %s"], capture_output=True, text=True).stdout.splitlines()
hook_commits = [l.split()[0] for l in hooks if l.split(" ", 1)[1].startswith("verif:")]
m = {"version": 1, "setup_cmd": "./check setup",
     "hooks": {"guard": "HTP_VERIF",
               "enable": "harness/Makefile compiles /repo/htp/*.c and htp/lzma/*.c itself with -DHTP_VERIF (plus the sanitizer / allocator-wrapper / coverage flags of the flavour) into /verif/.work/<id>.<pid>/; the autotools build is not used",
               "baseline_off_cmd": "make -C /repo -j8 && make -C /repo check",
               "source_commits": hook_commits, "add_only": True},
     "engines": ENGINES, "checks": [], "not_applicable": [], "notes": NOTES}
for p in props:
    i = p["id"]
    if i in CHECKS:
        c = CHECKS[i]
        m["checks"].append({"property_id": i, "quick_cmd": "./check %s quick" % i, "thorough_cmd": "./check %s thorough" % i,
                            "evidence_file": "evidence/%s.json" % i, "replay_cmd_template": "./check %s --replay {path}" % i,
                            "engine": "check", "level_claimed": {"category": c["category"], "text": c["text"], "design_ref": c["ref"]},
                            "level_note": c["note"], "technique": c["technique"]})
    else:
        m["not_applicable"].append({"property_id": i, "reason": NA.get(i, "check not built yet in this revision of /verif (planned in DESIGN.md section 5); not claimed until it runs")})
json.dump(m, open(os.path.join(V, "MANIFEST.json"), "w"), indent=1)
print("checks:", [c["property_id"] for c in m["checks"]], "n/a:", [c["property_id"] for c in m["not_applicable"]])
