----------------------------- MODULE HtpDriver -----------------------------
(* C09, progress half: a caller that follows the documented hand-over protocol (docs/QUICK_START 2.2, the driver of harness/rec.c) composed
   with the code-shaped parser model of HtpParser.tla.  The network delivers QUnits request and SUnits response units in arbitrary pieces and
   in any interleaving; the caller holds what has arrived and not been consumed (rem), offers a direction that is not blocked, keeps the
   unconsumed tail after DATA_OTHER and blocks that direction until the other one has been called (a blocked response side is released
   when no request data is pending, 2.2.7).  Any other return value means the chunk is gone.
   Progress (liveness, checked by TLC under weak fairness): once the network has delivered everything, at least one side is drained -
   there is no endless DATA_OTHER ping-pong while unconsumed data remains on both sides.
   HtpParser runs in liveness mode (MaxCalls < 0: no call counter, observers off), so the state space is finite without bounding behaviours. *)
EXTENDS HtpParser
CONSTANTS QUnits, SUnits
VARIABLES net, rem, blk, offered
drv == <<net, rem, blk, offered>>
dvars == <<vars, net, rem, blk, offered>>

NoCallBound == 0 - 1                 \* for the cfg: MaxCalls <- NoCallBound
Other(d) == IF d = "req" THEN "res" ELSE "req"
MinOf(a, b) == IF a < b THEN a ELSE b
DInit == /\ Init /\ net = [req |-> QUnits, res |-> SUnits] /\ rem = [req |-> 0, res |-> 0]
         /\ blk = [req |-> FALSE, res |-> FALSE] /\ offered = 0

Arrive(d) == /\ cur = "none" /\ net[d] > 0
             /\ \E k \in 1..net[d] : net' = [net EXCEPT ![d] = @ - k] /\ rem' = [rem EXCEPT ![d] = @ + k]
             /\ UNCHANGED <<vars, blk, offered>>
\* 2.2.7: a response side blocked by DATA_OTHER is released when the caller has no request data to offer
Blocked(d) == IF d = "res" THEN blk.res /\ rem.req > 0 ELSE blk.req
Offer(d) == /\ cur = "none" /\ rem[d] > 0 /\ ~Blocked(d)
            /\ \E n \in 1..MinOf(rem[d], MaxAvail) : DataEnter(d, n, FALSE) /\ offered' = n
            /\ blk' = [blk EXCEPT ![Other(d)] = FALSE, ![d] = FALSE]
            /\ UNCHANGED <<net, rem, l>>
Internal == /\ (StepBegin \/ (\E nm \in AllHooks : CbStep(nm)) \/ CbsDone \/ RetStep)
            /\ UNCHANGED <<drv, l>>
\* the call returns: DATA_OTHER keeps the unconsumed tail and blocks the direction, anything else uses the chunk up
DrvEnd == /\ prog # <<>> /\ Head(prog).op = "endcall" /\ EndCallStep
          /\ LET rc == Head(prog).v  d == cur IN
             /\ rem' = [rem EXCEPT ![d] = @ - (IF rc = "DATA_OTHER" THEN MinOf(P.used, offered) ELSE offered)]
             /\ blk' = [blk EXCEPT ![d] = (rc = "DATA_OTHER")]
          /\ offered' = 0 /\ UNCHANGED <<net, l>>
Caller == (\E d \in {"req", "res"} : Offer(d)) \/ Internal \/ DrvEnd
DNext == (\E d \in {"req", "res"} : Arrive(d)) \/ Caller
DSpec == DInit /\ [][DNext]_dvars
FairDSpec == DSpec /\ WF_dvars(Arrive("req")) /\ WF_dvars(Arrive("res")) /\ WF_dvars(Caller)

Drained == cur = "none" /\ net.req = 0 /\ net.res = 0 /\ (rem.req = 0 \/ rem.res = 0)
CallerProgress == <>Drained
\* safety companions: the caller never holds a negative amount; a call that reports DATA consumed the chunk
DrvTypeOK == rem.req >= 0 /\ rem.res >= 0 /\ net.req >= 0 /\ net.res >= 0 /\ offered \in 0..MaxAvail
=============================================================================
