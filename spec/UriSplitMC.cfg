CONSTANTS Alphabet = {97, 58, 47, 64, 63, 35, 91, 93, 46, 48, 57, 32}  MaxLen = 3
 Prefixes <- Pfx
INIT Init
NEXT Next
INVARIANTS RejoinOK SlashMeansNoAuthority PortRange
CHECK_DEADLOCK FALSE
