CONSTANTS MaxDots = 11  MaxAtoms = 4
INIT Init
NEXT Next
INVARIANTS DotsOK PipelineOK
CHECK_DEADLOCK FALSE
