---------------------------- MODULE FramingFlags ----------------------------
(* C11 - framing and host ambiguity indicators as implications  trigger => indicator  over an abstract feature vector of a request:
     te  : Transfer-Encoding   absent | chunked | CHUNKED | gzip_chunked ("gzip, chunked") | rep (two fields: gzip, then chunked) | identity | junk
     cl  : Content-Length      absent | valid | two_equal | two_diff | folded | unparse | empty
     ver : "1.0" | "1.1"
     host: Host field          absent | equal | diff | diffport | invalid | empty         (relative to the URI authority when there is one)
     uri : request target      origin (no authority) | abs (authority www.example.com:8080) | abs_invalid (authority with an invalid host)
     pad : TRUE when the trigger fields are preceded by more repeated fields than the repetition cap (64)
   Required(v) is the set of indicators that must be raised, Coding(v) the required body framing ("any" = not constrained);
   Quiet(v): a vector without any trigger must raise none of the eight indicators.                                              *)
EXTENDS Integers, Sequences, FiniteSets, TLC

TEs == {"absent", "chunked", "CHUNKED", "gzip_chunked", "rep", "identity", "junk"}
CLs == {"absent", "valid", "two_equal", "two_diff", "folded", "unparse", "empty"}
Vers == {"1.0", "1.1"}
Hosts == {"absent", "equal", "diff", "diffport", "invalid", "empty"}
Uris == {"origin", "abs", "abs_invalid"}
Vectors == [te : TEs, cl : CLs, ver : Vers, host : Hosts, uri : Uris, pad : BOOLEAN]
Eight == {"REQUEST_SMUGGLING", "REQUEST_INVALID_T_E", "REQUEST_INVALID", "REQUEST_INVALID_C_L", "HOST_AMBIGUOUS", "HOST_MISSING", "HOSTH_INVALID", "HOSTU_INVALID"}

Chunked(v) == v.te \in {"chunked", "CHUNKED", "gzip_chunked", "rep"}
Required(v) ==
  (IF Chunked(v) /\ v.cl # "absent" THEN {"REQUEST_SMUGGLING"} ELSE {})
  \cup (IF v.te = "absent" /\ v.cl \in {"two_equal", "two_diff"} THEN {"REQUEST_SMUGGLING"} ELSE {})
  \cup (IF v.te = "absent" /\ v.cl = "folded" THEN {"REQUEST_SMUGGLING"} ELSE {})
  \cup (IF Chunked(v) /\ v.ver = "1.0" THEN {"REQUEST_SMUGGLING", "REQUEST_INVALID_T_E"} ELSE {})
  \cup (IF v.te \in {"identity", "junk"} THEN {"REQUEST_INVALID_T_E", "REQUEST_INVALID"} ELSE {})
  \cup (IF v.te = "absent" /\ v.cl \in {"unparse", "empty"} THEN {"REQUEST_INVALID_C_L", "REQUEST_INVALID"} ELSE {})
  \cup (IF v.uri = "abs" /\ v.host \in {"diff", "diffport"} THEN {"HOST_AMBIGUOUS"} ELSE {})
  \cup (IF v.ver = "1.1" /\ v.host = "absent" THEN {"HOST_MISSING"} ELSE {})
  \cup (IF v.host = "invalid" THEN {"HOSTH_INVALID"} ELSE {})
  \cup (IF v.uri = "abs_invalid" THEN {"HOSTU_INVALID"} ELSE {})
Coding(v) == IF Chunked(v) THEN "CHUNKED"
             ELSE IF v.te \in {"identity", "junk"} THEN "INVALID"
             ELSE IF v.cl \in {"unparse", "empty"} THEN "INVALID"
             ELSE IF v.cl \in {"valid", "two_equal", "two_diff", "folded"} THEN "IDENTITY"
             ELSE "NO_BODY"
\* a vector that contains no trigger at all
Quiet(v) == v.te \in {"absent", "chunked", "CHUNKED", "gzip_chunked", "rep"} /\ (Chunked(v) => v.cl = "absent" /\ v.ver = "1.1")
            /\ (~Chunked(v) => v.cl \in {"absent", "valid"})
            /\ v.host = "equal" /\ v.uri \in {"origin", "abs"}
\* lattice sanity, checked by TLC on the module itself: chunked wins over C-L; indicators are monotone in the triggers
ChunkedWins == \A v \in Vectors : Chunked(v) => Coding(v) = "CHUNKED"
QuietIsQuiet == \A v \in Vectors : Quiet(v) => Required(v) = {}
=============================================================================
