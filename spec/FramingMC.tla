------------------------------ MODULE FramingMC ------------------------------
(* Model checking Framing.tla: for every wire text over the alphabet up to MaxLen and every chunking, the streaming
   de-chunker delivers exactly the reference body whenever the reference accepts the text. *)
EXTENDS Framing
CONSTANTS Alphabet, MaxLen
VARIABLES wire, rest, c
vars == <<wire, rest, c>>
RECURSIVE SeqsUpTo(_)
SeqsUpTo(n) == IF n = 0 THEN {<<>>} ELSE LET S == SeqsUpTo(n - 1) IN S \cup {Append(s, a) : s \in {t \in S : Len(t) = n - 1}, a \in Alphabet}
Init == wire \in SeqsUpTo(MaxLen) /\ rest = wire /\ c = InitC
Feed == /\ rest # <<>>
        /\ \E n \in 1..Len(rest) : c' = FeedC(c, SubSeq(rest, 1, n), 1) /\ rest' = SubSeq(rest, n + 1, Len(rest))
        /\ UNCHANGED wire
Spec == Init /\ [][Feed]_vars
StreamEqualsRef == rest = <<>> => LET r == DeChunk(wire) IN (r.ok => c.done /\ c.body = r.body) /\ (c.done => r.ok /\ c.body = r.body)
BodyIsSubsequence == Len(c.body) <= Len(wire)
=============================================================================
