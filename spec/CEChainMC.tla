----------------------------- MODULE CEChainMC -----------------------------
(* C07 on the specification: for every list of up to MaxTokens coding names, either separator and all limits in the bound
   - no more decompressors are put on the body than the layer limit allows, and no more active LZMA ones than the LZMA limit;
   - when no limit interferes the chain removes every layer the sender applied, in the right order (Faithful): this is the
     clause that fails for FixD35 = FALSE, e.g. "gzip, lzma";
   - the chain never removes a layer the sender did not announce (the residual is a suffix of the stack). *)
EXTENDS CEChain, TLC
CONSTANTS MaxTokens, MaxLimit
Pool == <<N_gzip, N_x_gzip, N_deflate, N_x_deflate, N_lzma, N_inflate, N_none, N_identity, N_GZIP, N_br>>
Seps == << <<COMMA>>, <<COMMA, SPC>> >>
VARIABLES names, sep, ll, zl
vars == <<names, sep, ll, zl>>
RECURSIVE Lists(_)
Lists(n) == IF n = 0 THEN {<<>>} ELSE LET S == Lists(n - 1) IN S \cup {Append(s, Pool[k]) : s \in {t \in S : Len(t) = n - 1}, k \in 1..Len(Pool)}
Init == names \in (Lists(MaxTokens) \ {<<>>}) /\ sep \in {1, 2} /\ ll \in 0..MaxLimit /\ zl \in 0..MaxLimit
Next == UNCHANGED vars
value == Join(names, Seps[sep])
chain == Chain(value, ll, zl, TRUE)
out == Outcome(names, Seps[sep], ll, zl)
LayersBounded == /\ (ll # 0 /\ Len(names) > 1 => Len(chain) <= ll)
                 /\ Cardinality({i \in 1..Len(chain) : chain[i].type = "lzma" /\ chain[i].active}) <= zl
\* no limit interferes: every token is reached and every lzma token passes the LZMA check.  The loop's position arithmetic
\* inserts a pseudo token after every second real one when the separator is ", " (see CEChain!Loop), so the iteration number
\* of the k-th name is k + (k - 1) \div 2 there.
IterOf(k) == IF sep = 2 THEN k + ((k - 1) \div 2) ELSE k
Unlimited == /\ (ll = 0 \/ Len(names) = 1 \/ IterOf(Len(names)) <= ll)
             /\ \A k \in 1..Len(names) : names[k] = N_lzma => (IF Len(names) = 1 THEN zl > 0 ELSE IterOf(k) <= zl)
Faithful == Unlimited => out.residual = <<>> /\ ~out.mismatch
NothingUnannounced == LET s == Stack(names) r == out.residual IN Len(r) <= Len(s) /\ r = SubSeq(s, Len(s) - Len(r) + 1, Len(s))
=============================================================================
