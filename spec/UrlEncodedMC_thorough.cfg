CONSTANTS Alphabet = {97, 61, 38, 37, 43, 49, 0}  MaxLen = 6
SPECIFICATION Spec
INVARIANTS StreamEqualsRef RefShape XConservative
CHECK_DEADLOCK FALSE
