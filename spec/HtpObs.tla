------------------------------- MODULE HtpObs -------------------------------
(* Observers (monitors) for the stream-level properties.  An observer sees PUBLIC events only - API calls and their
   returns, callbacks with the publicly readable progress fields, trace points (used for attribution only), the
   end-of-run record - and accumulates named clause violations.  The same operators are used twice:
     - spec/HtpObsTrace.tla feeds them the events recorded from the real library (harness/rec.c), and
     - spec/HtpParser.tla feeds them the events emitted by the code-shaped model, so that TLC checks the clauses
       exhaustively on the bounded model.
   Clause names are prefixed with the property they decide: C01 C04 C05 C06 C09 C10 C16.                        *)
EXTENDS Integers, Sequences, FiniteSets, TLC

NOTSTARTED == 0  LINE == 1  HEADERS == 2  BODY == 3  TRAILER == 4  COMPLETE == 5
FOLDED_CAP == 102400
M_CONNECT == 6            \* enum htp_method_t: HEAD 1, GET 2, PUT 3, POST 4, DELETE 5, CONNECT 6 ...
TC_IDENTITY == 2          \* enum htp_transfer_coding_t
CE_NONE == 1              \* enum htp_content_encoding_t

ReqHooks == {"request_start", "request_uri_normalize", "request_line", "request_header_data", "request_headers",
             "request_body_data", "request_file_data", "tx_request_body_data", "request_trailer_data",
             "request_trailer", "request_complete"}
ResHooks == {"response_start", "response_line", "response_header_data", "response_headers", "response_body_data",
             "tx_response_body_data", "response_trailer_data", "response_trailer", "response_complete"}
BodyHooks == {"request_body_data", "response_body_data", "tx_request_body_data", "tx_response_body_data"}
Side(n) == IF n \in ReqHooks THEN "q" ELSE IF n \in ResHooks THEN "s" ELSE "t"
Rank(n) == CASE n \in {"request_start", "response_start"} -> 0
             [] n \in {"request_uri_normalize", "request_line", "response_line"} -> 1
             [] n \in {"request_header_data", "request_headers", "response_header_data", "response_headers"} -> 2
             [] n \in {"request_body_data", "response_body_data", "tx_request_body_data", "tx_response_body_data",
                       "request_file_data"} -> 3
             [] n \in {"request_trailer_data", "request_trailer", "response_trailer_data", "response_trailer"} -> 4
             [] n \in {"request_complete", "response_complete"} -> 6
             [] OTHER -> 7

NewTx == [q |-> -1, s |-> -1, qc |-> 0, sc |-> 0, tc |-> 0, c100 |-> 0, c100line |-> 0, rp |-> 0, sp |-> 0,
          qcompleting |-> FALSE, scompleting |-> FALSE, qmark |-> 0, smark |-> 0, qdata |-> FALSE, sdata |-> FALSE,
          sites |-> {}, destroyed |-> FALSE, connect |-> FALSE, resseen |-> FALSE, qstartpos |-> 0, sstartpos |-> 0]

ObsInit == [cfg |-> [autod |-> FALSE, maxtx |-> 0, hard |-> 18000, mode |-> "proto", wf |-> FALSE, ids |-> FALSE, pumpdir |-> "none", pumpstart |-> 0, role |-> "", idx |-> 0, fam |-> "", bomb |-> 1048576, n |-> -1, cls |-> "", failat |-> -1],
            run |-> "", txs |-> <<>>, viol |-> {}, gsites |-> {}, pos |-> 0,
            call |-> [d |-> "none", k |-> "", len |-> 0, off |-> 0], cbs |-> 0, opened |-> FALSE,
            lastrc |-> [req |-> "none", res |-> "none"], counter |-> [req |-> 0, res |-> 0], counters_known |-> TRUE,
            tunnel |-> [req |-> FALSE, res |-> FALSE], bothtunnel |-> FALSE, ntx |-> 0, zero |-> 0,
            waitconnect |-> -1, waitarmed |-> FALSE, txcorder |-> <<>>, closed |-> FALSE, faulted |-> FALSE,
            steady |-> [k |-> 0, base |-> 0, baseb |-> 0], ended |-> FALSE]

RECURSIVE Pad(_, _)
Pad(s, n) == IF Len(s) >= n THEN s ELSE Pad(Append(s, NewTx), n)
TxOf(o, i) == IF i >= 0 /\ i + 1 <= Len(o.txs) THEN o.txs[i + 1] ELSE NewTx
WithTx(o, i, t) == IF i < 0 THEN o ELSE [o EXCEPT !.txs = [Pad(@, i + 1) EXCEPT ![i + 1] = t]]
V(c, d, tx) == [c |-> c, d |-> d, tx |-> tx]
Add(o, vs) == [o EXCEPT !.viol = @ \cup vs]

(* ------------------------------------------------------------------ callbacks: C05 lifecycle, C06 accounting *)
ObsCb(o, ev) ==
  LET i == ev.tx
      n == ev.n
      t0 == TxOf(o, i)
      sd == Side(n)
      \* documented restart after an interim 100 (seen_100continue incremented): the reported response progress may drop
      \* back to LINE, and the next RESPONSE_LINE callback starts the response-side phases again
      drop == ev.c100 > t0.c100
      relin == n = "response_line" /\ ev.c100 > t0.c100line
      ta == IF drop THEN [t0 EXCEPT !.sp = IF ev.sp < @ THEN ev.sp ELSE @, !.c100 = ev.c100] ELSE t0
      t == IF relin THEN [ta EXCEPT !.s = 0, !.c100line = ev.c100, !.smark = 0, !.sdata = FALSE] ELSE ta
      r == Rank(n)
      \* the end-of-body marker is (NULL, 0); NULL data with a length is a stream gap inside the body and counts as body data
      mk == ev.nul /\ ev.len = 0
      marker == n \in BodyHooks /\ mk
      completing == IF sd = "q" THEN t.qcompleting ELSE t.scompleting
      flush == n \in BodyHooks /\ completing /\ ~mk
      ph == IF sd = "q" THEN t.q ELSE t.s
      \* (htp_connp_close re-opens a direction that reported STOP - see vStop in ObsRet - so after a close only ERROR is sticky)
      sticky == o.call.d \in {"req", "res"} /\ (o.lastrc[o.call.d] = "ERROR" \/ (o.lastrc[o.call.d] = "STOP" /\ ~o.closed))
      vOrder == IF sd \in {"q", "s"} /\ n \notin {"request_file_data"} /\
                   (IF marker \/ flush THEN ph >= 6 ELSE r < ph)
                THEN {V("C05:Order", n, i)} ELSE {}
      vProg == (IF ev.rp < t.rp THEN {V("C05:ProgressMonotone", "request_progress", i)} ELSE {})
               \cup (IF ev.sp < t.sp THEN {V("C05:ProgressMonotone", "response_progress", i)} ELSE {})
      vOnce == IF (n = "request_complete" /\ t.qc > 0) \/ (n = "response_complete" /\ t.sc > 0) \/ (n = "transaction_complete" /\ t.tc > 0)
               THEN {V("C05:CompleteAtMostOnce", n, i)} ELSE {}
      vBoth == IF n = "transaction_complete" /\ ~(ev.rp = COMPLETE /\ ev.sp = COMPLETE) THEN {V("C05:TxCompleteOnlyWhenBoth", n, i)} ELSE {}
      vAfterTx == IF t.tc > 0 /\ n # "transaction_complete" THEN {V("C05:NothingAfterTxComplete", n, i)} ELSE {}
      vDead == IF t.destroyed THEN {V("C05:CallbackTxIsLive", n, i)} ELSE {}
      \* htp_connp_close runs both directions once more: a direction that has reported ERROR stays failed there too and runs no parsing callbacks
      \* (a direction that reported STOP is re-opened by the close - the weaker reading recorded in DESIGN.md 3.2 - so only ERROR is judged here)
      closeSticky == o.call.k = "close" /\ ((sd = "q" /\ o.lastrc.req = "ERROR") \/ (sd = "s" /\ o.lastrc.res = "ERROR"))
      vSticky == IF (sticky /\ sd \in {"q", "s", "t"}) \/ closeSticky THEN {V("C09:NoCallbacksWhenSticky", n, i)} ELSE {}
      \* once a direction has reported TUNNEL no callback of that direction runs in a later DATA call (htp_connp_close
      \* still completes the open transaction: the weaker reading, see DESIGN.md 3.2)
      vTunnel == IF o.call.k # "close" /\ ((sd = "q" /\ o.tunnel.req) \/ (sd = "s" /\ o.tunnel.res)) THEN {V("C16:TunnelQuiet", n, i)} ELSE {}
      \* C16: while a CONNECT is waiting for its answer no request-side callback of a LATER transaction may run
      \* (callbacks of the CONNECT transaction itself - e.g. its completion at close - are not consumption beyond that request)
      vSuspend == IF sd = "q" /\ o.waitconnect >= 0 /\ i # o.waitconnect THEN {V("C16:ConnectSuspends", n, i)} ELSE {}
      \* C06 at completion: entity length = bytes delivered; identity + no content coding => message length = entity length
      isq == n = "request_complete"
      iss == n = "response_complete"
      vAcc == (IF (isq \/ iss) /\ ev.dl >= 0 /\ ev.el # ev.dl THEN {V("C06:EntityLenIsDelivered", n, i)} ELSE {})
              \cup (IF (isq \/ iss) /\ ev.wl >= 0 /\ ev.ml # ev.wl THEN {V("C06:MessageLenIsWire", n, i)} ELSE {})
              \cup (IF (isq \/ iss) /\ ev.xl >= 0 /\ ev.dl # ev.xl THEN {V("C06:DeliveredIsBody", "length", i)} ELSE {})
              \cup (IF isq /\ t.qdata /\ t.qmark = 0 THEN {V("C06:MarkerBeforeComplete", n, i)} ELSE {})
              \cup (IF iss /\ t.sdata /\ t.smark = 0 THEN {V("C06:MarkerBeforeComplete", n, i)} ELSE {})
      \* C04 pairing by planted ids, judged when the transaction completes (it may be destroyed right afterwards)
      vPair == IF n = "transaction_complete" /\ o.cfg.wf /\ o.cfg.ids /\ ~o.faulted /\
                  ~(ev.uri = <<"/r" \o ToString(i)>> /\ ev.xid = <<ToString(i)>>)
               THEN {V("C04:Paired", "ids", i)} ELSE {}
      \* C07: decompressed bytes delivered for one message never exceed max(bomb limit, 2048 x compressed length) by more than one output buffer
      Max2(a, b) == IF a > b THEN a ELSE b
      vBomb == IF (isq \/ iss) /\ ev.ml < 1000000 /\ ev.el > Max2(o.cfg.bomb, 2048 * ev.ml) + 8192 THEN {V("C07:BombBound", n, i)} ELSE {}
      vBody == IF n \in {"request_body_data", "response_body_data"} /\ ~ev.nul /\ ~ev.m THEN {V("C06:DeliveredIsBody", n, i)} ELSE {}
      t1 == [t EXCEPT !.q = IF sd = "q" /\ ~marker /\ ~flush /\ n # "request_file_data" /\ r > @ THEN r ELSE @,
                      !.s = IF sd = "s" /\ ~marker /\ ~flush /\ r > @ THEN r ELSE @,
                      !.qc = IF n = "request_complete" THEN @ + 1 ELSE @,
                      !.sc = IF n = "response_complete" THEN @ + 1 ELSE @,
                      !.tc = IF n = "transaction_complete" THEN @ + 1 ELSE @,
                      !.rp = IF ev.rp > @ THEN ev.rp ELSE @, !.sp = IF ev.sp > @ THEN ev.sp ELSE @,
                      !.qmark = IF n = "request_body_data" /\ mk THEN @ + 1 ELSE @,
                      !.smark = IF n = "response_body_data" /\ mk THEN @ + 1 ELSE @,
                      !.qdata = @ \/ (n = "request_body_data" /\ ~mk /\ ev.len > 0),
                      !.sdata = @ \/ (n = "response_body_data" /\ ~mk /\ ev.len > 0),
                      !.connect = @ \/ (n = "request_line" /\ ev.mn = M_CONNECT),
                      !.resseen = @ \/ (n = "response_line") \/ ev.sp > LINE,
                      !.destroyed = @ \/ (ev.act = "destroy") \/ (n = "transaction_complete" /\ o.cfg.autod /\ ev.ret = "OK"),
                      !.qstartpos = IF n = "request_start" THEN o.pos ELSE @,
                      !.sstartpos = IF n = "response_start" THEN o.pos ELSE @]
      \* a CONNECT whose request headers are done and whose response line has not been seen suspends the request side
      wc == IF n = "request_headers" /\ t1.connect /\ ~t1.resseen THEN i
            ELSE IF i = o.waitconnect /\ (n = "response_line" \/ ev.sp > LINE) THEN -1 ELSE o.waitconnect
      o1 == WithTx(o, i, t1)
  IN [Add(o1, vOrder \cup vProg \cup vOnce \cup vBoth \cup vAfterTx \cup vDead \cup vSticky \cup vTunnel \cup vSuspend \cup vAcc \cup vBody \cup vPair \cup vBomb)
        EXCEPT !.cbs = @ + 1, !.waitconnect = wc, !.waitarmed = (@ /\ wc >= 0),
               !.txcorder = IF n = "transaction_complete" THEN Append(@, i) ELSE @]

ObsTP(o, ev) ==
  IF ev.tx < 0 THEN [o EXCEPT !.gsites = @ \cup {ev.id}]
  ELSE LET t == TxOf(o, ev.tx) IN
       WithTx(o, ev.tx, [t EXCEPT !.sites = @ \cup {ev.id},
                                  !.qcompleting = @ \/ ev.id = "req_completing",
                                  !.scompleting = @ \/ ev.id = "res_completing"])

(* ------------------------------------------------------------------ API calls: C09 contract, C10 limits, C16 tunnel *)
ObsCall(o, ev) ==
  LET v == IF o.call.d # "none" THEN {V("C01:EveryCallReturns", o.call.d, -1)} ELSE {}
  IN [Add(o, v) EXCEPT !.call = [d |-> ev.d, k |-> ev.k, len |-> ev.len, off |-> ev.off], !.cbs = 0]

Documented == {"DATA", "DATA_OTHER", "ERROR", "STOP", "TUNNEL", "CLOSED"}

ObsRet(o, ev) ==
  LET c == o.call
      d == ev.d
      data == d \in {"req", "res"}
      prev == IF data THEN o.lastrc[d] ELSE "none"
      cnt == IF d = "req" THEN ev.inc ELSE ev.outc
      old == IF data THEN o.counter[d] ELSE 0
      buf == IF d = "req" THEN ev.ibuf ELSE ev.obuf
      vCall == IF c.d # d THEN {V("C01:EveryCallReturns", "ret-without-call", -1)} ELSE {}
      vDoc == IF data /\ ev.rc \notin Documented THEN {V("C09:RetDocumented", ev.rc, -1)} ELSE {}
      vAll == IF data /\ ev.rc = "DATA" /\ ev.consumed # c.len THEN {V("C09:DataMeansAll", d, -1)} ELSE {}
      vLess == IF data /\ ev.rc = "DATA_OTHER" /\ ~(ev.consumed < c.len) THEN {V("C09:OtherMeansLess", d, -1)} ELSE {}
      vCons == IF data /\ ev.rc \in {"DATA", "DATA_OTHER"} /\ (ev.consumed < 0 \/ ev.consumed > c.len) THEN {V("C09:ConsumedWithinLen", d, -1)} ELSE {}
      vCnt == IF data /\ o.counters_known /\ ~o.faulted /\
                 (IF prev \in {"STOP", "ERROR"} \/ ev.rc \in {"ERROR", "STOP", "CLOSED"} THEN cnt \notin {old, old + c.len} ELSE cnt # old + c.len)
              THEN {V("C09:CountersMatch", d, -1)} ELSE {}
      vStop == IF data /\ prev = "STOP" /\ ev.rc # "STOP" /\ ~o.closed THEN {V("C09:StickyStop", ev.rc, -1)} ELSE {}
      vErr == IF data /\ prev = "ERROR" /\ ev.rc # "ERROR" THEN {V("C09:StickyError", ev.rc, -1)} ELSE {}
      vTun == IF data /\ o.tunnel[d] /\ ev.rc # "TUNNEL" /\ ~o.closed THEN {V("C16:TunnelSticky", d, -1)} ELSE {}
      vNtx == (IF o.tunnel.req /\ o.tunnel.res /\ ev.ntx > o.ntx THEN {V("C16:TunnelQuiet", "new-transaction", -1)} ELSE {})
              \cup (IF o.cfg.maxtx > 0 /\ ev.ntx > o.cfg.maxtx + 1 THEN {V("C10:TxCount", "ntx", -1)} ELSE {})
      vBuf == (IF ev.ibuf > o.cfg.hard \/ ev.obuf > o.cfg.hard THEN {V("C10:BufferedWithinHard", d, -1)} ELSE {})
              \cup (IF ev.ihdr > FOLDED_CAP + o.cfg.hard \/ ev.ohdr > FOLDED_CAP + o.cfg.hard THEN {V("C10:HeaderCaps", d, -1)} ELSE {})
      \* C16: while a CONNECT waits for its answer, a request call consumes nothing
      vWait == IF d = "req" /\ c.k = "data" /\ o.waitarmed /\ o.waitconnect >= 0 /\ ev.consumed > 0
               THEN {V("C16:ConnectSuspends", "consumed", o.waitconnect)} ELSE {}
      \* C10 pump scenarios: an unterminated line starts at stream offset pumpstart of direction pumpdir; what has to be retained
      \* at the end of this call is everything offered since then.  Over the hard limit => ERROR; otherwise not truncated.
      need == c.off + c.len - o.cfg.pumpstart
      pump == data /\ d = o.cfg.pumpdir /\ need > 0 /\ prev \notin {"ERROR", "STOP"}
      vOver == IF pump /\ need > o.cfg.hard /\ ev.rc # "ERROR" THEN {V("C10:OverLimitIsError", d, -1)} ELSE {}
      vTrunc == IF pump /\ ev.rc = "DATA" /\ buf # need THEN {V("C10:NotSilentlyTruncated", d, -1)} ELSE {}
      \* C10 steady state: after each complete transaction (nothing in progress) the live heap does not exceed the 8th sample
      \* ... "after each complete transaction": a sample is taken when no transaction is in progress on either side AND every transaction that was
      \* started has completed (under pipelining younger requests may be listed, complete on the request side and still unanswered)
      alldone == \A j \in 1..Len(o.txs) : o.txs[j].tc > 0 \/ (o.txs[j].q = -1 /\ o.txs[j].s = -1)
      samp == o.cfg.cls = "steady" /\ d = "res" /\ ev.in_tx = -1 /\ ev.out_tx = -1 /\ alldone
      st1 == IF samp THEN [k |-> o.steady.k + 1, base |-> IF o.steady.k + 1 = 8 THEN ev.live ELSE o.steady.base,
                           baseb |-> IF o.steady.k + 1 = 8 THEN ev.liveb ELSE o.steady.baseb] ELSE o.steady
      vSteady == IF samp /\ o.steady.k >= 8 /\ (ev.live > o.steady.base \/ ev.liveb > o.steady.baseb)
                 THEN {V("C10:SteadyState", "live-heap-grows", -1)} ELSE {}
      zero == IF data /\ ev.rc = "DATA_OTHER" /\ ev.consumed = 0 THEN o.zero + 1 ELSE IF data THEN 0 ELSE o.zero
      vPing == IF zero >= 4 /\ o.cfg.mode = "proto" THEN {V("C09:NoPingPong", d, -1)} ELSE {}
      o1 == IF data THEN [o EXCEPT !.lastrc[d] = ev.rc, !.counter[d] = cnt,
                                   !.tunnel[d] = @ \/ ev.rc = "TUNNEL",
                                   !.bothtunnel = @ \/ (ev.ist = "TUNNEL" /\ ev.ost = "TUNNEL")]
            ELSE [o EXCEPT !.closed = TRUE, !.counter = [req |-> ev.inc, res |-> ev.outc]]
  IN [Add(o1, vCall \cup vDoc \cup vAll \cup vLess \cup vCons \cup vCnt \cup vStop \cup vErr \cup vTun \cup vNtx \cup vBuf \cup vWait \cup vPing \cup vOver \cup vTrunc \cup vSteady)
        EXCEPT !.call = [d |-> "none", k |-> "", len |-> 0, off |-> 0], !.ntx = ev.ntx, !.zero = zero, !.steady = st1,
               !.waitarmed = (o.waitconnect >= 0 /\ (@ \/ d = "req"))]

ObsDestroy(o, ev) == IF ev.done THEN WithTx(o, ev.tx, [TxOf(o, ev.tx) EXCEPT !.destroyed = TRUE]) ELSE o

(* ------------------------------------------------------------------ end of run: C01 teardown, C04 count/order, C09 progress, C16 outcome *)
IsSorted(s) == \A a, b \in 1..Len(s) : a < b => s[a] <= s[b]      \* a repeated completion is C05's business, not C04's
ObsEnd(o, ev) ==
  LET vSan == IF ev.san THEN {V("C01:NoSanitizerReport", ev.what, -1)} ELSE {}
      vRet == IF o.call.d # "none" THEN {V("C01:EveryCallReturns", o.call.d, -1)} ELSE {}
      vLive == IF ev.live # 0 THEN {V("C01:TeardownClean", "live-after-destroy", -1)} ELSE {}
      vStall == IF ev.stall THEN {V("C09:NoPingPong", "stall", -1)} ELSE {}
      wf == o.cfg.wf /\ ~o.faulted
      vN == IF wf /\ o.cfg.n >= 0 /\ Cardinality({o.txcorder[k] : k \in 1..Len(o.txcorder)}) # o.cfg.n THEN {V("C04:CountIsN", "transaction_complete", -1)} ELSE {}
      vNtx == IF wf /\ o.cfg.n >= 0 /\ ev.nser # o.cfg.n THEN {V("C04:CountIsN", "transactions-seen", -1)} ELSE {}
      vOrd == IF wf /\ ~IsSorted(o.txcorder) THEN {V("C04:InArrivalOrder", "transaction_complete", -1)} ELSE {}
      vLeft == IF wf /\ o.cfg.cls # "tunnel" /\ (ev.leftq # 0 \/ ev.lefts # 0) THEN {V("C16:NoByteSkippedOrTwice", "left-unfed", -1)} ELSE {}
      vTun == IF wf /\ o.cfg.cls = "tunnel" /\ ~o.bothtunnel THEN {V("C16:TunnelEntered", "both", -1)} ELSE {}
      \* resumed parsing after a refused CONNECT / an HTTP tunnel payload: every request is parsed exactly once
      vRes == IF wf /\ o.cfg.cls = "resume" /\ o.cfg.n >= 0 /\ (ev.nser # o.cfg.n \/ Cardinality({o.txcorder[k] : k \in 1..Len(o.txcorder)}) # o.cfg.n)
              THEN {V("C16:ResumeParsesEachRequestOnce", "transactions", -1)} ELSE {}
      vNoTun == IF wf /\ o.cfg.cls # "tunnel" /\ (o.tunnel.req \/ o.tunnel.res \/ o.bothtunnel) THEN {V("C16:NoSpuriousTunnel", "tunnel", -1)} ELSE {}
  IN [Add(o, vSan \cup vRet \cup vLive \cup vStall \cup vN \cup vNtx \cup vOrd \cup vLeft \cup vTun \cup vNoTun \cup vRes) EXCEPT !.ended = TRUE]

\* C04 at the end of a well-formed run: the pipelining indicator is set iff some request was started before the
\* response to an earlier request had begun (event positions of request_start / response_start)
ObsFinal(o, ev) ==
  LET n == Len(o.txs)
      pip == \E i \in 1..(n - 1) : o.txs[i + 1].qstartpos > 0 /\ (o.txs[i].sstartpos = 0 \/ o.txs[i + 1].qstartpos < o.txs[i].sstartpos)
      wf == o.cfg.wf /\ ~o.faulted
      v == IF wf /\ ev.pipelined # pip THEN {V("C04:PipelinedIff", IF pip THEN "missing" ELSE "spurious", -1)} ELSE {}
      vPair == IF wf /\ o.cfg.ids /\ ~o.cfg.autod /\ ~ev.light /\ Len(ev.txs) # o.cfg.n THEN {V("C04:CountIsN", "reported", -1)} ELSE {}
      \* C10 caps scenarios (tools/c10.py caps): one-byte values "v" repeated 200 times must stop being combined after the first repeat plus
      \* HTP_MAX_HEADERS_REPETITIONS = 64 more (66 pieces joined with ", " = 196 bytes); a header folded over 130 lines of 1001 bytes must stop
      \* growing once it has reached HTP_MAX_HEADER_FOLDED = 102400 (so it stays below that plus one line)
      vCaps == IF o.cfg.cls = "caps-rep" /\ (ev.maxqv > 196 \/ ev.maxsv > 196) THEN {V("C10:HeaderCaps", "repeated", -1)}
               ELSE IF o.cfg.cls = "caps-fold" /\ (ev.maxqv > 102400 + 1010 \/ ev.maxsv > 102400 + 1010) THEN {V("C10:HeaderCaps", "folded", -1)}
               ELSE {}
  IN Add(o, v \cup vPair \cup vCaps)

ObsReset(ev) == [ObsInit EXCEPT !.cfg = ev.cfg, !.run = ev.run]

ObsStep(o, ev) ==
  LET o0 == [o EXCEPT !.pos = @ + 1] IN
  CASE ev.e = "Cb" -> ObsCb(o0, ev)
    [] ev.e = "Call" -> ObsCall(o0, ev)
    [] ev.e = "Ret" -> ObsRet(o0, ev)
    [] ev.e = "TP" -> ObsTP(o0, ev)
    [] ev.e = "Destroy" -> ObsDestroy(o0, ev)
    [] ev.e = "Final" -> ObsFinal(o0, ev)
    [] ev.e = "End" -> ObsEnd(o0, ev)
    [] ev.e = "Fault" -> [o0 EXCEPT !.faulted = TRUE, !.gsites = @ \cup {"fault:" \o ev.fn}]
    \* C01: a data callback was handed a NULL transaction pointer (htp_tx_data_t.tx is documented as the transaction the data belongs to;
    \* a callback that follows the documentation dereferences it)
    [] ev.e = "NullTx" -> Add(o0, {V("C01:CallbackHasTransaction", ev.n, -1)})
    [] OTHER -> o0

\* what is reported for one execution
Sites(o) == [i \in 1..Len(o.txs) |-> o.txs[i].sites]
=============================================================================
