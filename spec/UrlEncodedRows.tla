---------------------------- MODULE UrlEncodedRows ----------------------------
(* Judges rows recorded from the real urlencoded parser (harness/fn_urlenc.c) against UrlEncoded!RefPairs.
   A row is  [in |-> bytes, mode, plus, via \in {"direct","body","query"}, outs |-> one result per cut position]
   where a result is a sequence of <<name bytes, value bytes>>; cut 0 = whole input, cut k = input[1..k] then the rest. *)
EXTENDS UrlEncoded, Json, IOUtils

Rows == ndJsonDeserialize(IOEnv.ROWS)
VARIABLE k
RInit == k \in 1..Len(Rows)
RNext == UNCHANGED k

Same(e, o) == /\ Len(e) = Len(o)
              /\ \A j \in 1..Len(e) : e[j][1] = o[j][1] /\ e[j][2] = o[j][2]
\* every cut position of the input must have been recorded, and each result must equal the reference
RowOK == LET r == Rows[k]
             e == IF r.kind = "dec" THEN RefPairsX(r.in, [mode |-> r.mode, plus |-> r.plus, udec |-> r.udec, nulenc |-> r.nulenc, nulraw |-> r.nulraw])
                  ELSE RefPairs(r.in, r.mode, r.plus)
         IN /\ (r.kind = "exh" => Len(r.outs) = (IF Len(r.in) = 0 THEN 1 ELSE Len(r.in)))
            /\ Len(r.outs) >= 1
            /\ \A c \in 1..Len(r.outs) : Same(e, r.outs[c])
\* the declared space was covered completely: number of distinct (in, mode, plus, via) rows, printed for the harness
ASSUME PrintT(<<"CENSUS", Len(Rows), Cardinality({<<Rows[i].in, Rows[i].mode, Rows[i].plus, Rows[i].via, Rows[i].udec, Rows[i].nulenc, Rows[i].nulraw>> : i \in 1..Len(Rows)})>>)
=============================================================================
