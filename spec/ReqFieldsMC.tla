----------------------------- MODULE ReqFieldsMC -----------------------------
(* Meta-properties of the ReqFields reference over every string up to a bound (so the reference itself is sane), plus known answers. *)
EXTENDS ReqFields
CONSTANT MaxLen
VARIABLE s
CAlpha == {97, EQ, SEMI, SP}
BAlpha == {89, 84, 112, 105, EQ, 33}          \* Y T p i = !
Init == s \in UNION {[1..n -> CAlpha] : n \in 0..MaxLen} \cup UNION {[1..n -> BAlpha] : n \in 0..MaxLen}
Next == UNCHANGED s
Sane == CookiesSane(s) /\ B64Bound(s)
\* known answers: "YTpi" = "a:b"; padding and junk are skipped; "a=1; b" -> (a,1) (b,"")
ASSUME Base64Decode(<<89, 84, 112, 105>>) = <<97, 58, 98>>
ASSUME Base64Decode(<<89, 33, 84, 61, 112, 105, 61>>) = <<97, 58, 98>>
ASSUME Base64Decode(<<89, 81, 61, 61>>) = <<97>>
ASSUME Cookies(<<97, 61, 49, 59, 32, 98>>) = << <<<<97>>, <<49>>>>, <<<<98>>, <<>>>> >>
ASSUME Cookies(<<61, 49, 59, 59, 97>>) = << <<<<97>>, <<>>>> >>
ASSUME Quoted(<<34, 97, 92, 34, 98, 34, 120>>) = Some(<<97, 34, 98>>)
ASSUME Auth(<<66, 65, 83, 73, 67, 32, 89, 84, 112, 105>>) = A("BASIC", Some(<<97>>), Some(<<98>>), FALSE, FALSE)
=============================================================================
