---------------------------- MODULE HtpHybridMC ----------------------------
(* Root module for model checking / trace validation of HtpHybrid with the known-findings set generated from known_findings.txt. *)
EXTENDS HtpHybrid, HtpKnown
=============================================================================
