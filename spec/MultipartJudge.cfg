INIT RInitM
NEXT RNext
INVARIANTS PartsOK FlagsOK ParamsOK
CHECK_DEADLOCK FALSE
