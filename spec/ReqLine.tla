------------------------------- MODULE ReqLine -------------------------------
(* C02 - the request line: method, request-URI and protocol as libhtp's generic request-line parser splits them
   (htp_parse_request_line_generic_ex), transcribed case by case, and the protocol number (htp_parse_protocol).
   Input: the line as the transaction reports it (line terminator removed); options: allow_space_uri, NUL terminates the line
   (Apache personality), leading whitespace kept in the method (requestline_leading_whitespace_unwanted other than IGNORE).
   Normative meta-property (checked by ReqLineMC over every line of a bounded alphabet): the three components are consecutive
   substrings of the line separated only by whitespace - nothing of the line is dropped, duplicated or invented.            *)
EXTENDS Integers, Sequences, FiniteSets, TLC
None == <<>>
Some(x) == <<x>>
SP == 32
IsSp(b) == b \in {32, 12, 11, 9, 13, 10}            \* htp_is_space == isspace in the C locale
RECURSIVE NulCut(_, _)
NulCut(l, i) == IF i > Len(l) THEN l ELSE IF l[i] = 0 THEN SubSeq(l, 1, i - 1) ELSE NulCut(l, i + 1)
\* first index >= i whose byte is (not) whitespace / is SP; Len+1 when there is none
RECURSIVE SkipSp(_, _)
SkipSp(l, i) == IF i <= Len(l) /\ IsSp(l[i]) THEN SkipSp(l, i + 1) ELSE i
RECURSIVE SkipNonSp(_, _)
SkipNonSp(l, i) == IF i <= Len(l) /\ ~IsSp(l[i]) THEN SkipNonSp(l, i + 1) ELSE i
RECURSIVE FindSP(_, _)
FindSP(l, i) == IF i <= Len(l) /\ l[i] # SP THEN FindSP(l, i + 1) ELSE i
OddSpIn(l, a, b) == \E k \in a..b : IsSp(l[k]) /\ l[k] # SP          \* a "non-compliant delimiter" in l[a..b]

\* end (exclusive) of the URI that starts at index s, forward rule: up to the first SP; if there is none but there is other
\* whitespace, up to the first whitespace
UriEndFwd(l, s) == LET p == FindSP(l, s) IN
                   IF p > Len(l) /\ OddSpIn(l, s, Len(l)) THEN SkipNonSp(l, s) ELSE p
\* backward rule (allow_space_uri): the URI ends at the LAST SP before the protocol; indices as in the C code, 0-based positions
\* shifted by one.  pos walks down from the end over trailing whitespace, then down to an SP (noting other whitespace on the way)
RECURSIVE DownWhileSp(_, _, _)
DownWhileSp(l, pos, s) == IF pos > s /\ IsSp(l[pos]) THEN DownWhileSp(l, pos - 1, s) ELSE pos
RECURSIVE DownToSP(_, _, _)
DownToSP(l, pos, s) == IF pos > s /\ l[pos] # SP THEN DownToSP(l, pos - 1, s) ELSE pos
RECURSIVE DownWhileNonSp(_, _, _)
DownWhileNonSp(l, pos, s) == IF pos > s /\ ~IsSp(l[pos]) THEN DownWhileNonSp(l, pos - 1, s) ELSE pos
UriEndBwd(l, s) ==
  LET e0 == DownWhileSp(l, Len(l), s)
      e1 == DownToSP(l, e0, s)
      bad1 == e1 < e0 /\ OddSpIn(l, e1 + 1, e0)                       \* whitespace other than SP seen while walking down
  IN IF bad1 /\ e1 = s THEN DownWhileNonSp(l, Len(l), s)              \* retry with any whitespace as the delimiter
     ELSE LET bad2 == e1 > s /\ OddSpIn(l, s, e1 - 1) IN
          IF ~bad2 /\ e1 = s THEN Len(l) + 1 ELSE e1                  \* no delimiter at all: the URI is the rest of the line

ProtocolNumber(p) ==          \* HTP_PROTOCOL_INVALID = -2, 0.9 = 9, 1.0 = 100, 1.1 = 101
  IF Len(p) = 8 /\ SubSeq(p, 1, 5) = <<72, 84, 84, 80, 47>> /\ p[7] = 46 THEN
     (IF p[6] = 48 /\ p[8] = 57 THEN 9 ELSE IF p[6] = 49 /\ p[8] = 48 THEN 100 ELSE IF p[6] = 49 /\ p[8] = 49 THEN 101 ELSE -2)
  ELSE -2

R(method, uri, protocol, is09, pnum, ms, us, ue, ps) ==
  [method |-> method, uri |-> uri, protocol |-> protocol, is09 |-> is09, pnum |-> pnum, ms |-> ms, us |-> us, ue |-> ue, ps |-> ps]
Parse(l0, allowSpaceUri, nulTerm, keepLeadWs) ==
  LET l == IF nulTerm THEN NulCut(l0, 1) ELSE l0
      n == Len(l)
      p0 == SkipSp(l, 1)
      ms == IF p0 > 1 /\ keepLeadWs THEN 1 ELSE p0
      me == SkipNonSp(l, p0)
      method == SubSeq(l, ms, me - 1)
      us == SkipSp(l, me)
  IN IF us > n THEN R(method, None, None, TRUE, 9, ms, n + 1, n + 1, n + 1)
     ELSE LET ue == IF allowSpaceUri THEN UriEndBwd(l, us) ELSE UriEndFwd(l, us)
              ps == SkipSp(l, ue)
          IN IF ps > n THEN R(method, Some(SubSeq(l, us, ue - 1)), None, TRUE, 9, ms, us, ue, n + 1)
             ELSE R(method, Some(SubSeq(l, us, ue - 1)), Some(SubSeq(l, ps, n)), FALSE, ProtocolNumber(SubSeq(l, ps, n)), ms, us, ue, ps)

(* ---------------- meta-properties ---------------- *)
AllSp(l, a, b) == \A k \in a..b : IsSp(l[k])
\* the components tile the (NUL-cut) line: [leading ws] method [ws] uri [ws] protocol, with nothing else in between
Partition(l0, allowSpaceUri, nulTerm, keepLeadWs) ==
  LET l == IF nulTerm THEN NulCut(l0, 1) ELSE l0
      r == Parse(l0, allowSpaceUri, nulTerm, keepLeadWs)
      n == Len(l)
      me == r.ms + Len(r.method)
  IN /\ AllSp(l, 1, r.ms - 1)
     /\ r.method = SubSeq(l, r.ms, me - 1)
     /\ AllSp(l, me, r.us - 1)
     /\ (r.uri # None => r.uri[1] = SubSeq(l, r.us, r.ue - 1) /\ r.uri[1] # <<>>)
     /\ AllSp(l, r.ue, r.ps - 1)
     /\ (r.protocol # None => r.protocol[1] = SubSeq(l, r.ps, n) /\ r.protocol[1] # <<>>)
     /\ (r.protocol = None => r.is09)
     /\ (r.uri = None => r.protocol = None)
\* with the forward rule and SP as the only whitespace the URI contains no whitespace at all
UriNoSpace(l0) == LET r == Parse(l0, FALSE, FALSE, FALSE) IN
                  r.uri # None /\ (\A k \in 1..Len(l0) : IsSp(l0[k]) => l0[k] = SP) => \A k \in 1..Len(r.uri[1]) : ~IsSp(r.uri[1][k])
=============================================================================
