----------------------------- MODULE HostPortRows -----------------------------
(* Judges rows recorded from Host header values sent in real requests (harness/fn_host.c) against HostPort: the host name and the
   numeric port the transaction reports and HTP_HOSTH_INVALID.  For bracketed literals the validity of the address itself is
   decided by inet_pton (an oracle): only "the parser said invalid => the indicator is set" is judged there. *)
EXTENDS HostPort, Json, IOUtils
Rows == ndJsonDeserialize(IOEnv.ROWS)
VARIABLE k
RInit == k \in 1..Len(Rows)
RNext == UNCHANGED k
RowOK == LET r == Rows[k]  e == ParseHostPort(r.hv) IN
         /\ r.got /\ ~r.err /\ ~r.missing
         /\ r.host = e.host
         /\ (e.host # None => r.portn = e.portn)
         /\ (IF IsBracketed(r.hv) THEN (e.invalid => r.hosth_invalid) ELSE r.hosth_invalid = HosthInvalid(r.hv))
ASSUME PrintT(<<"CENSUS", Len(Rows), Cardinality({Rows[i].raw : i \in 1..Len(Rows)})>>)
=============================================================================
