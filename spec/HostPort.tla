------------------------------- MODULE HostPort -------------------------------
(* C02 / C11 - the Host header: host name, numeric port and the invalid-host indicator as htp_parse_hostport, htp_parse_port and
   htp_validate_hostname produce them for a request whose target has no authority.
   PINNED (the code is followed and the oddity is named): the host name is lower-cased only when the value has no port.        *)
EXTENDS Integers, Sequences, FiniteSets, TLC
None == <<>>
Some(x) == <<x>>
COLON == 58  LB == 91  RB == 93  DOT == 46
IsSpace(b) == b \in {32, 9, 10, 11, 12, 13}
IsLws(b) == b \in {32, 9}
IsDigit(b) == b >= 48 /\ b <= 57
Lower(b) == IF b >= 65 /\ b <= 90 THEN b + 32 ELSE b
RECURSIVE LTrim(_)
LTrim(s) == IF s # <<>> /\ IsSpace(s[1]) THEN LTrim(Tail(s)) ELSE s
RECURSIVE RTrim(_)
RTrim(s) == IF s # <<>> /\ IsSpace(s[Len(s)]) THEN RTrim(SubSeq(s, 1, Len(s) - 1)) ELSE s
Trim(s) == RTrim(LTrim(s))
RECURSIVE Find(_, _, _)
Find(s, i, c) == IF i > Len(s) THEN Len(s) + 1 ELSE IF s[i] = c THEN i ELSE Find(s, i + 1, c)
RECURSIVE LTrimLws(_)
LTrimLws(s) == IF s # <<>> /\ IsLws(s[1]) THEN LTrimLws(Tail(s)) ELSE s
RECURSIVE RTrimLws(_)
RTrimLws(s) == IF s # <<>> /\ IsLws(s[Len(s)]) THEN RTrimLws(SubSeq(s, 1, Len(s) - 1)) ELSE s
RECURSIVE DropZeros(_)
DropZeros(s) == IF Len(s) > 1 /\ s[1] = 48 THEN DropZeros(Tail(s)) ELSE s
RECURSIVE DecVal(_, _)
DecVal(s, acc) == IF s = <<>> THEN acc ELSE DecVal(Tail(s), acc * 10 + (s[1] - 48))
\* port text -> number in 1..65535, or -1 (invalid)
PortNumber(p) == LET d == RTrimLws(LTrimLws(p)) IN
                 IF d = <<>> \/ \E k \in 1..Len(d) : ~IsDigit(d[k]) THEN -1
                 ELSE LET z == DropZeros(d) IN IF Len(z) > 5 THEN -1 ELSE LET v == DecVal(z, 0) IN IF v >= 1 /\ v <= 65535 THEN v ELSE -1
HP(host, portn, invalid) == [host |-> host, portn |-> portn, invalid |-> invalid]
ParseHostPort(v) ==
  LET d == Trim(v) IN
  IF d = <<>> THEN HP(None, -1, TRUE)
  ELSE IF d[1] = LB THEN
     LET rb == Find(d, 1, RB) IN
     IF rb > Len(d) THEN HP(None, -1, TRUE)
     ELSE IF rb = Len(d) THEN HP(Some(SubSeq(d, 1, rb)), -1, FALSE)
     ELSE IF d[rb + 1] = COLON THEN LET pn == PortNumber(SubSeq(d, rb + 2, Len(d))) IN HP(Some(SubSeq(d, 1, rb)), pn, pn = -1)
     ELSE HP(Some(SubSeq(d, 1, rb)), -1, TRUE)
  ELSE LET c == Find(d, 1, COLON) IN
     IF c > Len(d) THEN HP(Some([k \in 1..Len(d) |-> Lower(d[k])]), -1, FALSE)
     ELSE LET pn == PortNumber(SubSeq(d, c + 1, Len(d))) IN HP(Some(RTrim(SubSeq(d, 1, c - 1))), pn, pn = -1)     \* PINNED: not lower-cased here

\* labels of letters, digits, '-' and '_', 1..63 long, separated by exactly one dot; a single trailing dot is accepted
LabelChar(b) == (b >= 97 /\ b <= 122) \/ (b >= 65 /\ b <= 90) \/ IsDigit(b) \/ b = 45 \/ b = 95
RECURSIVE ValidFrom(_, _)
ValidFrom(h, i) ==            \* a label starts at i
  LET e == Find(h, i, DOT) IN
  /\ e > i /\ e - i <= 63 /\ \A k \in i..(e - 1) : LabelChar(h[k])
  /\ (e > Len(h) \/ e = Len(h) \/ (h[e + 1] # DOT /\ ValidFrom(h, e + 1)))
ValidHostname(h) == Len(h) >= 1 /\ Len(h) <= 255 /\ ValidFrom(h, 1)
\* the indicator HTP_HOSTH_INVALID for a value whose host is not a bracketed literal
HosthInvalid(v) == LET r == ParseHostPort(v) IN r.invalid \/ (r.host # None /\ ~ValidHostname(r.host[1]))
IsBracketed(v) == LET d == Trim(v) IN d # <<>> /\ d[1] = LB
=============================================================================
