------------------------------ MODULE PathNorm ------------------------------
(* C12 - path decoding and normalisation: the documented pipeline  Normalise = RemoveDotSegments o Utf8 o DecodePath
   over byte sequences (integers), with the anomaly indicators each step raises.  cfg is a record:
     udec (decode %u), inv \in {"preserve","remove","process"}, nulenc_term, nulraw_term, bsconv (backslash = separator),
     sepdec (decode encoded separators), sepcomp (compress separators), lower, bestfit (UTF-8 -> single byte), repl (replacement byte).
   The UTF-8 automaton and the best-fit pairs are transcribed from the tables the library documents (Hoehrmann DFA with overlong
   forms allowed; Windows-1252 best-fit map) by tools/c12.py:gen.  Where htp_config.h is silent the reference follows the code
   and the point is listed as PINNED below.                                                                           *)
EXTENDS Integers, Sequences, FiniteSets, TLC

PCT == 37  SLASH == 47  BSL == 92  DOT == 46  LU == 117  UU == 85
IsHex(b) == (b >= 48 /\ b <= 57) \/ (b >= 65 /\ b <= 70) \/ (b >= 97 /\ b <= 102)
ClearBit5(b) == IF (b \div 32) % 2 = 1 THEN b - 32 ELSE b
X2cDigit(b) == IF b >= 65 THEN (ClearBit5(b) - 65 + 10) % 256 ELSE (b - 48) % 256
X2c(b1, b2) == (((X2cDigit(b1) * 16) % 256) + X2cDigit(b2)) % 256
ToLower(b) == IF b >= 65 /\ b <= 90 THEN b + 32 ELSE b

BestFitPairs == <<1, 0, 65, 1, 1, 97, 1, 2, 65, 1, 3, 97, 1, 4, 65, 1, 5, 97, 1, 6, 67, 1, 7, 99, 1, 8, 67, 1, 9, 99,
   1, 10, 67, 1, 11, 99, 1, 12, 67, 1, 13, 99, 1, 14, 68, 1, 15, 100, 1, 17, 100, 1, 18, 69, 1, 19, 101, 1, 20, 69,
   1, 21, 101, 1, 22, 69, 1, 23, 101, 1, 24, 69, 1, 25, 101, 1, 26, 69, 1, 27, 101, 1, 28, 71, 1, 29, 103, 1, 30, 71,
   1, 31, 103, 1, 32, 71, 1, 33, 103, 1, 34, 71, 1, 35, 103, 1, 36, 72, 1, 37, 104, 1, 38, 72, 1, 39, 104, 1, 40, 73,
   1, 41, 105, 1, 42, 73, 1, 43, 105, 1, 44, 73, 1, 45, 105, 1, 46, 73, 1, 47, 105, 1, 48, 73, 1, 49, 105, 1, 52, 74,
   1, 53, 106, 1, 54, 75, 1, 55, 107, 1, 57, 76, 1, 58, 108, 1, 59, 76, 1, 60, 108, 1, 61, 76, 1, 62, 108, 1, 65, 76,
   1, 66, 108, 1, 67, 78, 1, 68, 110, 1, 69, 78, 1, 70, 110, 1, 71, 78, 1, 72, 110, 1, 76, 79, 1, 77, 111, 1, 78, 79,
   1, 79, 111, 1, 80, 79, 1, 81, 111, 1, 84, 82, 1, 85, 114, 1, 86, 82, 1, 87, 114, 1, 88, 82, 1, 89, 114, 1, 90, 83,
   1, 91, 115, 1, 92, 83, 1, 93, 115, 1, 94, 83, 1, 95, 115, 1, 98, 84, 1, 99, 116, 1, 100, 84, 1, 101, 116, 1, 102, 84,
   1, 103, 116, 1, 104, 85, 1, 105, 117, 1, 106, 85, 1, 107, 117, 1, 108, 85, 1, 109, 117, 1, 110, 85, 1, 111, 117, 1, 112, 85,
   1, 113, 117, 1, 114, 85, 1, 115, 117, 1, 116, 87, 1, 117, 119, 1, 118, 89, 1, 119, 121, 1, 121, 90, 1, 123, 90, 1, 124, 122,
   1, 128, 98, 1, 151, 73, 1, 154, 108, 1, 159, 79, 1, 160, 79, 1, 161, 111, 1, 171, 116, 1, 174, 84, 1, 175, 85, 1, 176, 117,
   1, 182, 122, 1, 192, 124, 1, 195, 33, 1, 205, 65, 1, 206, 97, 1, 207, 73, 1, 208, 105, 1, 209, 79, 1, 210, 111, 1, 211, 85,
   1, 212, 117, 1, 213, 85, 1, 214, 117, 1, 215, 85, 1, 216, 117, 1, 217, 85, 1, 218, 117, 1, 219, 85, 1, 220, 117, 1, 222, 65,
   1, 223, 97, 1, 228, 71, 1, 229, 103, 1, 230, 71, 1, 231, 103, 1, 232, 75, 1, 233, 107, 1, 234, 79, 1, 235, 111, 1, 236, 79,
   1, 237, 111, 1, 240, 106, 2, 97, 103, 2, 185, 39, 2, 186, 34, 2, 188, 39, 2, 196, 94, 2, 200, 39, 2, 203, 96, 2, 205, 95,
   3, 0, 96, 3, 2, 94, 3, 3, 126, 3, 14, 34, 3, 49, 95, 3, 50, 95, 3, 126, 59, 3, 147, 71, 3, 152, 84, 3, 163, 83,
   3, 166, 70, 3, 169, 79, 3, 177, 97, 3, 180, 100, 3, 181, 101, 3, 192, 112, 3, 195, 115, 3, 196, 116, 3, 198, 102, 4, 187, 104,
   5, 137, 58, 6, 106, 37, 32, 0, 32, 32, 1, 32, 32, 2, 32, 32, 3, 32, 32, 4, 32, 32, 5, 32, 32, 6, 32, 32, 16, 45,
   32, 17, 45, 32, 23, 61, 32, 50, 39, 32, 53, 96, 32, 68, 47, 32, 116, 52, 32, 117, 53, 32, 118, 54, 32, 119, 55, 32, 120, 56,
   32, 127, 110, 32, 128, 48, 32, 129, 49, 32, 130, 50, 32, 131, 51, 32, 132, 52, 32, 133, 53, 32, 134, 54, 32, 135, 55, 32, 136, 56,
   32, 137, 57, 32, 167, 80, 33, 2, 67, 33, 7, 69, 33, 10, 103, 33, 11, 72, 33, 12, 72, 33, 13, 72, 33, 14, 104, 33, 16, 73,
   33, 17, 73, 33, 18, 76, 33, 19, 108, 33, 21, 78, 33, 24, 80, 33, 25, 80, 33, 26, 81, 33, 27, 82, 33, 28, 82, 33, 29, 82,
   33, 36, 90, 33, 40, 90, 33, 42, 75, 33, 44, 66, 33, 45, 67, 33, 46, 101, 33, 47, 101, 33, 48, 69, 33, 49, 70, 33, 51, 77,
   33, 52, 111, 34, 18, 45, 34, 21, 47, 34, 22, 92, 34, 23, 42, 34, 26, 118, 34, 30, 56, 34, 35, 124, 34, 41, 110, 34, 54, 58,
   34, 60, 126, 34, 97, 61, 34, 100, 61, 34, 101, 61, 35, 3, 94, 35, 32, 40, 35, 33, 41, 35, 41, 60, 35, 42, 62, 37, 0, 45,
   37, 12, 43, 37, 16, 43, 37, 20, 43, 37, 24, 43, 37, 28, 43, 37, 44, 45, 37, 52, 45, 37, 60, 43, 37, 80, 45, 37, 82, 43,
   37, 83, 43, 37, 84, 43, 37, 85, 43, 37, 86, 43, 37, 87, 43, 37, 88, 43, 37, 89, 43, 37, 90, 43, 37, 91, 43, 37, 92, 43,
   37, 93, 43, 37, 100, 45, 37, 101, 45, 37, 102, 45, 37, 103, 45, 37, 104, 45, 37, 105, 45, 37, 106, 43, 37, 107, 43, 37, 108, 43,
   37, 132, 95, 39, 88, 124, 48, 0, 32, 48, 8, 60, 48, 9, 62, 48, 26, 91, 48, 27, 93, 255, 1, 33, 255, 2, 34, 255, 3, 35,
   255, 4, 36, 255, 5, 37, 255, 6, 38, 255, 7, 39, 255, 8, 40, 255, 9, 41, 255, 10, 42, 255, 11, 43, 255, 12, 44, 255, 13, 45,
   255, 14, 46, 255, 15, 47, 255, 16, 48, 255, 17, 49, 255, 18, 50, 255, 19, 51, 255, 20, 52, 255, 21, 53, 255, 22, 54, 255, 23, 55,
   255, 24, 56, 255, 25, 57, 255, 26, 58, 255, 27, 59, 255, 28, 60, 255, 29, 61, 255, 30, 62, 255, 32, 64, 255, 33, 65, 255, 34, 66,
   255, 35, 67, 255, 36, 68, 255, 37, 69, 255, 38, 70, 255, 39, 71, 255, 40, 72, 255, 41, 73, 255, 42, 74, 255, 43, 75, 255, 44, 76,
   255, 45, 77, 255, 46, 78, 255, 47, 79, 255, 48, 80, 255, 49, 81, 255, 50, 82, 255, 51, 83, 255, 52, 84, 255, 53, 85, 255, 54, 86,
   255, 55, 87, 255, 56, 88, 255, 57, 89, 255, 58, 90, 255, 59, 91, 255, 60, 92, 255, 61, 93, 255, 62, 94, 255, 63, 95, 255, 64, 96,
   255, 65, 97, 255, 66, 98, 255, 67, 99, 255, 68, 100, 255, 69, 101, 255, 70, 102, 255, 71, 103, 255, 72, 104, 255, 73, 105, 255, 74, 106,
   255, 75, 107, 255, 76, 108, 255, 77, 109, 255, 78, 110, 255, 79, 111, 255, 80, 112, 255, 81, 113, 255, 82, 114, 255, 83, 115, 255, 84, 116,
   255, 85, 117, 255, 86, 118, 255, 87, 119, 255, 88, 120, 255, 89, 121, 255, 90, 122, 255, 91, 123, 255, 92, 124, 255, 93, 125, 255, 94, 126,
   0, 0, 0>>
\* best-fit byte of codepoint (hi, lo), or the replacement byte
BfIdx == {i \in 1..Len(BestFitPairs) : i % 3 = 1}
BestFit(hi, lo, repl) == LET hit == {i \in BfIdx : BestFitPairs[i] = hi /\ BestFitPairs[i + 1] = lo}
                         IN IF hit = {} THEN repl ELSE BestFitPairs[(CHOOSE i \in hit : \A j \in hit : i <= j) + 2]

(* ---------------- step 1: percent / %u decoding of the path ---------------- *)
IsSep(cfg, c) == c = SLASH \/ (cfg.bsconv /\ c = BSL)
\* %uHHHH -> byte and flags
UDecode(cfg, h1, h2, h3, h4) ==
  LET c1 == X2c(h1, h2)  c2 == X2c(h3, h4)
      r == IF c1 = 0 THEN c2 ELSE BestFit(c1, c2, cfg.repl)
      f == (IF c1 = 0 THEN {"OVERLONG_U"} ELSE IF c1 = 255 THEN {"HALF_FULL_RANGE"} ELSE {})
           \cup (IF IsSep(cfg, r) THEN {"ENCODED_SEPARATOR"} ELSE {})
  IN [c |-> r, f |-> f]
\* what happens to one output byte: backslash conversion, lower-casing, separator compression (prev = previous output was a separator)
Emit(cfg, out, prevsep, c0) ==
  LET c1 == IF c0 = BSL /\ cfg.bsconv THEN SLASH ELSE c0
      c == IF cfg.lower THEN ToLower(c1) ELSE c1
  IN IF cfg.sepcomp THEN (IF c = SLASH THEN (IF prevsep THEN [out |-> out, prev |-> TRUE] ELSE [out |-> Append(out, c), prev |-> TRUE])
                          ELSE [out |-> Append(out, c), prev |-> FALSE])
     ELSE [out |-> Append(out, c), prev |-> prevsep]
RECURSIVE Dec(_, _, _, _, _, _)
Dec(cfg, s, i, out, prev, flags) ==
  IF i > Len(s) THEN [out |-> out, flags |-> flags]
  ELSE LET c == s[i]
           n == Len(s)
           Go(j, o, p, f) == Dec(cfg, s, j, o, p, f)
           Put(j, byte, f) == LET e == Emit(cfg, out, prev, byte) IN Dec(cfg, s, j, e.out, e.prev, f)
           Inv(f0) == LET f == f0 \cup {"INVALID_ENCODING"} IN
                      IF cfg.inv = "remove" THEN Dec(cfg, s, i + 1, out, prev, f) ELSE Put(i + 1, PCT, f)    \* preserve, and "process" when it cannot decode
       IN
       IF c = PCT THEN
          IF i + 2 <= n THEN
             IF cfg.udec /\ s[i + 1] \in {LU, UU} THEN
                IF i + 5 <= n THEN
                   IF (IsHex(s[i + 2]) /\ IsHex(s[i + 3]) /\ IsHex(s[i + 4]) /\ IsHex(s[i + 5])) \/ cfg.inv = "process" THEN
                      LET u == UDecode(cfg, s[i + 2], s[i + 3], s[i + 4], s[i + 5])
                          valid == IsHex(s[i + 2]) /\ IsHex(s[i + 3]) /\ IsHex(s[i + 4]) /\ IsHex(s[i + 5])
                          f == flags \cup u.f \cup (IF valid THEN {} ELSE {"INVALID_ENCODING"}) \cup (IF valid /\ u.c = 0 THEN {"ENCODED_NUL"} ELSE {})
                      IN Put(i + 6, u.c, f)                                  \* PINNED: %u0000 never terminates the path
                   ELSE Inv(flags)
                ELSE Inv(flags)
             ELSE IF IsHex(s[i + 1]) /\ IsHex(s[i + 2]) THEN
                LET b == X2c(s[i + 1], s[i + 2]) IN
                IF b = 0 /\ cfg.nulenc_term THEN [out |-> out, flags |-> flags \cup {"ENCODED_NUL"}]
                ELSE LET f0 == flags \cup (IF b = 0 THEN {"ENCODED_NUL"} ELSE {}) IN
                     IF IsSep(cfg, b) THEN (IF cfg.sepdec THEN Put(i + 3, b, f0 \cup {"ENCODED_SEPARATOR"})
                                            ELSE Put(i + 1, PCT, f0 \cup {"ENCODED_SEPARATOR"}))      \* left encoded: the % is copied, the digits follow as ordinary bytes
                     ELSE Put(i + 3, b, f0)
             ELSE IF cfg.inv = "process" THEN Put(i + 3, X2c(s[i + 1], s[i + 2]), flags \cup {"INVALID_ENCODING"})   \* PINNED: no separator / NUL check here
             ELSE Inv(flags)
          ELSE Inv(flags)
       ELSE IF c = 0 /\ cfg.nulraw_term THEN [out |-> out, flags |-> flags \cup {"RAW_NUL"}]
       ELSE Put(i + 1, c, IF c = 0 THEN flags \cup {"RAW_NUL"} ELSE flags)
DecodePath(cfg, s) == Dec(cfg, s, 1, <<>>, FALSE, {})

(* ---------------- step 2: UTF-8 (validate, or convert with best-fit) ---------------- *)
Utf8Type == <<0, 0, 0, 0, 0, 0, 0, 0, 0, 0, 0, 0, 0, 0, 0, 0, 0, 0, 0, 0, 0, 0, 0, 0, 0, 0, 0, 0, 0, 0, 0, 0,
   0, 0, 0, 0, 0, 0, 0, 0, 0, 0, 0, 0, 0, 0, 0, 0, 0, 0, 0, 0, 0, 0, 0, 0, 0, 0, 0, 0, 0, 0, 0, 0,
   0, 0, 0, 0, 0, 0, 0, 0, 0, 0, 0, 0, 0, 0, 0, 0, 0, 0, 0, 0, 0, 0, 0, 0, 0, 0, 0, 0, 0, 0, 0, 0,
   0, 0, 0, 0, 0, 0, 0, 0, 0, 0, 0, 0, 0, 0, 0, 0, 0, 0, 0, 0, 0, 0, 0, 0, 0, 0, 0, 0, 0, 0, 0, 0,
   1, 1, 1, 1, 1, 1, 1, 1, 1, 1, 1, 1, 1, 1, 1, 1, 9, 9, 9, 9, 9, 9, 9, 9, 9, 9, 9, 9, 9, 9, 9, 9,
   7, 7, 7, 7, 7, 7, 7, 7, 7, 7, 7, 7, 7, 7, 7, 7, 7, 7, 7, 7, 7, 7, 7, 7, 7, 7, 7, 7, 7, 7, 7, 7,
   2, 2, 2, 2, 2, 2, 2, 2, 2, 2, 2, 2, 2, 2, 2, 2, 2, 2, 2, 2, 2, 2, 2, 2, 2, 2, 2, 2, 2, 2, 2, 2,
   3, 3, 3, 3, 3, 3, 3, 3, 3, 3, 3, 3, 3, 4, 3, 3, 6, 6, 6, 6, 5, 8, 8, 8, 8, 8, 8, 8, 8, 8, 8, 8>>
Utf8Trans == <<0, 1, 2, 3, 5, 8, 7, 1, 1, 1, 4, 6, 1, 1, 1, 1,
   1, 1, 1, 1, 1, 1, 1, 1, 1, 1, 1, 1, 1, 1, 1, 1,
   1, 0, 1, 1, 1, 1, 1, 0, 1, 0, 1, 1, 1, 1, 1, 1,
   1, 2, 1, 1, 1, 1, 1, 2, 1, 2, 1, 1, 1, 1, 1, 1,
   1, 1, 1, 1, 1, 1, 1, 2, 1, 1, 1, 1, 1, 1, 1, 1,
   1, 2, 1, 1, 1, 1, 1, 1, 1, 2, 1, 1, 1, 1, 1, 1,
   1, 1, 1, 1, 1, 1, 1, 3, 1, 3, 1, 1, 1, 1, 1, 1,
   1, 3, 1, 1, 1, 1, 1, 3, 1, 3, 1, 1, 1, 1, 1, 1,
   1, 3, 1, 1, 1, 1, 1, 1, 1, 1, 1, 1, 1, 1, 1, 1>>
UACCEPT == 0  UREJECT == 1
Pow2(k) == CASE k = 0 -> 1 [] k = 1 -> 2 [] k = 2 -> 4 [] k = 3 -> 8 [] k = 4 -> 16 [] k = 5 -> 32 [] k = 6 -> 64 [] k = 7 -> 128 [] k = 8 -> 256 [] OTHER -> 1
UStep(state, cp, b) == LET t == Utf8Type[b + 1] IN
                       [cp |-> IF state # UACCEPT THEN (b % 64) + cp * 64 ELSE b % Pow2(IF t > 8 THEN 0 ELSE 8 - t),
                        st |-> Utf8Trans[state * 16 + t + 1]]
Overlong(counter, cp) == (counter = 2 /\ cp < 128) \/ (counter = 3 /\ cp < 2048) \/ (counter = 4 /\ cp < 65536)
BestFitCp(cp, repl) == IF cp < 256 THEN cp ELSE IF cp > 65535 THEN repl ELSE BestFit(cp \div 256, cp % 256, repl)
\* validate only (utf8_convert_bestfit off): bytes unchanged, flags
RECURSIVE UVal(_, _, _, _, _, _, _)
UVal(s, i, state, cp, counter, seen, flags) ==
  IF i > Len(s) THEN [flags |-> flags, seen |-> seen]
  ELSE LET u == UStep(state, cp, s[i])  k == counter + 1 IN
       IF u.st = UACCEPT THEN UVal(s, i + 1, UACCEPT, u.cp, 0, seen \/ k > 1,
                                   flags \cup (IF k > 1 /\ Overlong(k, u.cp) THEN {"UTF8_OVERLONG"} ELSE {})
                                         \cup (IF u.cp > 65279 /\ u.cp < 65536 THEN {"HALF_FULL_RANGE"} ELSE {}))
       ELSE IF u.st = UREJECT THEN UVal(s, i + 1, UACCEPT, u.cp, 0, seen, flags \cup {"UTF8_INVALID"})
       ELSE UVal(s, i + 1, u.st, u.cp, k, seen, flags)
\* convert: multi-byte characters become their best-fit byte, an invalid sequence becomes the replacement byte
RECURSIVE UConv(_, _, _, _, _, _, _, _, _)
UConv(cfg, s, i, state, cp, counter, seen, flags, out) ==
  IF i > Len(s) THEN [out |-> out, flags |-> flags, seen |-> seen]
  ELSE LET u == UStep(state, cp, s[i])  k == counter + 1 IN
       IF u.st = UACCEPT THEN
          IF k = 1 THEN UConv(cfg, s, i + 1, UACCEPT, u.cp, 0, seen, flags, Append(out, u.cp % 256))
          ELSE UConv(cfg, s, i + 1, UACCEPT, u.cp, 0, TRUE,
                     flags \cup (IF Overlong(k, u.cp) THEN {"UTF8_OVERLONG"} ELSE {}) \cup (IF u.cp >= 65280 /\ u.cp <= 65519 THEN {"HALF_FULL_RANGE"} ELSE {}),
                     Append(out, BestFitCp(u.cp, cfg.repl)))
       ELSE IF u.st = UREJECT THEN
          \* the offending byte is consumed only when it started the sequence; otherwise it is looked at again as a first byte
          UConv(cfg, s, IF k = 1 THEN i + 1 ELSE i, UACCEPT, 0, 0, seen, flags \cup {"UTF8_INVALID"}, Append(out, cfg.repl))
       ELSE UConv(cfg, s, i + 1, u.st, u.cp, k, seen, flags, out)
Utf8(cfg, s) ==
  IF cfg.bestfit THEN LET r == UConv(cfg, s, 1, UACCEPT, 0, 0, FALSE, {}, <<>>)
                      IN [out |-> r.out, flags |-> r.flags \cup (IF r.seen /\ "UTF8_INVALID" \notin r.flags THEN {"UTF8_VALID"} ELSE {})]
  ELSE LET r == UVal(s, 1, UACCEPT, 0, 0, FALSE, {})
       IN [out |-> s, flags |-> r.flags \cup (IF r.seen /\ "UTF8_INVALID" \notin r.flags THEN {"UTF8_VALID"} ELSE {})]

(* ---------------- step 3: dot-segment removal, RFC 3986 5.2.4 with the pinned trailing-slash rule ---------------- *)
StartsWith(s, p) == Len(s) >= Len(p) /\ SubSeq(s, 1, Len(p)) = p
Drop(s, n) == SubSeq(s, n + 1, Len(s))
\* remove the last segment of the output buffer including its preceding "/" (if any)
RECURSIVE CutLast(_)
CutLast(o) == IF o = <<>> THEN <<>> ELSE IF o[Len(o)] = SLASH THEN SubSeq(o, 1, Len(o) - 1) ELSE CutLast(SubSeq(o, 1, Len(o) - 1))
\* first path segment of the input: the leading "/" (if any) and everything up to, not including, the next "/"
RECURSIVE SegEnd(_, _)
SegEnd(s, i) == IF i > Len(s) THEN Len(s) ELSE IF s[i] = SLASH THEN i - 1 ELSE SegEnd(s, i + 1)
\* PINNED (Util.NormalizeUriPath: "one/../" -> ""): when a dot-segment rule leaves exactly "/" in the input buffer, that slash is dropped
Pin(inp) == IF inp = <<SLASH>> THEN <<>> ELSE inp
RECURSIVE Rds(_, _)
Rds(inp, out) ==
  IF inp = <<>> THEN out
  ELSE IF StartsWith(inp, <<DOT, DOT, SLASH>>) THEN Rds(Drop(inp, 3), out)                                  \* 2A
  ELSE IF StartsWith(inp, <<DOT, SLASH>>) THEN Rds(Drop(inp, 2), out)                                       \* 2A
  ELSE IF StartsWith(inp, <<SLASH, DOT, SLASH>>) THEN Rds(Pin(<<SLASH>> \o Drop(inp, 3)), out)               \* 2B
  ELSE IF inp = <<SLASH, DOT>> THEN Rds(Pin(<<SLASH>>), out)                                               \* 2B
  ELSE IF StartsWith(inp, <<SLASH, DOT, DOT, SLASH>>) THEN Rds(Pin(<<SLASH>> \o Drop(inp, 4)), CutLast(out))  \* 2C
  ELSE IF inp = <<SLASH, DOT, DOT>> THEN Rds(Pin(<<SLASH>>), CutLast(out))                                 \* 2C
  ELSE IF inp = <<DOT>> \/ inp = <<DOT, DOT>> THEN Rds(<<>>, out)                                          \* 2D
  ELSE LET e == SegEnd(inp, 2) IN Rds(Drop(inp, e), out \o SubSeq(inp, 1, e))                               \* 2E
RemoveDotSegments(s) == Rds(s, <<>>)

(* ---------------- the pipeline ---------------- *)
Normalise(cfg, s) ==
  LET d == DecodePath(cfg, s)
      u == Utf8(cfg, d.out)
  IN [path |-> RemoveDotSegments(u.out), flags |-> d.flags \cup u.flags]
\* meta-properties the property statement names
RECURSIVE Segments(_, _, _)
Segments(s, i, acc) == IF i > Len(s) THEN {acc} ELSE IF s[i] = SLASH THEN {acc} \cup Segments(s, i + 1, <<>>) ELSE Segments(s, i + 1, Append(acc, s[i]))
NoDotSegment(p) == <<DOT>> \notin Segments(p, 1, <<>>) /\ <<DOT, DOT>> \notin Segments(p, 1, <<>>)
=============================================================================
