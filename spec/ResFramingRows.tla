-------------------------- MODULE ResFramingRows --------------------------
(* Judges rows recorded from real responses (harness/fn_resfr.c: request, then the response head in one call) against
   ResFraming!Determine, and - on the same rows, so over exactly the lattice that was recorded - the sanity clauses of the
   decision itself. *)
EXTENDS ResFraming, Json, IOUtils
Rows == ndJsonDeserialize(IOEnv.ROWS)
VARIABLE k
RInit == k \in 1..Len(Rows)
RNext == UNCHANGED k
RowOK == LET r == Rows[k]  e == Determine(r) IN
         /\ r.state = e.state /\ r.rc = e.rc /\ r.tc = e.tc /\ r.sp = e.sp /\ r.smug = e.smug
         /\ (IF e.clen.code < 0 THEN r.clc = e.clen.code ELSE r.clc = 0 /\ r.cl = e.clen.v)
         /\ r.ctype = e.ctype
\* the decision is sane: a body is read only when something frames it or nothing forbids it; chunked wins over Content-Length
\* and the combination is flagged; HEAD never has a body
Sane == LET r == Rows[k]  e == Determine(r) IN
        /\ (r.m = "HEAD" /\ e.kind \notin {"tunnel", "interim"} => e.kind = "nobody")
        /\ (e.kind = "chunked" => r.te # None /\ (e.smug <=> r.cls # <<>>))
        /\ (e.kind \in {"cl", "cl0", "error"} /\ r.cls # <<>> => (e.smug <=> Len(r.cls) > 1))
        /\ (e.kind = "close" => r.cls = <<>>)
ASSUME PrintT(<<"CENSUS", Len(Rows), Cardinality({<<Rows[i].m, Rows[i].status, Rows[i].ver11, Rows[i].te, Rows[i].cls, Rows[i].ct>> : i \in 1..Len(Rows)})>>)
=============================================================================
