INIT RInit
NEXT RNext
INVARIANTS RowOK Sane
CHECK_DEADLOCK FALSE
