--------------------------- MODULE MultipartJudge ---------------------------
(* Judges what the real multipart parser reported for every chunking of every generated document (harness/fn_mpart.c) against
   Multipart!ExpectedParts / ExpectedFlags, and the body parameters of a full POST against ExpectedParams. *)
EXTENDS Multipart, Json, IOUtils
Rows == ndJsonDeserialize(IOEnv.ROWS)
VARIABLE k
RInitM == k \in 1..Len(Rows)
RNext == UNCHANGED k
FlagSet(r) == {r.flags[j] : j \in 1..Len(r.flags)}
PartsOK == LET r == Rows[k]  e == ExpectedParts(Doc(r.i)) IN
           r.via = "direct" =>
             /\ Len(r.parts) = Len(e)
             /\ \A j \in 1..Len(e) : /\ r.parts[j].type = e[j].type /\ r.parts[j].name = e[j].name /\ r.parts[j].filename = e[j].filename
                                     /\ r.parts[j].ctype = e[j].ctype /\ r.parts[j].data = e[j].data
FlagsOK == LET r == Rows[k] IN r.via = "direct" => FlagSet(r) = ExpectedFlags(Doc(r.i), r.body)
ParamsOK == LET r == Rows[k]  e == ExpectedParams(Doc(r.i)) IN
            r.via = "post" => Len(r.params) = Len(e) /\ \A j \in 1..Len(e) : r.params[j][1] = e[j][1] /\ r.params[j][2] = e[j][2]
ASSUME PrintT(<<"CENSUS", Len(Rows), Cardinality({<<Rows[j].i, Rows[j].via, Rows[j].cut>> : j \in 1..Len(Rows)})>>)
=============================================================================
