---------------------------- MODULE MultipartGen ----------------------------
EXTENDS Multipart, Json
CONSTANTS From, To
VARIABLE i
Init == i \in From..To
Next == UNCHANGED i
Emit == PrintT(<<"DOC", ToJson([i |-> i, d |-> Doc(i)])>>)
=============================================================================
