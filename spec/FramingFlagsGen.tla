-------------------------- MODULE FramingFlagsGen --------------------------
EXTENDS FramingFlags, Json
VARIABLE v
Init == v \in Vectors
Next == UNCHANGED v
Emit == PrintT(<<"VEC", ToJson(v)>>)
Sane == ChunkedWins /\ QuietIsQuiet
=============================================================================
