CONSTANT MaxLen = 7
INIT Init
NEXT Next
INVARIANT Sane
CHECK_DEADLOCK FALSE
