------------------------------- MODULE Decomp -------------------------------
(* C07 - the decompression DRIVER of htp_decompressors.c as a byte-accounting machine (inflate itself is an oracle).
   The wire body is a sequence of W units cut into chunks by the caller.  The real stream is valid for the announced coding
   ("good"), valid only for the other zlib framing ("other": needs a restart with different window bits), or not compressed
   at all ("garbage": must be passed through).  A decoder started at wire offset 0 with the right kind decodes every unit; a
   decoder of the wrong kind, or one started in the middle of the stream, fails - but only after it has seen FailAfter units
   (a short prefix may look plausible).  Restart re-initialises the decoder and, AS THE CODE DOES, re-feeds only the CURRENT chunk;
   after three restarts the layer goes to passthrough.
   Clauses: NothingLost (every wire unit is delivered decoded or raw), Faithful (a stream valid for a supported coding is fully
   decoded).  The model itself exhibits finding F12: a restart that happens after earlier chunks were consumed loses them; the
   ghost variable lateRestart marks exactly those behaviours, everything else must satisfy the clauses.                         *)
EXTENDS Integers, Sequences, FiniteSets, TLC
CONSTANTS W, FailAfter, Streams
VARIABLES stream, fed, state, kind, start, seen, restarts, decoded, raw, lateRestart
vars == <<stream, fed, state, kind, start, seen, restarts, decoded, raw, lateRestart>>
Init == /\ stream \in Streams /\ fed = 0 /\ state = "active" /\ kind = "announced" /\ start = 0
        /\ seen = 0 /\ restarts = 0 /\ decoded = {} /\ raw = {} /\ lateRestart = FALSE
RightKind(k) == (stream = "good" /\ k = "announced") \/ (stream = "other" /\ k = "other")
Accepts(k, st, sn, n) == (RightKind(k) /\ st = 0) \/ (sn + n < FailAfter)
RECURSIVE Try(_, _, _, _, _, _)
Try(k, st, sn, rs, chunk, late) ==
  LET off == chunk[1]  n == chunk[2] IN
  IF Accepts(k, st, sn, n)
  THEN [state |-> "active", kind |-> k, start |-> st, seen |-> sn + n, restarts |-> rs, late |-> late,
        dec |-> IF RightKind(k) /\ st = 0 THEN off..(off + n - 1) ELSE {}, raw |-> {}]
  ELSE IF rs < 3
  THEN LET k2 == IF rs = 0 THEN k ELSE (IF k = "announced" THEN "other" ELSE "announced") IN
       Try(k2, off, 0, rs + 1, chunk, late \/ off > 0)          \* restart: ONLY this chunk is fed again (htp_decompressors.c restart path)
  ELSE [state |-> "passthrough", kind |-> k, start |-> st, seen |-> sn, restarts |-> rs, late |-> late \/ off > 0,
        dec |-> {}, raw |-> off..(off + n - 1)]
Feed(n) ==
  /\ fed + n <= W /\ n >= 1
  /\ IF state = "passthrough"
     THEN /\ raw' = raw \cup fed..(fed + n - 1) /\ UNCHANGED <<state, kind, start, seen, restarts, decoded, lateRestart>>
     ELSE LET r == Try(kind, start, seen, restarts, <<fed, n>>, lateRestart) IN
          /\ state' = r.state /\ kind' = r.kind /\ start' = r.start /\ seen' = r.seen /\ restarts' = r.restarts
          /\ decoded' = decoded \cup r.dec /\ raw' = raw \cup r.raw /\ lateRestart' = r.late
  /\ fed' = fed + n /\ UNCHANGED stream
Next == \E n \in 1..W : Feed(n)
Spec == Init /\ [][Next]_vars
NothingLost == fed = W => (decoded \cup raw) = 0..(W - 1)
Faithful == (fed = W /\ stream \in {"good", "other"}) => decoded = 0..(W - 1)
\* the clauses modulo finding F12 (a restart after earlier chunks had been consumed), and the finding itself as a reachability witness
NothingLostModF12 == lateRestart \/ NothingLost
FaithfulModF12 == lateRestart \/ Faithful
NoDoubleDelivery == decoded \cap raw = {}
F12Unreachable == ~(fed = W /\ lateRestart /\ (decoded \cup raw) # 0..(W - 1))        \* expected to be VIOLATED: witnesses F12 on the design
=============================================================================
