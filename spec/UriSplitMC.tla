----------------------------- MODULE UriSplitMC -----------------------------
(* Meta-properties of the reference UriSplit!Split, checked by TLC for every target of the prefix families:
   Rejoin (the components with their delimiters reproduce the target minus trailing spaces), SlashMeansNoAuthority. *)
EXTENDS UriSplit
CONSTANTS Alphabet, MaxLen, Prefixes
VARIABLE t
RECURSIVE SeqsUpTo(_)
SeqsUpTo(n) == IF n = 0 THEN {<<>>} ELSE LET S == SeqsUpTo(n - 1) IN S \cup {Append(s, a) : s \in {x \in S : Len(x) = n - 1}, a \in Alphabet}
Init == t \in {p \o s : p \in Prefixes, s \in SeqsUpTo(MaxLen)}
Next == UNCHANGED t
RejoinOK == Rejoin(Split(t)) = RTrim(t)
SlashMeansNoAuthority == (t # <<>> /\ t[1] = SLASH) => LET u == Split(t) IN u.scheme = None /\ u.hostname = None /\ u.username = None /\ u.port = None
PortRange == PortOf(Split(t)) \in {-1} \cup 1..65535
Pfx == {<<>>, <<97>>, <<97, 58>>, <<97, 58, 47>>, <<97, 58, 47, 47>>, <<97, 58, 47, 47, 97, 64>>, <<97, 58, 47, 47, 91>>, <<47, 47>>, <<47>>}
=============================================================================
