---------------------------- MODULE UriSplitRows ----------------------------
(* Judges rows recorded from htp_parse_uri (via "direct") and from a real request line (via "request": tx->parsed_uri_raw
   and tx->parsed_uri->port_number after REQUEST_LINE) against UriSplit!Split / PortNumber, and the partition property itself. *)
EXTENDS UriSplit, Json, IOUtils
Rows == ndJsonDeserialize(IOEnv.ROWS)
VARIABLE k
RInit == k \in 1..Len(Rows)
RNext == UNCHANGED k
Norm(u) == [scheme |-> u.scheme, username |-> u.username, password |-> u.password, hostname |-> u.hostname, port |-> u.port,
            path |-> u.path, query |-> u.query, fragment |-> u.fragment]
RowOK == LET r == Rows[k]
             e == Split(r.in)
             o == Norm(r.out)
         IN /\ o = e                                            \* components equal the reference split
            /\ Rejoin(o) = RTrim(r.in)                          \* partition: nothing invented, nothing dropped
            /\ (r.in # <<>> /\ r.in[1] = SLASH => o.scheme = None /\ o.hostname = None /\ o.port = None /\ o.username = None)
            /\ (r.via = "request" => r.pn = PortOf(e))          \* numeric port
ASSUME PrintT(<<"CENSUS", Len(Rows), Cardinality({<<Rows[i].in, Rows[i].via>> : i \in 1..Len(Rows)})>>)
=============================================================================
