-------------------------------- MODULE Cost --------------------------------
(* C08 - a cost law for the stream parser.  A row is the doubling ladder of one pump pattern  prefix + unit^k + suffix  in one delivery
   mode: for each k the total work w (basic blocks executed in libhtp + bytes moved by its memcpy / moving realloc, in units of 64),
   the stream length and the sum over all calls of the bytes the parser had buffered when the call started (both in units of 64).
   The law:  w <= A * (length + buffered) + B  - work is proportional to the bytes given plus the (capped, C10) amount buffered.
     NormalisedCost(j) = w[j] / (len[j] + buf[j] + 1)
     Bounded  : NormalisedCost(j) <= 4 * base + 8     (base = the value calibrated on the reference tree for this pattern and mode)
     LinearTotal : w[j] / (len[j] + 1) <= 2 * w[j - 3] / (len[j - 3] + 1) + 4   - the same without the buffered term (see below)
     NoGrowth : NormalisedCost(j) <= 2 * NormalisedCost(j - 3) + 4   - the constant-free clause: repeating a construct 8 times as often
                must not make the work PER BYTE grow (a quadratic construct doubles it with every doubling of k)                 *)
EXTENDS Integers, Sequences, FiniteSets, TLC, Json, IOUtils
Rows == ndJsonDeserialize(IOEnv.ROWS)
VARIABLE k
Init == k \in 1..Len(Rows)
Next == UNCHANGED k
NC(r, j) == r.ws[j] \div (r.lens[j] + r.bufsums[j] + 1)
Bounded == LET r == Rows[k] IN \A j \in 1..Len(r.ws) : NC(r, j) <= 4 * r.base + 8
\* judged at the top of the ladder (small k is dominated by warm-up effects that level off at the library's own caps)
NoGrowth == LET r == Rows[k]  n == Len(r.ws) IN \A j \in {x \in {n - 1, n} : x >= 4} : NC(r, j) <= 2 * NC(r, j - 3) + 4
\* the first sentence of C08 taken literally - work <= A * length + B, whatever was buffered: the work per STREAM byte must not grow
\* when the construct is repeated 8 times as often (a buffer that grows with the input and is scanned again on every call passes
\* NoGrowth, because the buffered amount grows as fast as the work, but not this clause)
AC(r, j) == r.ws[j] \div (r.lens[j] + 1)
LinearTotal == LET r == Rows[k]  n == Len(r.ws) IN \A j \in {x \in {n - 1, n} : x >= 4} : AC(r, j) <= 2 * AC(r, j - 3) + 4
\* the ladder really pumped: the stream length at least doubles... (vacuity guard, not a property of the library)
Pumped == LET r == Rows[k] IN \A j \in 2..Len(r.lens) : r.lens[j] > r.lens[j - 1]
ASSUME PrintT(<<"CENSUS", Len(Rows), Cardinality({<<Rows[i].pat, Rows[i].mode>> : i \in 1..Len(Rows)})>>)
=============================================================================
