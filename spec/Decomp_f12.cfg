CONSTANTS W = 4  FailAfter = 2  Streams = {"good", "other", "garbage"}
SPECIFICATION Spec
INVARIANTS F12Unreachable
CHECK_DEADLOCK FALSE
