------------------------------- MODULE ResLine -------------------------------
(* C02 - the status line: protocol, status code and reason phrase as htp_parse_response_line_generic splits them, the numeric
   status (htp_parse_status: decimal, 100..999, otherwise invalid) and the "is this a status line at all" test of RES_LINE
   (htp_treat_response_line_as_body).  Input: the line as the transaction reports it.
   Meta-property: the three components are consecutive substrings of the line separated only by whitespace.                  *)
EXTENDS ReqLine
IsDigit(b) == b >= 48 /\ b <= 57
\* the line is a status line iff, after whitespace and NUL bytes, it starts with "http" in any letter case
RECURSIVE SkipSpNul(_, _)
SkipSpNul(l, i) == IF i <= Len(l) /\ (IsSp(l[i]) \/ l[i] = 0) THEN SkipSpNul(l, i + 1) ELSE i
LowerB(b) == IF b >= 65 /\ b <= 90 THEN b + 32 ELSE b
LooksLikeStatusLine(l) == LET p == SkipSpNul(l, 1) IN
                          Len(l) >= p + 3 /\ <<LowerB(l[p]), LowerB(l[p + 1]), LowerB(l[p + 2]), LowerB(l[p + 3])>> = <<104, 116, 116, 112>>
RECURSIVE DropZeros(_)
DropZeros(s) == IF Len(s) > 1 /\ s[1] = 48 THEN DropZeros(Tail(s)) ELSE s
RECURSIVE DecVal(_, _)
DecVal(s, acc) == IF s = <<>> THEN acc ELSE DecVal(Tail(s), acc * 10 + (s[1] - 48))
StatusNumber(s) == IF s = <<>> \/ \E k \in 1..Len(s) : ~IsDigit(s[k]) THEN -1
                   ELSE LET d == DropZeros(s) IN IF Len(d) # 3 THEN -1 ELSE LET v == DecVal(d, 0) IN IF v >= 100 THEN v ELSE -1
SR(protocol, status, message, pnum, snum, ps, ss, ms) ==
  [protocol |-> protocol, status |-> status, message |-> message, pnum |-> pnum, snum |-> snum, ps |-> ps, ss |-> ss, ms |-> ms]
ParseStatusLine(l) ==
  LET n == Len(l)
      ps == SkipSp(l, 1)
      pe == SkipNonSp(l, ps)
  IN IF pe = ps THEN SR(None, None, None, -2, -1, n + 1, n + 1, n + 1)
     ELSE LET proto == SubSeq(l, ps, pe - 1)
              ss == SkipSp(l, pe)
              se == SkipNonSp(l, ss)
          IN IF ss > n THEN SR(Some(proto), None, None, ProtocolNumber(proto), -1, ps, n + 1, n + 1)
             ELSE LET st == SubSeq(l, ss, se - 1)
                      ms == SkipSp(l, se)
                  IN IF ms > n THEN SR(Some(proto), Some(st), None, ProtocolNumber(proto), StatusNumber(st), ps, ss, n + 1)
                     ELSE SR(Some(proto), Some(st), Some(SubSeq(l, ms, n)), ProtocolNumber(proto), StatusNumber(st), ps, ss, ms)
StatusPartition(l) ==
  LET r == ParseStatusLine(l)  n == Len(l)
      pe == IF r.protocol = None THEN r.ps ELSE r.ps + Len(r.protocol[1])
      se == IF r.status = None THEN r.ss ELSE r.ss + Len(r.status[1])
  IN /\ AllSp(l, 1, r.ps - 1)
     /\ (r.protocol # None => r.protocol[1] = SubSeq(l, r.ps, pe - 1) /\ r.protocol[1] # <<>>)
     /\ (r.protocol # None => AllSp(l, pe, r.ss - 1))
     /\ (r.status # None => r.status[1] = SubSeq(l, r.ss, se - 1) /\ r.status[1] # <<>>)
     /\ (r.status # None => AllSp(l, se, r.ms - 1))
     /\ (r.message # None => r.message[1] = SubSeq(l, r.ms, n) /\ r.message[1] # <<>>)
     /\ (r.protocol = None => r.status = None) /\ (r.status = None => r.message = None)
=============================================================================
