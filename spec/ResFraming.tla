---------------------------- MODULE ResFraming ----------------------------
(* C06 - how the body of a response is framed: htp_connp_RES_BODY_DETERMINE (htp_response.c) transcribed decision by decision
   for requests other than CONNECT (CONNECT is C16's).
   Input r: m ("GET" | "HEAD"), status (number), ver11 (BOOLEAN), te (<<>> = no field, <<v>> = combined value), cls (the values of
   the Content-Length fields in wire order: a repeated field keeps the FIRST value and is marked repeated), ct (<<>> | <<v>>).
   Result: the decision and what is visible after the call that delivered the head and nothing else:
     kind  : "tunnel" | "interim" | "nobody" | "chunked" | "cl" | "cl0" | "close" | "error"
     state : out_state afterwards, rc : what htp_connp_res_data returned, tc : response_transfer_coding, sp : response_progress,
     smug  : HTP_REQUEST_SMUGGLING raised, clen : response_content_length ([code, v] as in Prims), ctype : response_content_type. *)
EXTENDS Prims
N_chunked == <<99, 104, 117, 110, 107, 101, 100>>
N_byteranges == <<109, 117, 108, 116, 105, 112, 97, 114, 116, 47, 98, 121, 116, 101, 114, 97, 110, 103, 101, 115>>
None == <<>>
IsSpaceR(b) == b \in {32, 12, 11, 9, 13, 10}
RECURSIVE TypeCut(_, _)
TypeCut(v, i) == IF i <= Len(v) /\ ~IsSpaceR(v[i]) /\ v[i] # 59 THEN TypeCut(v, i + 1) ELSE i
\* response_content_type: lower case, cut at the first whitespace or ';'
CType(ct) == IF ct = None THEN None ELSE <<SubSeq(LowerSeq(ct[1]), 1, TypeCut(ct[1], 1) - 1)>>
Positive(n) == n.code = 0 /\ n.v # <<0>>
Out(kind, state, rc, tc, sp, smug, clen, ctype) == [kind |-> kind, state |-> state, rc |-> rc, tc |-> tc, sp |-> sp, smug |-> smug, clen |-> clen, ctype |-> ctype]
Unset == [code |-> -1, v |-> <<>>]          \* response_content_length before it is determined

Determine(r) ==
  LET hasTe == r.te # None   hasCl == r.cls # <<>>
      cl == IF hasCl THEN ContentLength(r.cls[1]) ELSE Unset
      noBodyStatus == (r.status >= 100 /\ r.status <= 199) \/ r.status = 204 \/ r.status = 304
  IN
  \* 101 without framing fields: both directions become a tunnel
  IF r.status = 101 /\ ~hasTe /\ ~hasCl THEN Out("tunnel", "RES_BODY_FINALIZE", "TUNNEL", 0, 2, FALSE, Unset, None)
  \* interim 100 (a positive Content-Length makes it a final response): headers dropped, another status line expected
  ELSE IF r.status = 100 /\ ~hasTe /\ ~(hasCl /\ Positive(cl)) THEN Out("interim", "RES_LINE", "DATA", 0, 1, FALSE, Unset, None)
  \* no body by method or status (a 1xx / 204 / 304 that carries framing fields is given a body after all)
  ELSE IF r.m = "HEAD" \/ (noBodyStatus /\ ~hasTe /\ ~hasCl) THEN Out("nobody", "RES_IDLE", "DATA", 1, 5, FALSE, Unset, None)
  \* chunked: the Transfer-Encoding value CONTAINS "chunked" (any case, NUL bytes skipped); Content-Length next to it = smuggling
  ELSE IF hasTe /\ IndexOfNocaseNorZero(r.te[1], N_chunked) # -1
       THEN Out("chunked", "RES_BODY_CHUNKED_LENGTH", "DATA", 3, 3, hasCl, Unset, CType(r.ct))
  ELSE IF hasCl THEN
       IF cl.code < 0 THEN Out("error", "RES_BODY_DETERMINE", "ERROR", 2, 2, Len(r.cls) > 1, cl, CType(r.ct))
       ELSE IF cl.v = <<0>> THEN Out("cl0", "RES_IDLE", "DATA", 2, 5, Len(r.cls) > 1, cl, CType(r.ct))
       ELSE Out("cl", "RES_BODY_IDENTITY_CL_KNOWN", "DATA", 2, 3, Len(r.cls) > 1, cl, CType(r.ct))
  ELSE IF r.ct # None /\ IndexOfNocase(r.ct[1], N_byteranges) # -1
       THEN Out("error", "RES_BODY_DETERMINE", "ERROR", 0, 2, FALSE, Unset, CType(r.ct))
  ELSE Out("close", "RES_BODY_IDENTITY_STREAM_CLOSE", "DATA", 2, 3, FALSE, Unset, CType(r.ct))
=============================================================================
