------------------------------ MODULE HdrLineMC ------------------------------
EXTENDS HdrLine
CONSTANT MaxLen
VARIABLE l
Alpha == {88, COLON, 32, 9, 0, 64, 11}          \* X : SP TAB NUL @ VT
Init == l \in UNION {[1..n -> Alpha] : n \in 1..MaxLen}
Next == UNCHANGED l
Inv == Sane(l)
ASSUME ReqHeader(<<88, 58, 32, 97, 32>>) = H(<<88>>, <<97>>, FALSE, FALSE)
ASSUME ReqHeader(<<88, 32, 58, 97>>) = H(<<88>>, <<97>>, FALSE, TRUE)
ASSUME ReqHeader(<<88, 97>>) = H(<<>>, <<88, 97>>, TRUE, FALSE)
ASSUME ResHeader(<<88, 97>>) = H(<<>>, <<88, 97>>, TRUE, TRUE)
ASSUME ReqHeader(<<58, 97>>) = H(<<>>, <<97>>, FALSE, TRUE)
ASSUME ReqHeader(<<88, 58, 32, 32>>) = H(<<88>>, <<>>, FALSE, FALSE)
=============================================================================
