-------------------------- MODULE MpartBoundaryRows --------------------------
(* Judges rows recorded from htp_mpartp_find_boundary (harness/fn_mpbd.c) against MpartBoundary!FindBoundary. *)
EXTENDS MpartBoundary, Json, IOUtils
Rows == ndJsonDeserialize(IOEnv.ROWS)
VARIABLE k
RInit == k \in 1..Len(Rows)
RNext == UNCHANGED k
ToSet(s) == {s[i] : i \in 1..Len(s)}
RowOK == LET r == Rows[k]  e == FindBoundary(r.ct) IN
         /\ r.rc = e.rc /\ r.boundary = e.boundary /\ ToSet(r.flags) = e.flags /\ ~r.other
ASSUME PrintT(<<"CENSUS", Len(Rows), Cardinality({Rows[i].ct : i \in 1..Len(Rows)})>>)
=============================================================================
