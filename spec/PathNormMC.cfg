CONSTANTS MaxDots = 9  MaxAtoms = 3
INIT Init
NEXT Next
INVARIANTS DotsOK PipelineOK
CHECK_DEADLOCK FALSE
