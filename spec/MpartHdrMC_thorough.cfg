\* alphabet: A a : SP TAB NUL ( VT
CONSTANTS Alphabet = {65, 97, 58, 32, 9, 0, 40, 11}  MaxLen = 3  MaxLines = 2
INIT Init
NEXT Next
INVARIANTS Shape Accounted
CHECK_DEADLOCK FALSE
