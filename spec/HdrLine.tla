------------------------------- MODULE HdrLine -------------------------------
(* C02 - one header line: field name and value as the generic request / response header parsers split them
   (htp_parse_request_header_generic, htp_parse_response_header_generic), transcribed, with the per-field indicators
   UNPARSEABLE (no colon) and INVALID (empty name, whitespace before the colon, name not a token).
   Input: the line without its terminator.  Meta-property: a line with a colon is  name [ws] ":" [LWS] value [LWS]  - the
   name and the value are substrings of the line around the FIRST colon, and nothing but whitespace is dropped.            *)
EXTENDS Integers, Sequences, FiniteSets, TLC
COLON == 58
IsLws(b) == b \in {32, 9}
IsSp(b) == b \in {32, 12, 11, 9, 13, 10}
IsSeparator(b) == b \in {40, 41, 60, 62, 64, 44, 59, 58, 92, 34, 47, 91, 93, 63, 61, 123, 125, 32, 9}
IsToken(b) == b >= 32 /\ b <= 126 /\ ~IsSeparator(b)
RECURSIVE FindFirst(_, _, _)
FindFirst(l, i, S) == IF i > Len(l) THEN Len(l) + 1 ELSE IF l[i] \in S THEN i ELSE FindFirst(l, i + 1, S)
\* largest e' <= e such that e' = lo or l[e'] is not in the class
RECURSIVE TrimEndLws(_, _, _)
TrimEndLws(l, lo, e) == IF e > lo /\ IsLws(l[e]) THEN TrimEndLws(l, lo, e - 1) ELSE e
RECURSIVE TrimEndSp(_, _, _)
TrimEndSp(l, lo, e) == IF e > lo /\ IsSp(l[e]) THEN TrimEndSp(l, lo, e - 1) ELSE e
RECURSIVE SkipLws(_, _)
SkipLws(l, i) == IF i <= Len(l) /\ IsLws(l[i]) THEN SkipLws(l, i + 1) ELSE i
H(name, value, unparseable, invalid) == [name |-> name, value |-> value, unparseable |-> unparseable, invalid |-> invalid]
\* value = l[vs..ve] where trailing LWS is dropped but never the first byte of the value (the C loop stops at prev > value_start)
Value(l, vs) == IF vs > Len(l) THEN <<>> ELSE SubSeq(l, vs, TrimEndLws(l, vs, Len(l)))
ReqHeader(l) ==
  LET n == Len(l)
      c == FindFirst(l, 1, {0, COLON})                 \* the request side stops looking for the colon at a NUL byte
  IN IF c > n \/ l[c] = 0 THEN H(<<>>, l, TRUE, FALSE)
     ELSE LET ne == TrimEndLws(l, 0, c - 1)            \* name = l[1..ne]
              name == SubSeq(l, 1, ne)
          IN H(name, Value(l, SkipLws(l, c + 1)), FALSE,
               c = 1 \/ ne < c - 1 \/ \E k \in 1..ne : ~IsToken(l[k]))
ResHeader(l) ==
  LET n == Len(l)
      c == FindFirst(l, 1, {COLON})
  IN IF c > n THEN H(<<>>, Value(l, SkipLws(l, 1)), TRUE, TRUE)
     ELSE LET ne == TrimEndSp(l, 0, c - 1)              \* the response side drops any whitespace before the colon
              name == SubSeq(l, 1, ne)
          IN H(name, Value(l, SkipLws(l, c + 1)), FALSE,
               c = 1 \/ ne < c - 1 \/ \E k \in 1..ne : ~IsToken(l[k]))

(* ---------------- meta-properties ---------------- *)
IsPrefixOf(a, b) == Len(a) <= Len(b) /\ SubSeq(b, 1, Len(a)) = a
Shape(l, h, dropName) ==
  h.unparseable \/
  LET c == FindFirst(l, 1, {COLON}) IN
  /\ IsPrefixOf(h.name, l) /\ Len(h.name) < c
  /\ \A k \in (Len(h.name) + 1)..(c - 1) : dropName[l[k]]                   \* only whitespace between name and colon
  /\ \E vs \in (c + 1)..(Len(l) + 1) :
        /\ \A k \in (c + 1)..(vs - 1) : IsLws(l[k])
        /\ IsPrefixOf(h.value, SubSeq(l, vs, Len(l)))
        /\ \A k \in (vs + Len(h.value))..Len(l) : IsLws(l[k])               \* only LWS after the value
Sane(l) == /\ (\A k \in 1..Len(l) : l[k] # 0) => Shape(l, ReqHeader(l), [b \in 0..255 |-> IsLws(b)])
           /\ Shape(l, ResHeader(l), [b \in 0..255 |-> IsSp(b)])
           /\ (ReqHeader(l).unparseable <=> FindFirst(l, 1, {0, COLON}) > Len(l) \/ l[FindFirst(l, 1, {0, COLON})] = 0)
=============================================================================
