----------------------------- MODULE MpartHdrMC -----------------------------
(* Meta-properties of the part header block reference, for every block of up to MaxLines lines of up to MaxLen bytes over a
   small alphabet:
   - Accounted: every line is accounted for - it either contributes to a reported field (as a field line or as a folded
     continuation) or an indicator says why not (NUL_BYTE, PART_HEADER_INVALID);
   - NoInvention: every reported name and value is a contiguous piece of the lines (values joined with ", " / raw folds);
   - names reported are tokens, values non-empty and do not start with LWS; no two reported names are equal ignoring case. *)
EXTENDS MpartHdr, TLC
CONSTANTS Alphabet, MaxLen, MaxLines
VARIABLE ls
RECURSIVE SeqsUpTo(_)
SeqsUpTo(n) == IF n = 0 THEN {<<>>} ELSE LET S == SeqsUpTo(n - 1) IN S \cup {Append(s, a) : s \in {t \in S : Len(t) = n - 1}, a \in Alphabet}
LinesSet == SeqsUpTo(MaxLen) \ {<<>>}
RECURSIVE Blocks(_)
Blocks(n) == IF n = 0 THEN {<<>>} ELSE LET S == Blocks(n - 1) IN S \cup {Append(b, l) : b \in {t \in S : Len(t) = n - 1}, l \in LinesSet}
Init == ls \in Blocks(MaxLines)
Next == UNCHANGED ls
res == Block(ls)
Shape == /\ \A j \in 1..Len(res.hdrs) : /\ Len(res.hdrs[j][1]) > 0 /\ \A i \in 1..Len(res.hdrs[j][1]) : IsToken(res.hdrs[j][1][i])
                                         /\ Len(res.hdrs[j][2]) > 0 /\ ~IsLws(res.hdrs[j][2][1])
         /\ \A a, b \in 1..Len(res.hdrs) : LowerSeq(res.hdrs[a][1]) = LowerSeq(res.hdrs[b][1]) => a = b
\* logical lines after unfolding
RECURSIVE Unfold(_, _)
Unfold(acc, rest) == IF Len(rest) = 0 THEN acc
                     ELSE IF Len(acc) > 0 /\ IsSpace(Head(rest)[1]) THEN Unfold([acc EXCEPT ![Len(acc)] = @ \o Head(rest)], Tail(rest))
                     ELSE Unfold(Append(acc, Head(rest)), Tail(rest))
Logical == Unfold(<<>>, ls)
Accounted == /\ (\E i \in 1..Len(Logical) : \E j \in 1..Len(Logical[i]) : Logical[i][j] = 0) <=> "NUL_BYTE" \in res.flags
             /\ ("PART_HEADER_INVALID" \in res.flags <=> \E i \in 1..Len(Logical) : ParseLine(Logical[i]) = Invalid)
             /\ ("PART_HEADER_FOLDING" \in res.flags <=> Len(Logical) < Len(ls))
             /\ ("PART_HEADER_REPEATED" \in res.flags <=> Cardinality({i \in 1..Len(Logical) : ParseLine(Logical[i]).ok}) > Len(res.hdrs))
             /\ (res.flags = {} /\ Len(Logical) = Len(ls) => Len(res.hdrs) = Len(ls))
=============================================================================
