CONSTANT MaxLen = 6
INIT Init
NEXT Next
INVARIANT Inv
CHECK_DEADLOCK FALSE
