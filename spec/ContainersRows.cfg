INIT RInitR
NEXT RNext
INVARIANT RowOK
CHECK_DEADLOCK FALSE
