------------------------------ MODULE RingInd ------------------------------
(* Inductive invariant for the ring list (the shape of htp_list_array_t) with Apalache: for capacities up to MaxCap and an
   UNBOUNDED number of operations, the ring always represents the abstract sequence.  IndInv is inductive:
     Init => IndInv                    (apalache-mc check --init=Init --inv=IndInv --length=0)
     IndInv /\ Next => IndInv'         (apalache-mc check --init=IndInvInit --inv=IndInv --length=1)            *)
EXTENDS Integers, Sequences, Apalache

CONSTANT
  \* @type: Int;
  MaxCap

VARIABLES
  \* @type: Int -> Int;
  el,
  \* @type: Int;
  first,
  \* @type: Int;
  last,
  \* @type: Int;
  size,
  \* @type: Int;
  max,
  \* @type: Seq(Int);
  s

CInit == MaxCap = 8

Idx == 0..7
Vals == 0..3
Pos(k) == IF first + k < max THEN first + k ELSE first + k - max       \* physical position of logical index k

Init == /\ max \in {1, 2, 4} /\ el = [k \in Idx |-> 0] /\ first = 0 /\ last = 0 /\ size = 0 /\ s = <<>>

Push(v) ==
  /\ Len(s) < MaxCap
  /\ IF size >= max
     THEN \* grow: re-linearise into a block of twice the size, then store at position size
          /\ max' = max * 2
          /\ el' = [k \in Idx |-> IF k < size THEN el[Pos(k)] ELSE IF k = size THEN v ELSE 0]
          /\ first' = 0 /\ last' = IF size + 1 = max * 2 THEN 0 ELSE size + 1
     ELSE /\ max' = max
          /\ el' = [el EXCEPT ![last] = v]
          /\ first' = first /\ last' = IF last + 1 = max THEN 0 ELSE last + 1
  /\ size' = size + 1 /\ s' = Append(s, v)
Pop ==
  /\ size > 0
  /\ last' = Pos(size - 1) /\ size' = size - 1 /\ s' = SubSeq(s, 1, Len(s) - 1)
  /\ UNCHANGED <<el, first, max>>
Shift ==
  /\ size > 0
  /\ first' = (IF first + 1 = max THEN 0 ELSE first + 1) /\ size' = size - 1 /\ s' = Tail(s)
  /\ UNCHANGED <<el, last, max>>
Replace(i, v) ==
  /\ i < size
  /\ el' = [el EXCEPT ![Pos(i)] = v] /\ s' = [s EXCEPT ![i + 1] = v]
  /\ UNCHANGED <<first, last, size, max>>
Clear == /\ first' = 0 /\ last' = 0 /\ size' = 0 /\ s' = <<>> /\ UNCHANGED <<el, max>>
Next == (\E v \in Vals : Push(v)) \/ Pop \/ Shift \/ (\E i \in Idx, v \in Vals : Replace(i, v)) \/ Clear

IndInv ==
  /\ max \in {1, 2, 4, 8} /\ first \in 0..(max - 1) /\ last \in 0..(max - 1) /\ size \in 0..max
  /\ DOMAIN el = Idx
  /\ last = (IF first + size < max THEN first + size ELSE first + size - max)
  /\ Len(s) = size /\ size <= MaxCap
  /\ \A k \in Idx : k < size => s[k + 1] = el[Pos(k)]
\* the same predicate used as the initial condition of the inductive step (all variables constrained)
IndInvInit == /\ el = Gen(8) /\ first = Gen(1) /\ last = Gen(1) /\ size = Gen(1) /\ max = Gen(1) /\ s = Gen(8)
              /\ \A k \in Idx : el[k] \in Vals
              /\ \A k \in DOMAIN s : s[k] \in Vals
              /\ IndInv
=============================================================================
