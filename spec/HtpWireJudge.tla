---------------------------- MODULE HtpWireJudge ----------------------------
(* Judges observations of the real parser against HtpWire!Expected.
   A row is [i, n, sched, ref, txs, pers]: the exchange index and size, the delivery schedule label, the row number of the
   whole-delivery observation of the same exchange, and the transaction dump after close (harness/rec.c Final record).
   Fidelity (C02): every reported field equals Expected(Exchange(i, n)) - nothing invented, dropped, truncated or borrowed.
   Invariance (C03): the complete dump (all parsed fields, normalised URI, parameters, delivered body length and digest, lengths, flags
   other than MULTI_PACKET_HEAD, per-transaction callback order) equals that of the whole-delivery run.                       *)
EXTENDS HtpWire, Json, IOUtils
Rows == ndJsonDeserialize(IOEnv.ROWS)
VARIABLE k
RInitW == k \in 1..Len(Rows)
RNext == UNCHANGED k

HdrOK(obs, exp) == /\ Len(obs) = Len(exp)
                   /\ \A j \in 1..Len(exp) : obs[j][1] = Some(exp[j].name) /\ obs[j][2] = Some(exp[j].value)
PairsOK(obs, exp) == Len(obs) = Len(exp) /\ \A j \in 1..Len(exp) : obs[j][1] = Some(exp[j][1]) /\ obs[j][2] = Some(exp[j][2])
TxOK(o, e) ==
  /\ ~o.dead /\ o.rp = 5 /\ o.sp = 5
  /\ o.method = Some(e.method) /\ o.uri = Some(e.uri) /\ o.protocol = Some(e.protocol)
  /\ o.method_number = e.method_number /\ o.protocol_number = e.protocol_number /\ o.res_protocol_number = e.res_protocol_number
  /\ HdrOK(o.req_headers, e.req_headers)
  /\ o.hostname = e.hostname /\ o.port = e.port
  /\ o.parsed_uri_raw.scheme = e.scheme /\ o.parsed_uri_raw.username = e.user /\ o.parsed_uri_raw.password = e.pass
  /\ o.parsed_uri_raw.hostname = e.uhost /\ o.parsed_uri_raw.port = e.uport /\ o.parsed_uri_raw.path = e.path
  /\ o.parsed_uri_raw.query = e.query /\ o.parsed_uri_raw.fragment = e.frag
  /\ o.parsed_uri.path = e.npath
  /\ PairsOK(o.params, e.qparams) /\ PairsOK(o.cookies, e.cookies)
  /\ o.auth_user = e.auth_user /\ o.auth_pass = e.auth_pass
  /\ o.res_protocol = Some(e.res_protocol) /\ o.status = Some(e.status) /\ o.status_number = e.status_number /\ o.message = Some(e.message)
  /\ HdrOK(o.res_headers, e.res_headers)
  \* bodies: length and digest of the bytes handed to the body callbacks = the entity (decoded payload), coding recognised
  /\ o.qbody = BodyDigest(e.req_body) /\ o.sbody = BodyDigest(e.res_body) /\ o.res_ce = CodingNumber(e.res_coding)
\* completed: the execution ran to its end and produced a dump; an execution in which the recorder died (sanitizer abort, crash) has no
\* result and is neither faithful nor the same as anything
Fidelity == LET r == Rows[k]  e == Expected(Exchange(r.i, r.n)) IN
            /\ r.completed
            /\ Len(r.txs) = r.n
            /\ \A j \in 1..r.n : TxOK(r.txs[j], e[j])
\* the dump without the multi-packet-head indicator
Strip(t) == IF t.dead THEN t ELSE [t EXCEPT !.mph = FALSE]
Invariance == LET r == Rows[k]  w == Rows[r.ref] IN
              /\ r.completed
              /\ Len(r.txs) = Len(w.txs)
              /\ (r.samearr => r.pipelined = w.pipelined)      \* the pipelining indicator depends on the arrival order of the two directions (C04), not on the cuts
              /\ \A j \in 1..Len(w.txs) : Strip(r.txs[j]) = Strip(w.txs[j])
ASSUME PrintT(<<"CENSUS", Len(Rows), Cardinality({<<Rows[j].i, Rows[j].n, Rows[j].sched, Rows[j].pers>> : j \in 1..Len(Rows)})>>)
=============================================================================
