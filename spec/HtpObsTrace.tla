----------------------------- MODULE HtpObsTrace -----------------------------
(* Trace validation against the observers: consumes the NDJSON event log written by harness/rec.c (many executions
   concatenated, each starting with a Reset record and ending with an End record), folds every event through
   HtpObs!ObsStep and prints one VIOLREC record per execution whose observer state holds clause violations.
   Deterministic and linear in the length of the log; -workers 1.                                               *)
EXTENDS HtpObs, Json, IOUtils

TraceLog == ndJsonDeserialize(IOEnv.TRACE)
VARIABLES l, o
tvars == <<l, o>>

TInit == l = 1 /\ o = ObsInit
Rec(ob) == [run |-> ob.run, cls |-> ob.cfg.cls, viol |-> ob.viol, sites |-> Sites(ob), gsites |-> ob.gsites]
TNext == /\ l <= Len(TraceLog)
         /\ LET ev == TraceLog[l] IN
            /\ o' = (IF ev.e = "Reset" THEN ObsReset(ev) ELSE ObsStep(o, ev))
            /\ (ev.e = "End" /\ o'.viol # {} => PrintT(<<"VIOLREC", ToJson(Rec(o'))>>))
            \* an execution that never reached its End record (the recorder died) is reported at the next Reset
            /\ (ev.e = "Reset" /\ o.run # "" /\ ~o.ended => PrintT(<<"VIOLREC", ToJson(Rec(Add(o, {V("C01:EveryCallReturns", "no-End-record", -1)})))>>))
         /\ l' = l + 1
TSpec == TInit /\ [][TNext]_tvars

\* acceptance: the whole log was consumed (POSTCONDITION) and the number of executions seen is printed
Executions == Cardinality({k \in 1..Len(TraceLog) : TraceLog[k].e = "End"})
Consumed == /\ TLCGet("stats").diameter - 1 = Len(TraceLog)
            /\ PrintT(<<"CONSUMED", Len(TraceLog), Executions>>)
=============================================================================
