----------------------------- MODULE MpartCDRows -----------------------------
(* Judges rows recorded from Content-Disposition values of real multipart parts (harness/fn_mpcd.c) against MpartCD!ParseCD. *)
EXTENDS MpartCD, Json, IOUtils
Rows == ndJsonDeserialize(IOEnv.ROWS)
VARIABLE k
RInit == k \in 1..Len(Rows)
RNext == UNCHANGED k
ToSet(s) == {s[i] : i \in 1..Len(s)}
RowOK == LET r == Rows[k]  e == ParseCD(r.hv) IN
         /\ r.got /\ r.nparts = 1
         /\ r.name = e.name /\ r.file = e.file /\ ToSet(r.flags) = e.flags
ASSUME PrintT(<<"CENSUS", Len(Rows), Cardinality({Rows[i].raw : i \in 1..Len(Rows)})>>)
=============================================================================
