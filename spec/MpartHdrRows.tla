----------------------------- MODULE MpartHdrRows -----------------------------
(* Judges rows recorded from the header blocks of real multipart parts (harness/fn_mphd.c) against MpartHdr!Block: the part's
   header table and the header-block indicators must equal the reference under every delivery recorded (whole, one byte per
   call, a cut in the middle). *)
EXTENDS MpartHdr, Json, IOUtils, TLC
Rows == ndJsonDeserialize(IOEnv.ROWS)
VARIABLE k
RInit == k \in 1..Len(Rows)
RNext == UNCHANGED k
ToSet(s) == {s[i] : i \in 1..Len(s)}
RowOK == LET r == Rows[k]  e == Block(r.lines) IN
         \A c \in 1..Len(r.outs) :
            /\ r.outs[c].nparts = 1
            /\ Len(r.outs[c].hdrs) = Len(e.hdrs)
            /\ \A j \in 1..Len(e.hdrs) : r.outs[c].hdrs[j][1] = e.hdrs[j][1] /\ r.outs[c].hdrs[j][2] = e.hdrs[j][2]
            /\ ToSet(r.outs[c].flags) = e.flags
            /\ r.outs[c].ct = e.ct
ASSUME PrintT(<<"CENSUS", Len(Rows), Cardinality({Rows[i].lines : i \in 1..Len(Rows)})>>)
=============================================================================
