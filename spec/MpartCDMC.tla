------------------------------ MODULE MpartCDMC ------------------------------
EXTENDS MpartCD
CONSTANT MaxLen
VARIABLE r
Alpha == {97, DQ, BSL, SEMI, EQ, 32}
Init == r \in UNION {[1..n -> Alpha] : n \in 0..MaxLen}
Next == UNCHANGED r
Sane == DecodeSane(r) /\ OneFlag(FORMDATA \o r)
S(str) == str
ASSUME ParseCD(FORMDATA \o <<59, 32>> \o NAME \o <<61, 34, 97, 92, 34, 98, 34>>) = R(Some(<<97, 34, 98>>), None, {})
ASSUME ParseCD(FORMDATA \o <<59>> \o NAME \o <<61, 34, 97, 34, 59>> \o NAME \o <<61, 34, 98, 34>>) = R(Some(<<97>>), None, {"CD_PARAM_REPEATED"})
ASSUME ParseCD(FORMDATA \o <<59, 120, 61, 34, 34>>) = R(None, None, {"CD_PARAM_UNKNOWN"})
ASSUME ParseCD(FORMDATA \o <<59>> \o NAME \o <<61, 34, 97, 92, 92, 34>>) = R(Some(<<97, 92>>), None, {})
ASSUME ParseCD(FORMDATA \o <<59>> \o NAME \o <<61, 34, 97>>) = R(None, None, {"CD_SYNTAX_INVALID"})
ASSUME ParseCD(FORMDATA) = R(None, None, {})
=============================================================================
