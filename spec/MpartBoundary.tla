---------------------------- MODULE MpartBoundary ----------------------------
(* C14 - extracting the multipart boundary from a Content-Type value (htp_mpartp_find_boundary with htp_mpartp_validate_boundary and
   htp_mpartp_validate_content_type), transcribed: where "boundary" is found (any letter case), what may stand between it and '=',
   quoted and unquoted boundaries, what may follow, which characters make a boundary unusual or invalid, and the checks on the
   Content-Type value as a whole.  Result: DECLINED / OK, the boundary, and the indicators HBOUNDARY_INVALID / HBOUNDARY_UNUSUAL. *)
EXTENDS Integers, Sequences, FiniteSets, TLC
None == <<>>
Some(x) == <<x>>
EQ == 61  DQ == 34  COMMA == 44  SEMI == 59
IsSp(b) == b \in {32, 12, 11, 9, 13, 10}
Lower(b) == IF b >= 65 /\ b <= 90 THEN b + 32 ELSE b
BOUNDARY == <<98, 111, 117, 110, 100, 97, 114, 121>>
MFD == <<109, 117, 108, 116, 105, 112, 97, 114, 116, 47, 102, 111, 114, 109, 45, 100, 97, 116, 97, 59>>          \* "multipart/form-data;"
MatchNocaseAt(s, i, w) == i + Len(w) - 1 <= Len(s) /\ \A k \in 1..Len(w) : Lower(s[i + k - 1]) = w[k]
RECURSIVE FindNocase(_, _, _)
FindNocase(s, i, w) == IF i + Len(w) - 1 > Len(s) THEN 0 ELSE IF MatchNocaseAt(s, i, w) THEN i ELSE FindNocase(s, i + 1, w)      \* 1-based, 0 = none
RECURSIVE FindByte(_, _, _)
FindByte(s, i, c) == IF i > Len(s) THEN Len(s) + 1 ELSE IF s[i] = c THEN i ELSE FindByte(s, i + 1, c)
RECURSIVE SkipSp(_, _)
SkipSp(s, i) == IF i <= Len(s) /\ IsSp(s[i]) THEN SkipSp(s, i + 1) ELSE i
RECURSIVE UnquotedEnd(_, _)
UnquotedEnd(s, i) == IF i <= Len(s) /\ s[i] # COMMA /\ s[i] # SEMI /\ ~IsSp(s[i]) THEN UnquotedEnd(s, i + 1) ELSE i

\* characters of the boundary itself
Plain(b) == (b >= 48 /\ b <= 57) \/ (b >= 97 /\ b <= 122) \/ (b >= 65 /\ b <= 90) \/ b = 45
Unusual(b) == b \in {39, 40, 41, 43, 95, 44, 46, 47, 58, 61, 63}
BoundaryFlags(b) == (IF Len(b) = 0 \/ Len(b) > 70 THEN {"INVALID"} ELSE {})
                    \cup (IF \E k \in 1..Len(b) : ~Plain(b[k]) /\ Unusual(b[k]) THEN {"UNUSUAL"} ELSE {})
                    \cup (IF \E k \in 1..Len(b) : ~Plain(b[k]) /\ ~Unusual(b[k]) THEN {"INVALID"} ELSE {})
\* the Content-Type as a whole: every "boundary" (any case) that still has a '=' somewhere behind it counts; it must be spelled in
\* lower case; more than one is invalid
RECURSIVE CtScan(_, _, _, _)
CtScan(ct, from, count, badcase) ==
  LET i == FindNocase(ct, from, BOUNDARY) IN
  IF i = 0 \/ FindByte(ct, i, EQ) > Len(ct) THEN [count |-> count, badcase |-> badcase]
  ELSE CtScan(ct, i + 8, count + 1, badcase \/ \E k \in 0..7 : ~(ct[i + k] >= 97 /\ ct[i + k] <= 122))
CtFlags(ct) == LET r == CtScan(ct, 1, 0, FALSE) IN
               (IF r.badcase \/ r.count > 1 THEN {"INVALID"} ELSE {})
               \cup (IF Len(ct) >= Len(MFD) /\ SubSeq(ct, 1, Len(MFD)) = MFD THEN {} ELSE {"INVALID"})

B(rc, boundary, flags) == [rc |-> rc, boundary |-> boundary, flags |-> flags]
FindBoundary(ct) ==
  LET i == FindNocase(ct, 1, BOUNDARY) IN
  IF i = 0 THEN B("DECLINED", None, {})
  ELSE
  LET d == SubSeq(ct, i + 8, Len(ct))                        \* what follows the word
      n == Len(d)
      e == FindByte(d, 1, EQ)                                \* position of '='
      f1 == (IF \E k \in 1..(IF e > n THEN n ELSE e - 1) : IsSp(d[k]) THEN {"UNUSUAL"} ELSE {})
            \cup (IF \E k \in 1..(IF e > n THEN n ELSE e - 1) : ~IsSp(d[k]) THEN {"INVALID"} ELSE {})
  IN IF e > n THEN B("DECLINED", None, f1 \cup {"INVALID"})
     ELSE
     LET s == SkipSp(d, e + 1)
         f2 == f1 \cup (IF s > e + 1 THEN {"UNUSUAL"} ELSE {})
     IN IF s > n THEN B("DECLINED", None, f2 \cup {"INVALID"})
        ELSE
        LET quoted == d[s] = DQ
            q == FindByte(d, s + 1, DQ)                      \* closing quote
            bstart == IF quoted THEN (IF q > n THEN s ELSE s + 1) ELSE s       \* an unterminated quote stays part of the boundary
            bend == IF quoted THEN q - 1 ELSE UnquotedEnd(d, s) - 1            \* inclusive
            b == SubSeq(d, bstart, IF bend > n THEN n ELSE bend)
            after == IF quoted THEN q + 1 ELSE bend + 1
            f3 == f2 \cup (IF quoted THEN {"UNUSUAL"} ELSE {}) \cup (IF quoted /\ q > n THEN {"INVALID"} ELSE {})
        IN IF b = <<>> THEN B("DECLINED", None, f3 \cup {"INVALID"})
           ELSE LET rest == IF after > n THEN <<>> ELSE SubSeq(d, after, n)
                    f4 == f3 \cup (IF \E k \in 1..Len(rest) : ~IsSp(rest[k]) THEN {"INVALID"}
                                   ELSE IF rest # <<>> THEN {"UNUSUAL"} ELSE {})
                IN B("OK", Some(b), f4 \cup BoundaryFlags(b) \cup CtFlags(ct))
\* a clean value: exactly  multipart/form-data; boundary=<plain characters>  raises nothing
Clean(b) == Len(b) >= 1 /\ Len(b) <= 70 /\ \A k \in 1..Len(b) : Plain(b[k])
CleanIsQuiet(b) == Clean(b) => FindBoundary(MFD \o <<32>> \o BOUNDARY \o <<EQ>> \o b) = B("OK", Some(b), {})
=============================================================================
