------------------------------ MODULE CEChain ------------------------------
(* C07 - which decompressors a Content-Encoding value puts on the response body, and in which order.
   Transcribed from htp_tx_state_response_headers (htp_transaction.c): the fast path (the whole value is one known name,
   compared ignoring case and NUL bytes), the token loop of the slow path with get_token(", ") and its position arithmetic,
   the layer limit (counts loop iterations), the LZMA layer limit (also compared with the iteration count), the token
   classification (substring match for gzip / deflate, exact match for lzma / inflate / none), and htp_gzip_decompressor_create
   (an LZMA decompressor is inert when the LZMA layer limit is 0).
   A value is a sequence of bytes.  The chain is a sequence of [type, active] in the order in which the decompressors are
   APPLIED to the wire bytes (head = first applied).  Codings are listed in the order the sender applied them (RFC 7231 3.1.2.2),
   so the decompressor of the LAST token has to be applied FIRST: FixD35 = TRUE is the repaired construction (each new
   decompressor goes in front), FALSE the original one (appended; defect D35). *)
EXTENDS Naturals, Sequences, FiniteSets
CONSTANT FixD35
COMMA == 44  SPC == 32
IsDelim(c) == c \in {COMMA, SPC}
Lower(c) == IF c >= 65 /\ c <= 90 THEN c + 32 ELSE c
N_gzip == <<103, 122, 105, 112>>
N_x_gzip == <<120, 45, 103, 122, 105, 112>>
N_deflate == <<100, 101, 102, 108, 97, 116, 101>>
N_x_deflate == <<120, 45, 100, 101, 102, 108, 97, 116, 101>>
N_lzma == <<108, 122, 109, 97>>
N_inflate == <<105, 110, 102, 108, 97, 116, 101>>
N_none == <<110, 111, 110, 101>>
N_identity == <<105, 100, 101, 110, 116, 105, 116, 121>>
N_GZIP == <<71, 90, 73, 80>>
N_br == <<98, 114>>

(* ---------------- byte helpers ---------------- *)
Drop(s, n) == SubSeq(s, n + 1, Len(s))
\* bstr_util_cmp_mem_nocasenorzero(value, name) = 0 : equal ignoring case and NUL bytes in the value
NoZero(s) == SelectSeq(s, LAMBDA c : c # 0)
EqNoCaseNoZero(s, name) == LET z == NoZero(s) IN Len(z) = Len(name) /\ \A i \in 1..Len(z) : Lower(z[i]) = Lower(name[i])
\* bstr_util_mem_index_of_c_nocase(tok, name) # -1
ContainsNoCase(s, name) == \E k \in 0..(Len(s) - Len(name)) : \A i \in 1..Len(name) : Lower(s[k + i]) = Lower(name[i])

(* ---------------- get_token(in, ", ") ----------------
   skips leading delimiters; fails when nothing else is left; the token runs up to the next delimiter or the end.
   Result: [ok, off (bytes skipped), len]. *)
RECURSIVE SkipDelims(_, _)
SkipDelims(s, i) == IF i <= Len(s) /\ IsDelim(s[i]) THEN SkipDelims(s, i + 1) ELSE i
RECURSIVE TokEnd(_, _)
TokEnd(s, i) == IF i <= Len(s) /\ ~IsDelim(s[i]) THEN TokEnd(s, i + 1) ELSE i
GetToken(s) == LET a == SkipDelims(s, 1) IN
               IF a > Len(s) THEN [ok |-> FALSE, off |-> 0, len |-> 0]
               ELSE [ok |-> TRUE, off |-> a - 1, len |-> TokEnd(s, a) - a]

(* ---------------- token classification (slow path) ---------------- *)
Classify(tok) ==
  IF ContainsNoCase(tok, N_gzip) THEN "gzip"
  ELSE IF ContainsNoCase(tok, N_deflate) THEN "deflate"
  ELSE IF tok = N_lzma THEN "lzma"
  ELSE IF tok = N_inflate \/ tok = N_none THEN "none"
  ELSE "unknown"

Dec(type, lzmaLimit) == [type |-> type, active |-> (type # "lzma" \/ lzmaLimit > 0)]      \* htp_gzip_decompressor_create

(* ---------------- the token loop ----------------
   input: what is left of the value; it: iterations so far (both `layers` and `nblzma` of the code count iterations);
   made: decompressors created so far, in creation order.
   NOTE the advance is by tok_len + 1 from the START of the input, not from the start of the token: after leading
   delimiters were skipped the next input begins inside / right behind the token just handled (a one-byte pseudo token,
   which matches no coding name, then takes up an iteration).  Transcribed as is. *)
RECURSIVE Loop(_, _, _, _, _)
Loop(input, it, made, layerLimit, lzmaLimit) ==
  IF Len(input) = 0 THEN made ELSE
  LET g == GetToken(input) IN
  IF ~g.ok THEN made ELSE
  IF layerLimit # 0 /\ it + 1 > layerLimit THEN made ELSE            \* "Too many response content encoding layers"
  LET tok == SubSeq(input, g.off + 1, g.off + g.len)
      cls == Classify(tok)
  IN IF cls = "lzma" /\ it + 1 > lzmaLimit THEN made ELSE              \* "Compression bomb: multiple encoding with lzma"
     LET made2 == IF cls \in {"gzip", "deflate", "lzma"} THEN Append(made, Dec(cls, lzmaLimit)) ELSE made
     IN IF g.len + 1 >= Len(input) THEN made2
        ELSE Loop(Drop(input, g.len + 1), it + 1, made2, layerLimit, lzmaLimit)

Reverse(s) == [i \in 1..Len(s) |-> s[Len(s) + 1 - i]]

\* the decompressors in the order in which they are applied to the wire bytes
Chain(value, layerLimit, lzmaLimit, enabled) ==
  IF ~enabled THEN <<>>
  ELSE IF EqNoCaseNoZero(value, N_gzip) \/ EqNoCaseNoZero(value, N_x_gzip) THEN <<Dec("gzip", lzmaLimit)>>
  ELSE IF EqNoCaseNoZero(value, N_deflate) \/ EqNoCaseNoZero(value, N_x_deflate) THEN <<Dec("deflate", lzmaLimit)>>
  ELSE IF EqNoCaseNoZero(value, N_lzma) THEN <<Dec("lzma", lzmaLimit)>>
  ELSE IF EqNoCaseNoZero(value, N_inflate) THEN <<>>
  ELSE LET made == Loop(value, 0, <<>>, layerLimit, lzmaLimit) IN IF FixD35 THEN Reverse(made) ELSE made
\* tx->response_content_encoding_processing as reported: the type of the first decompressor CREATED (0 none 2 gzip 3 deflate 4 lzma)
TypeNumber(t) == CASE t = "gzip" -> 2 [] t = "deflate" -> 3 [] t = "lzma" -> 4 [] OTHER -> 1

(* ---------------- what a conforming sender meant ----------------
   a list of coding names joined by "," or ", "; the sender applied them first to last, so the wire carries the last one
   outermost.  Layers: "gzip" (gzip format), "zlib" (deflate = zlib format, RFC 7230 4.2.2), "raw" (x-deflate: raw deflate
   as some servers send it), "lzma".  inflate / none / identity mean no coding. *)
LayerOf(name) == CASE name \in {N_gzip, N_x_gzip, N_GZIP} -> <<"gzip">>
                   [] name = N_deflate -> <<"zlib">>
                   [] name = N_x_deflate -> <<"raw">>
                   [] name = N_lzma -> <<"lzma">>
                   [] OTHER -> <<>>
RECURSIVE Join(_, _)
Join(names, sep) == IF Len(names) = 0 THEN <<>> ELSE IF Len(names) = 1 THEN names[1] ELSE names[1] \o sep \o Join(Tail(names), sep)
RECURSIVE Stack(_)
\* outermost layer first
Stack(names) == IF Len(names) = 0 THEN <<>> ELSE Stack(Tail(names)) \o LayerOf(names[1])

(* ---------------- what the chain does to a stack of layers ----------------
   a gzip / deflate decompressor removes a gzip, zlib or raw deflate layer (it restarts in the other formats when the announced
   one fails); an active LZMA decompressor removes an lzma layer; an inert one passes the bytes on unchanged; a decompressor
   that meets a layer it cannot remove passes the bytes on unchanged as well (reported as mismatch: no expectation is derived
   for the delivered bytes then, the accounting clauses still apply). *)
CanRemove(d, layer) == IF d.type = "lzma" THEN d.active /\ layer = "lzma" ELSE layer \in {"gzip", "zlib", "raw"}
RECURSIVE Apply(_, _, _)
Apply(chain, stack, mm) ==
  IF Len(chain) = 0 THEN [residual |-> stack, mismatch |-> mm]
  ELSE LET d == Head(chain) IN
       IF Len(stack) > 0 /\ CanRemove(d, Head(stack)) THEN Apply(Tail(chain), Tail(stack), mm)
       ELSE Apply(Tail(chain), stack, mm \/ (d.active /\ Len(stack) > 0))
Outcome(names, sep, layerLimit, lzmaLimit) == Apply(Chain(Join(names, sep), layerLimit, lzmaLimit, TRUE), Stack(names), FALSE)
=============================================================================
