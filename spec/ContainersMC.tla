---------------------------- MODULE ContainersMC ----------------------------
(* Ring (the shape of htp_list_array_t) refines List: after every operation sequence within bounds the ring represents the
   abstract sequence and every operation returned the abstract result.  Exhaustive over initial capacities and operations. *)
EXTENDS Containers
CONSTANTS Caps, MaxOps, MaxLen
VARIABLES l, s, n, nextv, okflag
vars == <<l, s, n, nextv, okflag>>
Ops(len, v) == {[op |-> "push", i |-> 0, v |-> v], [op |-> "pop", i |-> 0, v |-> 0], [op |-> "shift", i |-> 0, v |-> 0], [op |-> "clear", i |-> 0, v |-> 0]}
               \cup {[op |-> "get", i |-> k, v |-> 0] : k \in 0..len} \cup {[op |-> "replace", i |-> k, v |-> v] : k \in 0..len}
Init == l \in {RInit(c) : c \in Caps} /\ s = <<>> /\ n = 0 /\ nextv = 1 /\ okflag = TRUE
Step == /\ n < MaxOps
        /\ \E o \in Ops(Len(s), nextv) :
             /\ (o.op = "push" => Len(s) < MaxLen)
             /\ LET a == LApply(s, o)  b == RApply(l, o) IN
                /\ s' = a.s /\ l' = b.l /\ okflag' = (a.r = b.r)
        /\ n' = n + 1 /\ nextv' = nextv + 1
Spec == Init /\ [][Step]_vars
Refines == okflag /\ RAbs(l) = s /\ l.size = Len(s)
RingShape == l.first \in 0..(l.max - 1) /\ l.last \in 0..(l.max - 1) /\ l.size <= l.max
View == <<l, s, n, okflag>>
=============================================================================
