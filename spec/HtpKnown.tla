------------------------------ MODULE HtpKnown ------------------------------
(* GENERATED from known_findings.txt by tools/vlib.py (open entries that name a clause and a site). *)
KnownSet ==
  {<<"C05:CompleteAtMostOnce", "res_complete_early_yield">>,
   <<"C05:NothingAfterTxComplete", "res_complete_early_yield">>,
   <<"C05:Order", "req_finalize_body">>,
   <<"C05:Order", "req_headers_closed">>,
   <<"C05:Order", "res_complete_early_yield">>,
   <<"C05:Order", "res_finalize_body">>,
   <<"C05:Order", "res_idle_no_request">>,
   <<"C05:Order", "res_line_as_body">>}
=============================================================================
