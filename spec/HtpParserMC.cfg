CONSTANTS MaxTx = 2  MaxCalls = 3  MaxAvail = 2  AutoDestroy = FALSE  FixD4 = TRUE  TraceMode = FALSE  Gaps = FALSE
 CbFail = {}
 Known <- KnownSet
SPECIFICATION Spec
INVARIANTS Inv_C05 TypeOK
VIEW View
CHECK_DEADLOCK FALSE
