INIT RInitF
NEXT RNext
INVARIANTS IndicatorsOK FoldedClOK CodingOK QuietOK
CHECK_DEADLOCK FALSE
