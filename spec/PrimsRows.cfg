INIT RInitP
NEXT RNext
INVARIANT RowOK
CHECK_DEADLOCK FALSE
