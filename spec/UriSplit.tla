------------------------------ MODULE UriSplit ------------------------------
(* C13 - splitting a request target into raw components (htp_parse_uri) and the numeric port.
   Split(t) is the reference: the eight optional components as contiguous, ordered, non-overlapping substrings of t
   (after removing trailing spaces).  Rejoin puts them back together with their delimiters; TLC checks
   Rejoin(Split(t)) = RTrim(t) for every t of the bounded families (UriSplitMC.tla) - so the reference itself
   satisfies the property - and UriSplitRows.tla judges the components recorded from the real function.
   Bytes are integers; an optional component is <<>> (absent) or <<bytes>> (present, possibly empty).          *)
EXTENDS Integers, Sequences, FiniteSets, TLC

SP == 32  SLASH == 47  COLON == 58  AT == 64  QM == 63  HASH == 35  LB == 91  RB == 93  TAB == 9
None == <<>>
Some(x) == <<x>>

RECURSIVE RTrim(_)
RTrim(t) == IF t # <<>> /\ t[Len(t)] = SP THEN RTrim(SubSeq(t, 1, Len(t) - 1)) ELSE t

\* first index >= i with t[index] \in S, or Len(t)+1
RECURSIVE Find(_, _, _)
Find(t, i, S) == IF i > Len(t) THEN Len(t) + 1 ELSE IF t[i] \in S THEN i ELSE Find(t, i + 1, S)
IndexIn(s, c) == Find(s, 1, {c})            \* Len(s)+1 if absent

Empty == [scheme |-> None, username |-> None, password |-> None, hostname |-> None, port |-> None,
          path |-> None, query |-> None, fragment |-> None]

\* authority text a (between "//" and the next / ? #) -> username, password, hostname, port
Authority(a) ==
  LET at == IndexIn(a, AT)
      cred == IF at <= Len(a) THEN SubSeq(a, 1, at - 1) ELSE <<>>
      hasCred == at <= Len(a)
      hp == IF hasCred THEN SubSeq(a, at + 1, Len(a)) ELSE a
      cc == IndexIn(cred, COLON)
      user == IF ~hasCred THEN None ELSE IF cc <= Len(cred) THEN Some(SubSeq(cred, 1, cc - 1)) ELSE Some(cred)
      pass == IF hasCred /\ cc <= Len(cred) THEN Some(SubSeq(cred, cc + 1, Len(cred))) ELSE None
      v6 == hp # <<>> /\ hp[1] = LB
      rb == IndexIn(hp, RB)
      \* a bracketed literal is well-formed if it is closed and followed by nothing or by ":port"
      v6ok == v6 /\ rb <= Len(hp) /\ (rb = Len(hp) \/ hp[rb + 1] = COLON)
      pc == IF v6ok THEN (IF rb = Len(hp) THEN Len(hp) + 1 ELSE rb + 1)
            ELSE IF v6 THEN Len(hp) + 1              \* malformed literal: the whole text is the host
            ELSE IndexIn(hp, COLON)
      host == IF pc <= Len(hp) THEN SubSeq(hp, 1, pc - 1) ELSE hp
      port == IF pc <= Len(hp) THEN Some(SubSeq(hp, pc + 1, Len(hp))) ELSE None
  IN [username |-> user, password |-> pass, hostname |-> Some(host), port |-> port]

Split(t0) ==
  LET t == RTrim(t0) IN
  IF t = <<>> THEN Empty
  ELSE
    LET colon == IndexIn(t, COLON)
        hasScheme == t[1] # SLASH /\ colon <= Len(t)
        p0 == IF hasScheme THEN colon + 1 ELSE 1                      \* position after "scheme:"
        hasAuth == hasScheme /\ p0 + 2 <= Len(t) /\ t[p0] = SLASH /\ t[p0 + 1] = SLASH /\ t[p0 + 2] # SLASH
        aend == IF hasAuth THEN Find(t, p0 + 2, {QM, SLASH, HASH}) ELSE p0
        au == IF hasAuth THEN Authority(SubSeq(t, p0 + 2, aend - 1)) ELSE [username |-> None, password |-> None, hostname |-> None, port |-> None]
        pend == Find(t, aend, {QM, HASH})
        qend == IF pend <= Len(t) /\ t[pend] = QM THEN Find(t, pend, {HASH}) ELSE pend
    IN [scheme |-> IF hasScheme THEN Some(SubSeq(t, 1, colon - 1)) ELSE None,
        username |-> au.username, password |-> au.password, hostname |-> au.hostname, port |-> au.port,
        path |-> Some(SubSeq(t, aend, pend - 1)),
        query |-> IF pend <= Len(t) /\ t[pend] = QM THEN Some(SubSeq(t, pend + 1, qend - 1)) ELSE None,
        fragment |-> IF qend <= Len(t) THEN Some(SubSeq(t, qend + 1, Len(t))) ELSE None]

Opt(o, pre, post) == IF o = None THEN <<>> ELSE pre \o o[1] \o post
\* put the components back together with exactly their delimiters
Rejoin(u) ==
  LET auth == u.hostname # None
  IN Opt(u.scheme, <<>>, <<COLON>>)
     \o (IF auth THEN <<SLASH, SLASH>> ELSE <<>>)
     \o (IF u.username # None THEN u.username[1] \o Opt(u.password, <<COLON>>, <<>>) \o <<AT>> ELSE <<>>)
     \o Opt(u.hostname, <<>>, <<>>) \o Opt(u.port, <<COLON>>, <<>>)
     \o Opt(u.path, <<>>, <<>>) \o Opt(u.query, <<QM>>, <<>>) \o Opt(u.fragment, <<HASH>>, <<>>)

\* numeric port of a port text: optional LWS, decimal digits, optional LWS; value in 1..65535, otherwise invalid (-1)
IsDigit(b) == b >= 48 /\ b <= 57
IsLws(b) == b = SP \/ b = TAB
RECURSIVE LTrimLws(_)
LTrimLws(s) == IF s # <<>> /\ IsLws(s[1]) THEN LTrimLws(Tail(s)) ELSE s
RECURSIVE RTrimLws(_)
RTrimLws(s) == IF s # <<>> /\ IsLws(s[Len(s)]) THEN RTrimLws(SubSeq(s, 1, Len(s) - 1)) ELSE s
RECURSIVE DropZeros(_)
DropZeros(s) == IF Len(s) > 1 /\ s[1] = 48 THEN DropZeros(Tail(s)) ELSE s
RECURSIVE DecVal(_, _)
DecVal(s, acc) == IF s = <<>> THEN acc ELSE DecVal(Tail(s), acc * 10 + (s[1] - 48))
PortNumber(text) ==
  LET d == DropZeros(RTrimLws(LTrimLws(text)))
  IN IF d = <<>> \/ \E k \in 1..Len(d) : ~IsDigit(d[k]) THEN -1
     ELSE IF Len(d) > 5 THEN -1                                  \* more than 5 significant digits cannot be <= 65535
     ELSE LET v == DecVal(d, 0) IN IF v >= 1 /\ v <= 65535 THEN v ELSE -1
PortOf(u) == IF u.port = None THEN -1 ELSE PortNumber(u.port[1])
=============================================================================
