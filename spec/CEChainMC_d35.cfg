CONSTANTS FixD35 = FALSE  MaxTokens = 2  MaxLimit = 3
INIT Init
NEXT Next
INVARIANTS Faithful
CHECK_DEADLOCK FALSE
