CONSTANTS MaxLen = 6  FixD10 = TRUE
SPECIFICATION Spec
INVARIANT ChunkInvariant
CHECK_DEADLOCK FALSE
