------------------------------ MODULE ReqFields ------------------------------
(* C02 - the request fields libhtp interprets beyond the header table: cookies (htp_parse_cookies_v0) and credentials
   (htp_parse_authorization: Basic with its base64 decoder, Digest user name as a quoted string, Bearer).
   Reference operators over byte sequences (integers); the header VALUE is the input (as the header table reports it).
   PINNED (the documentation is silent, the reference follows the code and says so):
     - a cookie without '=' has the empty value; a cookie with an empty name is ignored;
     - the base64 decoder skips every byte outside the alphabet (padding included) and emits the bytes completed so far;
     - Basic credentials that decode to nothing fail the request stream (decoder returns NULL, treated like an allocation failure).  *)
EXTENDS Integers, Sequences, FiniteSets, TLC
None == <<>>
Some(x) == <<x>>
SP == 32  SEMI == 59  EQ == 61  COLON == 58  DQ == 34  BSL == 92
IsSpace(b) == b \in {32, 9, 10, 11, 12, 13}
Lower(b) == IF b >= 65 /\ b <= 90 THEN b + 32 ELSE b
RECURSIVE Find(_, _, _)
Find(s, i, c) == IF i > Len(s) THEN Len(s) + 1 ELSE IF s[i] = c THEN i ELSE Find(s, i + 1, c)
RECURSIVE SkipSpace(_, _)
SkipSpace(s, i) == IF i <= Len(s) /\ IsSpace(s[i]) THEN SkipSpace(s, i + 1) ELSE i

(* ---------------- cookies ---------------- *)
OneCookie(c) == LET e == Find(c, 1, EQ) IN
                IF c = <<>> \/ e = 1 THEN <<>>                                              \* empty piece / nameless cookie: ignored
                ELSE IF e > Len(c) THEN << <<c, <<>>>> >>                                   \* no '=': empty value
                ELSE << <<SubSeq(c, 1, e - 1), SubSeq(c, e + 1, Len(c))>> >>
RECURSIVE CookiesFrom(_, _)
CookiesFrom(v, i) ==
  LET s == SkipSpace(v, i) IN
  IF s > Len(v) THEN <<>>
  ELSE LET e == Find(v, s, SEMI) IN OneCookie(SubSeq(v, s, e - 1)) \o CookiesFrom(v, e + 1)
Cookies(v) == CookiesFrom(v, 1)

(* ---------------- base64 ---------------- *)
B64(b) == IF b >= 65 /\ b <= 90 THEN b - 65 ELSE IF b >= 97 /\ b <= 122 THEN b - 71 ELSE IF b >= 48 /\ b <= 57 THEN b + 4
          ELSE IF b = 43 THEN 62 ELSE IF b = 47 THEN 63 ELSE -1
Frags(s) == SelectSeq([k \in 1..Len(s) |-> B64(s[k])], LAMBDA x : x >= 0)
RECURSIVE FragBytes(_)
FragBytes(f) ==
  IF Len(f) < 2 THEN <<>>
  ELSE LET b1 == f[1] * 4 + f[2] \div 16 IN
       IF Len(f) = 2 THEN <<b1>>
       ELSE LET b2 == (f[2] % 16) * 16 + f[3] \div 4 IN
            IF Len(f) = 3 THEN <<b1, b2>>
            ELSE <<b1, b2, (f[3] % 4) * 64 + f[4]>> \o FragBytes(SubSeq(f, 5, Len(f)))
Base64Decode(s) == FragBytes(Frags(s))

(* ---------------- quoted string (Digest user name) ---------------- *)
\* s starts at the opening quote; result None when there is no closing quote; a backslash takes the next byte literally
RECURSIVE QScan(_, _, _)
QScan(s, i, acc) == IF i > Len(s) THEN None
                    ELSE IF s[i] = BSL /\ i + 1 <= Len(s) THEN QScan(s, i + 2, Append(acc, s[i + 1]))
                    ELSE IF s[i] = DQ THEN Some(acc)
                    ELSE QScan(s, i + 1, Append(acc, s[i]))
Quoted(s) == IF Len(s) < 2 \/ s[1] # DQ THEN None ELSE QScan(s, 2, <<>>)

(* ---------------- Authorization ---------------- *)
BeginsNoCase(v, w) == Len(v) >= Len(w) /\ \A k \in 1..Len(w) : Lower(v[k]) = w[k]
RECURSIVE IndexOf(_, _, _)
IndexOf(v, w, i) == IF i + Len(w) - 1 > Len(v) THEN 0 ELSE IF SubSeq(v, i, i + Len(w) - 1) = w THEN i ELSE IndexOf(v, w, i + 1)
BASIC == <<98, 97, 115, 105, 99>>  DIGEST == <<100, 105, 103, 101, 115, 116>>  BEARER == <<98, 101, 97, 114, 101, 114>>
USERNAME_EQ == <<117, 115, 101, 114, 110, 97, 109, 101, 61>>
\* result: [type, user, pass, invalid (HTP_AUTH_INVALID raised), fails (the request stream fails)]
A(type, user, pass, invalid, fails) == [type |-> type, user |-> user, pass |-> pass, invalid |-> invalid, fails |-> fails]
Auth(v) ==
  IF BeginsNoCase(v, BASIC) THEN
     LET p == SkipSpace(v, 6) IN
     IF p > Len(v) THEN A("BASIC", None, None, TRUE, FALSE)
     ELSE LET d == Base64Decode(SubSeq(v, p, Len(v)))  c == Find(d, 1, COLON) IN
          IF d = <<>> THEN A("BASIC", None, None, FALSE, TRUE)                                \* PINNED: nothing decodes -> stream error
          ELSE IF c > Len(d) THEN A("BASIC", None, None, TRUE, FALSE)
          ELSE A("BASIC", Some(SubSeq(d, 1, c - 1)), Some(SubSeq(d, c + 1, Len(d))), FALSE, FALSE)
  ELSE IF BeginsNoCase(v, DIGEST) THEN
     LET i == IndexOf(v, USERNAME_EQ, 1) IN
     IF i = 0 THEN A("DIGEST", None, None, TRUE, FALSE)
     ELSE LET p == SkipSpace(v, i + 9) IN
          IF p > Len(v) \/ v[p] # DQ THEN A("DIGEST", None, None, TRUE, FALSE)
          ELSE LET q == Quoted(SubSeq(v, p, Len(v))) IN
               IF q = None THEN A("DIGEST", None, None, TRUE, FALSE) ELSE A("DIGEST", q, None, FALSE, FALSE)
  ELSE IF BeginsNoCase(v, BEARER) THEN
     (IF SkipSpace(v, 7) > Len(v) THEN A("BEARER", None, None, TRUE, FALSE) ELSE A("BEARER", None, None, FALSE, FALSE))
  ELSE A("UNRECOGNIZED", None, None, FALSE, FALSE)

(* ---------------- meta-properties (checked by ReqFieldsMC) ---------------- *)
\* every cookie name is non-empty and contains neither '=' nor ';'; values contain no ';'
CookiesSane(v) == \A k \in 1..Len(Cookies(v)) : LET c == Cookies(v)[k] IN
                    /\ c[1] # <<>> /\ \A j \in 1..Len(c[1]) : c[1][j] \notin {EQ, SEMI}
                    /\ \A j \in 1..Len(c[2]) : c[2][j] # SEMI
\* base64: 4 symbols of the alphabet give 3 bytes; the decoder never produces more than 3 bytes per 4 input bytes
B64Bound(s) == Len(Base64Decode(s)) * 4 <= Len(s) * 3
=============================================================================
