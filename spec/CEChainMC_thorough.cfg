CONSTANTS FixD35 = TRUE  MaxTokens = 4  MaxLimit = 6
INIT Init
NEXT Next
INVARIANTS LayersBounded Faithful NothingUnannounced
CHECK_DEADLOCK FALSE
