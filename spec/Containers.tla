----------------------------- MODULE Containers -----------------------------
(* C17 - the list as a double-ended sequence and the table as an insertion-ordered multimap.
   List  : the abstract type (a TLA+ sequence) with push / pop / shift / get / replace / size / clear.
   Ring  : a model shaped like htp_list_array_t (elements, first, last, current_size, max_size; growth re-linearises the
           ring into a block of twice the size).  ContainersMC.tla checks with TLC that Ring refines List for every operation
           sequence within bounds; ContainersRows.tla judges operation sequences replayed on the real htp_list_array_* /
           htp_table_* against List / Table.
   Results: NIL (= 0) stands for NULL / "no element"; elements are positive integers.                          *)
EXTENDS Integers, Sequences, FiniteSets, TLC

NIL == 0
(* ---------------- abstract list ---------------- *)
\* an operation is a record [op, i, v]; Apply returns [s |-> new sequence, r |-> result]
OK == "OK"  DECLINED == "DECLINED"
LApply(s, o) ==
  CASE o.op = "push"    -> [s |-> Append(s, o.v), r |-> OK]
    [] o.op = "pop"     -> IF s = <<>> THEN [s |-> s, r |-> NIL] ELSE [s |-> SubSeq(s, 1, Len(s) - 1), r |-> s[Len(s)]]
    [] o.op = "shift"   -> IF s = <<>> THEN [s |-> s, r |-> NIL] ELSE [s |-> Tail(s), r |-> Head(s)]
    [] o.op = "get"     -> [s |-> s, r |-> IF o.i + 1 <= Len(s) THEN s[o.i + 1] ELSE NIL]
    [] o.op = "replace" -> IF o.i + 1 <= Len(s) THEN [s |-> [s EXCEPT ![o.i + 1] = o.v], r |-> OK] ELSE [s |-> s, r |-> DECLINED]
    [] o.op = "size"    -> [s |-> s, r |-> Len(s)]
    [] o.op = "clear"   -> [s |-> <<>>, r |-> OK]

(* ---------------- ring model (htp_list_array_t) ---------------- *)
\* el: function 0..max-1 -> value (NIL = never written)
RInit(cap) == [el |-> [k \in 0..(cap - 1) |-> NIL], first |-> 0, last |-> 0, size |-> 0, max |-> cap]
RGet(l, idx) == IF idx >= l.size THEN NIL
                ELSE IF l.first + idx < l.max THEN l.el[l.first + idx] ELSE l.el[idx - (l.max - l.first)]
RGrow(l) ==   \* re-linearise: [first..max) then [0..first) into a block of 2*max
  LET n == l.max * 2
      lin(k) == IF k < l.max - l.first THEN l.el[l.first + k] ELSE IF k < l.max THEN l.el[k - (l.max - l.first)] ELSE NIL
  IN [el |-> [k \in 0..(n - 1) |-> lin(k)], first |-> 0, last |-> l.size, size |-> l.size, max |-> n]
RApply(l0, o) ==
  CASE o.op = "push" ->
         LET l == IF l0.size >= l0.max THEN RGrow(l0) ELSE l0
             nl == IF l.last + 1 = l.max THEN 0 ELSE l.last + 1
         IN [l |-> [l EXCEPT !.el[l.last] = o.v, !.size = @ + 1, !.last = nl], r |-> OK]
    [] o.op = "pop" ->
         IF l0.size = 0 THEN [l |-> l0, r |-> NIL]
         ELSE LET p0 == l0.first + l0.size - 1
                  pos == IF p0 > l0.max - 1 THEN p0 - l0.max ELSE p0
              IN [l |-> [l0 EXCEPT !.last = pos, !.size = @ - 1], r |-> l0.el[pos]]
    [] o.op = "shift" ->
         IF l0.size = 0 THEN [l |-> l0, r |-> NIL]
         ELSE [l |-> [l0 EXCEPT !.first = IF @ + 1 = l0.max THEN 0 ELSE @ + 1, !.size = @ - 1], r |-> l0.el[l0.first]]
    [] o.op = "get" -> [l |-> l0, r |-> RGet(l0, o.i)]
    [] o.op = "replace" ->
         IF o.i + 1 > l0.size THEN [l |-> l0, r |-> DECLINED]
         ELSE [l |-> [l0 EXCEPT !.el[(l0.first + o.i) % l0.max] = o.v], r |-> OK]
    [] o.op = "size" -> [l |-> l0, r |-> l0.size]
    [] o.op = "clear" -> [l |-> [l0 EXCEPT !.first = 0, !.last = 0, !.size = 0], r |-> OK]
RAbs(l) == [k \in 1..l.size |-> RGet(l, k - 1)]        \* abstraction function: the sequence a ring represents

(* ---------------- table: insertion-ordered multimap, case-insensitive first-match lookup ---------------- *)
\* keys are byte sequences; a table is a sequence of <<key, value>>
Lower(b) == IF b >= 65 /\ b <= 90 THEN b + 32 ELSE b
LowerSeq(s) == [k \in 1..Len(s) |-> Lower(s[k])]
\* lookup compares ignoring case and ignoring NUL bytes in the STORED key (bstr_cmp_*_nocasenorzero)
RECURSIVE DropNul(_)
DropNul(s) == IF s = <<>> THEN <<>> ELSE IF s[1] = 0 THEN DropNul(Tail(s)) ELSE <<s[1]>> \o DropNul(Tail(s))
KeyMatches(stored, asked) == LowerSeq(DropNul(stored)) = LowerSeq(asked)
TGet(t, key) == IF \E k \in 1..Len(t) : KeyMatches(t[k][1], key)
                THEN t[CHOOSE k \in 1..Len(t) : KeyMatches(t[k][1], key) /\ \A j \in 1..(k - 1) : ~KeyMatches(t[j][1], key)][2]
                ELSE NIL
TApply(t, o) ==
  CASE o.op = "add"   -> [t |-> Append(t, <<o.key, o.v>>), r |-> OK]
    [] o.op = "get"   -> [t |-> t, r |-> TGet(t, o.key)]
    [] o.op = "size"  -> [t |-> t, r |-> Len(t)]
    [] o.op = "clear" -> [t |-> <<>>, r |-> OK]
=============================================================================
