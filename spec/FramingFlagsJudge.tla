------------------------- MODULE FramingFlagsJudge -------------------------
(* Judges the flags and the request transfer coding recorded for every rendered spelling / schedule of every feature vector. *)
EXTENDS FramingFlags, Json, IOUtils
Rows == ndJsonDeserialize(IOEnv.ROWS)
VARIABLE k
RInitF == k \in 1..Len(Rows)
RNext == UNCHANGED k
FlagSet(r) == {r.flags[i] : i \in 1..Len(r.flags)}
CodingName(n) == CASE n = 1 -> "NO_BODY" [] n = 2 -> "IDENTITY" [] n = 3 -> "CHUNKED" [] n = 4 -> "INVALID" [] OTHER -> "UNKNOWN"
\* every required indicator except the folded-C-L one (judged separately: FoldedClOK)
FoldedOnly(v) == v.te = "absent" /\ v.cl = "folded"
IndicatorsOK == LET r == Rows[k] IN (Required(r.v) \ (IF FoldedOnly(r.v) THEN {"REQUEST_SMUGGLING"} ELSE {})) \subseteq FlagSet(r)
FoldedClOK == LET r == Rows[k] IN FoldedOnly(r.v) => "REQUEST_SMUGGLING" \in FlagSet(r)
CodingOK == LET r == Rows[k] IN CodingName(r.tc) = Coding(r.v)
QuietOK == LET r == Rows[k] IN Quiet(r.v) => FlagSet(r) \cap Eight = {}
ASSUME PrintT(<<"CENSUS", Len(Rows), Cardinality({<<Rows[i].v, Rows[i].sp, Rows[i].sched>> : i \in 1..Len(Rows)})>>)
=============================================================================
