---------------------------- MODULE HtpParserMC ----------------------------
(* Root module for model checking HtpParser with the known-findings set generated from known_findings.txt. *)
EXTENDS HtpParser, HtpKnown
=============================================================================
