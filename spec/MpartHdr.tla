------------------------------ MODULE MpartHdr ------------------------------
(* C14 - the header block of one multipart part: which header fields the part reports and which format-anomaly indicators
   are raised.  Transcribed from htp_mpart_part_handle_data (line mode: pending line, folding, the empty line that ends the
   block) and htp_mpartp_parse_header (htp_multipart.c).  A block is a sequence of non-empty lines (bytes, line ending
   removed, no LF inside); the empty line that follows them ends the block.
   Result: [hdrs (sequence of <<name, value>> in table order), flags]. *)
EXTENDS Naturals, Sequences, FiniteSets
COLON == 58
IsLws(c) == c \in {32, 9}
IsSpace(c) == c \in {32, 9, 10, 11, 12, 13}          \* htp_is_space and C isspace agree on bytes < 128
IsSeparator(c) == c \in {40, 41, 60, 62, 64, 44, 59, 58, 92, 34, 47, 91, 93, 63, 61, 123, 125, 32, 9}
IsToken(c) == c >= 32 /\ c <= 126 /\ ~IsSeparator(c)
Lower(c) == IF c >= 65 /\ c <= 90 THEN c + 32 ELSE c
LowerSeq(s) == [i \in 1..Len(s) |-> Lower(s[i])]
N_cd == <<99, 111, 110, 116, 101, 110, 116, 45, 100, 105, 115, 112, 111, 115, 105, 116, 105, 111, 110>>
N_ct == <<99, 111, 110, 116, 101, 110, 116, 45, 116, 121, 112, 101>>

Invalid == [ok |-> FALSE, flags |-> {"PART_HEADER_INVALID"}]
\* htp_mpartp_parse_header on one (unfolded) line
ParseLine(l) ==
  IF \E i \in 1..Len(l) : l[i] = 0 THEN [ok |-> FALSE, flags |-> {"NUL_BYTE"}]                 \* NUL bytes are not allowed
  ELSE IF IsSpace(l[1]) THEN Invalid                                                          \* whitespace before the name
  ELSE IF ~\E i \in 1..Len(l) : l[i] = COLON THEN Invalid                                     \* missing colon
  ELSE LET c == CHOOSE i \in 1..Len(l) : l[i] = COLON /\ \A j \in 1..(i - 1) : l[j] # COLON IN
       IF c = 1 THEN Invalid                                                                  \* empty name
       ELSE IF IsLws(l[c - 1]) THEN Invalid                                                   \* LWS after the name
       ELSE IF \A i \in (c + 1)..Len(l) : IsLws(l[i]) THEN Invalid                            \* no value
       ELSE IF \E i \in 1..(c - 1) : ~IsToken(l[i]) THEN Invalid                              \* the name is not a token
       ELSE LET vs == CHOOSE i \in (c + 1)..Len(l) : ~IsLws(l[i]) /\ \A j \in (c + 1)..(i - 1) : IsLws(l[j]) IN
            [ok |-> TRUE, name |-> SubSeq(l, 1, c - 1), value |-> SubSeq(l, vs, Len(l)), flags |-> {}]

\* one parsed line into the table: unknown names are flagged, a name already present (any case) gets the value appended
Commit(st, l) ==
  LET r == ParseLine(l) IN
  IF ~r.ok THEN [st EXCEPT !.flags = @ \cup r.flags]
  ELSE LET unk == IF LowerSeq(r.name) \in {N_cd, N_ct} THEN {} ELSE {"PART_HEADER_UNKNOWN"}
           hit == {j \in 1..Len(st.hdrs) : LowerSeq(st.hdrs[j][1]) = LowerSeq(r.name)}
       IN IF hit = {} THEN [st EXCEPT !.hdrs = Append(@, <<r.name, r.value>>), !.flags = @ \cup unk]
          ELSE LET j == CHOOSE x \in hit : TRUE IN
               [st EXCEPT !.hdrs[j][2] = @ \o <<44, 32>> \o r.value, !.flags = @ \cup unk \cup {"PART_HEADER_REPEATED"}]

RECURSIVE Lines(_, _)
\* st = [hdrs, flags, pending (<<>> = none; lines are never empty)]
Lines(st, ls) ==
  IF Len(ls) = 0 THEN (IF st.pending = <<>> THEN st ELSE [Commit(st, st.pending) EXCEPT !.pending = <<>>])
  ELSE LET l == Head(ls) IN
       IF st.pending = <<>> THEN Lines([st EXCEPT !.pending = l], Tail(ls))
       ELSE IF IsSpace(l[1]) THEN Lines([st EXCEPT !.pending = @ \o l, !.flags = @ \cup {"PART_HEADER_FOLDING"}], Tail(ls))   \* folded: appended raw
       ELSE Lines([Commit(st, st.pending) EXCEPT !.pending = l], Tail(ls))
\* htp_mpart_part_parse_c_t / htp_parse_ct_header: the media type is the Content-Type value up to the first ';', ',' or space, in lower case
\* (<<>> = the part has no Content-Type field, <<t>> = type t)
RECURSIVE TypeEnd(_, _)
TypeEnd(v, i) == IF i <= Len(v) /\ v[i] \notin {59, 44, 32} THEN TypeEnd(v, i + 1) ELSE i
ContentType(hdrs) == LET hit == {j \in 1..Len(hdrs) : LowerSeq(hdrs[j][1]) = N_ct} IN
                     IF hit = {} THEN <<>>
                     ELSE LET v == hdrs[CHOOSE j \in hit : TRUE][2] IN <<LowerSeq(SubSeq(v, 1, TypeEnd(v, 1) - 1))>>
Block(ls) == LET r == Lines([hdrs |-> <<>>, flags |-> {}, pending |-> <<>>], ls) IN [hdrs |-> r.hdrs, flags |-> r.flags, ct |-> ContentType(r.hdrs)]
=============================================================================
