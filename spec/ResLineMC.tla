------------------------------ MODULE ResLineMC ------------------------------
EXTENDS ResLine
CONSTANT MaxLen
VARIABLE l
Alpha == {72, 50, 48, 32, 9, 79}           \* H 2 0 SP TAB O
Init == l \in UNION {[1..n -> Alpha] : n \in 0..MaxLen}
Next == UNCHANGED l
Sane == StatusPartition(l)
ASSUME LET r == ParseStatusLine(<<72, 84, 84, 80, 47, 49, 46, 49, 32, 50, 48, 48, 32, 79, 75>>) IN
         r.pnum = 101 /\ r.status = Some(<<50, 48, 48>>) /\ r.snum = 200 /\ r.message = Some(<<79, 75>>)
ASSUME StatusNumber(<<48, 50, 48, 48>>) = 200 /\ StatusNumber(<<57, 57>>) = -1 /\ StatusNumber(<<49, 48, 48, 48>>) = -1 /\ StatusNumber(<<50, 48, 120>>) = -1
ASSUME LooksLikeStatusLine(<<32, 0, 104, 84, 116, 80>>) /\ ~LooksLikeStatusLine(<<72, 84, 84>>) /\ ~LooksLikeStatusLine(<<88, 72, 84, 84, 80>>)
=============================================================================
