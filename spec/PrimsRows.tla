------------------------------ MODULE PrimsRows ------------------------------
(* Judges rows recorded from the bstr / numeric primitives (harness/fn_prim.c) against Prims.tla. *)
EXTENDS Prims, Json, IOUtils
Rows == ndJsonDeserialize(IOEnv.ROWS)
VARIABLE k
RInitP == k \in 1..Len(Rows)
RNext == UNCHANGED k
Sign(x) == IF x < 0 THEN -1 ELSE IF x > 0 THEN 1 ELSE 0
\* numerals arrive as decimal digit STRINGS split into digit lists by the recorder
Used(u, n) == IF u = n THEN n + 1 ELSE u
NumOK(e, code, digits) == IF e.code < 0 THEN code = e.code ELSE code = 0 /\ digits = e.v
PairOK(r) == /\ Sign(r.cmp) = Cmp(r.a, r.b) /\ Sign(r.cmpnc) = CmpNocase(r.a, r.b) /\ Sign(r.cmpncz) = CmpNocaseNorZero(r.a, r.b)
             /\ r.idx = IndexOf(r.a, r.b) /\ r.idxnc = IndexOfNocase(r.a, r.b) /\ r.idxncz = IndexOfNocaseNorZero(r.a, r.b)
             /\ r.bw = BeginsWith(r.a, r.b) /\ r.bwnc = BeginsWithNocase(r.a, r.b)
             /\ r.add = Add(r.a, r.b) /\ r.addnoex = AddNoex(r.a, r.size, r.b)
OneOK(r) == r.trim = Trim(r.a) /\ r.lower = LowerSeq(r.a)
NumRowOK(r) == /\ NumOK(ParsePInt(r.a, 10), r.p10c, r.p10) /\ NumOK(ParsePInt(r.a, 16), r.p16c, r.p16)
               \* lastlen: index of the first unused byte; when the whole region is consumed the function reports Len + 1, which the
               \* project's own test pins (BstrTest.ToPint expects 4 for "abc" in base 16): pinned, not judged
               /\ (r.p10c = 0 => r.p10used = Used(ParsePInt(r.a, 10).used, Len(r.a))) /\ (r.p16c = 0 => r.p16used = Used(ParsePInt(r.a, 16).used, Len(r.a)))
               /\ NumOK(ContentLength(r.a), r.clc, r.cl) /\ NumOK(ChunkLength(r.a), r.chc, r.ch)
               /\ NumOK(PIntWs(r.a, 10), r.w10c, r.w10) /\ NumOK(PIntWs(r.a, 16), r.w16c, r.w16) /\ r.status = StatusOf(r.a)
RowOK == LET r == Rows[k] IN CASE r.t = "pair" -> PairOK(r) [] r.t = "one" -> OneOK(r) [] r.t = "num" -> NumRowOK(r)
ASSUME PrintT(<<"CENSUS", Len(Rows), Cardinality({<<Rows[i].t, Rows[i].a, IF Rows[i].t = "pair" THEN Rows[i].b ELSE <<>>>> : i \in 1..Len(Rows)})>>)
=============================================================================
