---------------------------- MODULE PathNormRows ----------------------------
(* Judges rows recorded from the real normalisation pipeline (harness/fn_path.c) against PathNorm!Normalise, plus the
   meta-properties named by C12: never longer than the raw path, no '.' / '..' segment, unchanged by normalising again. *)
EXTENDS PathNorm, Json, IOUtils
Rows == ndJsonDeserialize(IOEnv.ROWS)
VARIABLE k
RInitN == k \in 1..Len(Rows)
RNext == UNCHANGED k
FlagSet(r) == {r.flags[i] : i \in 1..Len(r.flags)}
\* the path and every indicator except RAW_NUL (judged separately: RawNulOK)
RowOK == LET r == Rows[k]  e == Normalise(r.cfg, r.in) IN
         /\ r.path = e.path
         /\ FlagSet(r) \ {"RAW_NUL"} = e.flags \ {"RAW_NUL"}
MetaOK == LET r == Rows[k] IN Len(r.path) <= Len(r.in) /\ NoDotSegment(r.path) /\ r.again = r.path
RawNulOK == LET r == Rows[k]  e == Normalise(r.cfg, r.in) IN ("RAW_NUL" \in FlagSet(r)) = ("RAW_NUL" \in e.flags)
ASSUME PrintT(<<"CENSUS", Len(Rows), Cardinality({<<Rows[i].in, Rows[i].cfgname, Rows[i].via>> : i \in 1..Len(Rows)})>>)
=============================================================================
