--------------------------- MODULE MpartBoundaryMC ---------------------------
EXTENDS MpartBoundary
CONSTANT MaxLen
VARIABLE b
Alpha == {66, 45, 48, 95, 32, 34}          \* B - 0 _ SP quote
Init == b \in UNION {[1..n -> Alpha] : n \in 0..MaxLen}
Next == UNCHANGED b
Sane == /\ CleanIsQuiet(b)
        /\ LET r == FindBoundary(MFD \o <<32>> \o BOUNDARY \o <<EQ>> \o b) IN
              /\ (r.rc = "OK" <=> r.boundary # None)
              /\ (r.boundary # None => r.boundary[1] # <<>>)
ASSUME FindBoundary(MFD \o <<32>> \o BOUNDARY \o <<EQ, 34, 66, 66, 34>>) = B("OK", Some(<<66, 66>>), {"UNUSUAL"})
ASSUME FindBoundary(MFD \o <<32>> \o BOUNDARY \o <<EQ, 34, 66, 66>>) = B("OK", Some(<<34, 66, 66>>), {"UNUSUAL", "INVALID"})
ASSUME FindBoundary(MFD \o <<32>> \o BOUNDARY \o <<32, EQ, 66>>) = B("OK", Some(<<66>>), {"UNUSUAL"})
ASSUME FindBoundary(MFD \o <<32>> \o <<66>> \o Tail(BOUNDARY) \o <<EQ, 66>>) = B("OK", Some(<<66>>), {"INVALID"})
ASSUME FindBoundary(MFD) = B("DECLINED", None, {})
ASSUME FindBoundary(MFD \o BOUNDARY) = B("DECLINED", None, {"INVALID"})
=============================================================================
