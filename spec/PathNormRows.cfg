INIT RInitN
NEXT RNext
INVARIANTS RowOK MetaOK RawNulOK
CHECK_DEADLOCK FALSE
