---- MODULE Decomp_TTrace_1790422459 ----
EXTENDS Sequences, TLCExt, Toolbox, Decomp, Naturals, TLC

_expression ==
    LET Decomp_TEExpression == INSTANCE Decomp_TEExpression
    IN Decomp_TEExpression!expression
----

_trace ==
    LET Decomp_TETrace == INSTANCE Decomp_TETrace
    IN Decomp_TETrace!trace
----

_inv ==
    ~(
        TLCGet("level") = Len(_TETrace)
        /\
        lateRestart = (TRUE)
        /\
        fed = (4)
        /\
        stream = ("other")
        /\
        kind = ("announced")
        /\
        start = (1)
        /\
        decoded = ({})
        /\
        raw = (1..3)
        /\
        state = ("passthrough")
        /\
        restarts = (3)
        /\
        seen = (0)
    )
----

_init ==
    /\ state = _TETrace[1].state
    /\ fed = _TETrace[1].fed
    /\ seen = _TETrace[1].seen
    /\ restarts = _TETrace[1].restarts
    /\ lateRestart = _TETrace[1].lateRestart
    /\ stream = _TETrace[1].stream
    /\ start = _TETrace[1].start
    /\ kind = _TETrace[1].kind
    /\ decoded = _TETrace[1].decoded
    /\ raw = _TETrace[1].raw
----

_next ==
    /\ \E i,j \in DOMAIN _TETrace:
        /\ \/ /\ j = i + 1
              /\ i = TLCGet("level")
        /\ state  = _TETrace[i].state
        /\ state' = _TETrace[j].state
        /\ fed  = _TETrace[i].fed
        /\ fed' = _TETrace[j].fed
        /\ seen  = _TETrace[i].seen
        /\ seen' = _TETrace[j].seen
        /\ restarts  = _TETrace[i].restarts
        /\ restarts' = _TETrace[j].restarts
        /\ lateRestart  = _TETrace[i].lateRestart
        /\ lateRestart' = _TETrace[j].lateRestart
        /\ stream  = _TETrace[i].stream
        /\ stream' = _TETrace[j].stream
        /\ start  = _TETrace[i].start
        /\ start' = _TETrace[j].start
        /\ kind  = _TETrace[i].kind
        /\ kind' = _TETrace[j].kind
        /\ decoded  = _TETrace[i].decoded
        /\ decoded' = _TETrace[j].decoded
        /\ raw  = _TETrace[i].raw
        /\ raw' = _TETrace[j].raw

\* Uncomment the ASSUME below to write the states of the error trace
\* to the given file in Json format. Note that you can pass any tuple
\* to `JsonSerialize`. For example, a sub-sequence of _TETrace.
    \* ASSUME
    \*     LET J == INSTANCE Json
    \*         IN J!JsonSerialize("Decomp_TTrace_1790422459.json", _TETrace)

=============================================================================

 Note that you can extract this module `Decomp_TEExpression`
  to a dedicated file to reuse `expression` (the module in the 
  dedicated `Decomp_TEExpression.tla` file takes precedence 
  over the module `Decomp_TEExpression` below).

---- MODULE Decomp_TEExpression ----
EXTENDS Sequences, TLCExt, Toolbox, Decomp, Naturals, TLC

expression == 
    [
        \* To hide variables of the `Decomp` spec from the error trace,
        \* remove the variables below.  The trace will be written in the order
        \* of the fields of this record.
        state |-> state
        ,fed |-> fed
        ,seen |-> seen
        ,restarts |-> restarts
        ,lateRestart |-> lateRestart
        ,stream |-> stream
        ,start |-> start
        ,kind |-> kind
        ,decoded |-> decoded
        ,raw |-> raw
        
        \* Put additional constant-, state-, and action-level expressions here:
        \* ,_stateNumber |-> _TEPosition
        \* ,_stateUnchanged |-> state = state'
        
        \* Format the `state` variable as Json value.
        \* ,_stateJson |->
        \*     LET J == INSTANCE Json
        \*     IN J!ToJson(state)
        
        \* Lastly, you may build expressions over arbitrary sets of states by
        \* leveraging the _TETrace operator.  For example, this is how to
        \* count the number of times a spec variable changed up to the current
        \* state in the trace.
        \* ,_stateModCount |->
        \*     LET F[s \in DOMAIN _TETrace] ==
        \*         IF s = 1 THEN 0
        \*         ELSE IF _TETrace[s].state # _TETrace[s-1].state
        \*             THEN 1 + F[s-1] ELSE F[s-1]
        \*     IN F[_TEPosition - 1]
    ]

=============================================================================



Parsing and semantic processing can take forever if the trace below is long.
 In this case, it is advised to uncomment the module below to deserialize the
 trace from a generated binary file.

\*
\*---- MODULE Decomp_TETrace ----
\*EXTENDS IOUtils, Decomp, TLC
\*
\*trace == IODeserialize("Decomp_TTrace_1790422459.bin", TRUE)
\*
\*=============================================================================
\*

---- MODULE Decomp_TETrace ----
EXTENDS Decomp, TLC

trace == 
    <<
    ([lateRestart |-> FALSE,fed |-> 0,stream |-> "other",kind |-> "announced",start |-> 0,decoded |-> {},raw |-> {},state |-> "active",restarts |-> 0,seen |-> 0]),
    ([lateRestart |-> FALSE,fed |-> 1,stream |-> "other",kind |-> "announced",start |-> 0,decoded |-> {},raw |-> {},state |-> "active",restarts |-> 0,seen |-> 1]),
    ([lateRestart |-> TRUE,fed |-> 4,stream |-> "other",kind |-> "announced",start |-> 1,decoded |-> {},raw |-> 1..3,state |-> "passthrough",restarts |-> 3,seen |-> 0])
    >>
----


=============================================================================

---- CONFIG Decomp_TTrace_1790422459 ----
CONSTANTS
    W = 4
    FailAfter = 2
    Streams = { "good" , "other" , "garbage" }

INVARIANT
    _inv

CHECK_DEADLOCK
    \* CHECK_DEADLOCK off because of PROPERTY or INVARIANT above.
    FALSE

INIT
    _init

NEXT
    _next

CONSTANT
    _TETrace <- _trace

ALIAS
    _expression
=============================================================================
\* Generated on Sat Sep 26 11:34:19 UTC 2026