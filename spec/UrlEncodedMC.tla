---------------------------- MODULE UrlEncodedMC ----------------------------
(* C15 - model checking the streaming model of UrlEncoded.tla against RefPairs: every input over the alphabet
   up to MaxLen, EVERY chunking (not only single cuts), every mode and plus setting. *)
EXTENDS UrlEncoded

(* ------------------------------------------------------------------ model checking the streaming model *)
CONSTANTS Alphabet, MaxLen
VARIABLES input, rest, u, mode, plus, done
vars == <<input, rest, u, mode, plus, done>>

RECURSIVE SeqsUpTo(_)
SeqsUpTo(n) == IF n = 0 THEN {<<>>} ELSE LET S == SeqsUpTo(n - 1) IN S \cup {Append(s, a) : s \in {t \in S : Len(t) = n - 1}, a \in Alphabet}

Init == /\ input \in SeqsUpTo(MaxLen) /\ rest = input /\ u = InitU
        /\ mode \in Modes /\ plus \in BOOLEAN /\ done = FALSE
FeedChunk == /\ ~done /\ rest # <<>>
             /\ \E n \in 1..Len(rest) :
                  /\ u' = Feed(u, SubSeq(rest, 1, n), mode, plus)
                  /\ rest' = SubSeq(rest, n + 1, Len(rest))
             /\ UNCHANGED <<input, mode, plus, done>>
Finish == /\ ~done /\ rest = <<>> /\ u' = Finalize(u, mode, plus) /\ done' = TRUE
          /\ UNCHANGED <<input, rest, mode, plus>>
Next == FeedChunk \/ Finish
Spec == Init /\ [][Next]_vars

\* C15 on the model: for every input and every chunking the streamed result is the reference result
StreamEqualsRef == done => u.params = RefPairs(input, mode, plus)
\* sanity of the reference itself: one pair per separator-delimited piece; nothing but a final empty piece dropped
RefShape == LET n == Cardinality({k \in 1..Len(input) : input[k] = AMP})
                r == RawPairs(input)
            IN Len(r) = (IF input = <<>> \/ input[Len(input)] = AMP THEN n ELSE n + 1)
\* the decoder with the further options of the configuration switched off is the plain decoder; with them on (and no 'u' in
\* the alphabet) it only ever cuts the plain result short at a NUL - the options never invent or reorder bytes
XConservative == /\ XAgrees(input, mode, plus)
                 /\ \A ne, nr \in BOOLEAN :
                      LET x == DecodeX(input, [mode |-> mode, plus |-> plus, udec |-> TRUE, nulenc |-> ne, nulraw |-> nr])
                          d == Decode(input, mode, plus)
                      IN /\ Len(x) <= Len(d) /\ x = SubSeq(d, 1, Len(x))
                         /\ (Len(x) < Len(d) => d[Len(x) + 1] = 0)
                         /\ (~ne /\ ~nr => x = d)
=============================================================================
