---------------------------- MODULE HtpHybrid ----------------------------
(* The hybrid-mode API of libhtp (htp_connp_tx_create, htp_tx_state_request_* / htp_tx_state_response_*, htp_tx_re[qs]_process_body_data):
   the caller parses the traffic himself and drives the TRANSACTION state functions directly.  The module extends the code-shaped model of
   HtpParser.tla - same parser record P, same micro-programs, same callback steps, same observers - with one action per API function; each runs
   the micro-program of that function as transcribed from htp_transaction.c:
     create     htp_connp_tx_create            a new transaction becomes the request-side current one; pipelining is detected here
     qstart     htp_tx_state_request_start     REQUEST_START, then progress LINE - written through connp->in_tx, not through the argument
     qline      htp_tx_state_request_line      REQUEST_URI_NORMALIZE, REQUEST_LINE (hook results returned as they are); may fail on the URI
     qheaders   htp_tx_state_request_headers   request_progress stays LINE in this mode (only the stream parser advances it), so the
                                               "headers" branch runs every time: framing and decompressor decided, receiver finalised, REQUEST_HEADERS
     qbody      htp_tx_req_process_body_data   one REQUEST_BODY_DATA (or the decompressor's zero or more)
     qcomplete  htp_tx_state_request_complete  = ReqCompleteProg of HtpParser (end-of-body marker iff the framing says there is a body)
     sstart     htp_tx_state_response_start    becomes the response-side current one; RESPONSE_START; progress LINE
     sline      htp_tx_state_response_line     RESPONSE_LINE only
     sheaders   htp_tx_state_response_headers  = ResHeadersProg of HtpParser
     sbody      htp_tx_res_process_body_data
     scomplete  htp_tx_state_response_complete = response completion in hybrid mode: never yields
   The documented caller (Caller below): the request side of transaction i+1 starts after the request side of transaction i is complete, responses
   are produced in order, each after its request is complete; requests may run ahead of responses (pipelining); after an API function failed the
   caller stops using the connection.  Two uses:
     model checking : HSpec with the C05 clauses of HtpObs as invariants (Inv_C05) over all callers within MaxTx / MaxCalls, callbacks may fail (CbFail)
     trace binding  : THSpec - every recorded hybrid execution (harness/rec.c, "H" lines) must be a behaviour: the function called, the transaction,
                      every callback with its progress fields and result, the return code, both progress fields and both current transactions after
                      each call.                                                                                                          *)
EXTENDS HtpParser

VARIABLE hy          \* caller state: phase of every transaction created, and whether a call failed
hvars == <<P, prog, cur, avail, calls, obs, l, hy>>

Phases == <<"created", "qstarted", "qlined", "qheaders", "qdone", "sstarted", "slined", "sheaders", "done">>
HInit == Init /\ hy = [ph |-> <<>>, failed |-> FALSE, op |-> "none", tx |-> 0]

\* the micro-program of one API function on transaction i (1-based), given the parser record p
TxCreate(p) ==
  LET t == Len(p.txs) + 1 IN
  [P |-> [p EXCEPT !.txs = Append(@, NewPTx), !.in_tx = t, !.pipelined = (@ \/ Len(p.txs) > p.onti)], prog |-> <<Ret("OK")>>]
HybProgs(p, op, i) ==
  CASE op = "qstart" -> {<<Cb("request_start", i, "prop"), SetIn("REQ_LINE")>> \o (IF p.in_tx # 0 THEN <<SetRp(p.in_tx, LINE)>> ELSE <<>>) \o <<Ret("OK")>>}
    [] op = "qline" -> {<<SetTx(i, "m", m), SetTx(i, "p09", b), Cb("request_uri_normalize", i, "prop"), Cb("request_line", i, "prop"), SetIn("REQ_PROTOCOL"), Ret("OK")>> : m \in Methods, b \in BOOLEAN}
                       \cup {<<Ret("ERROR")>>}
    [] op = "qheaders" ->
         IF p.txs[i].rp > HEADERS
         THEN {<<RecvFin("q"), Cb("request_trailer", i, "prop"), SetIn("REQ_FINALIZE"), Ret("OK")>>}
         ELSE IF p.txs[i].rp >= LINE
         THEN {<<SetTx(i, "rc", c), SetTx(i, "qdec", qd), RecvFin("q"), Cb("request_headers", i, "prop"), SetIn("REQ_CONNECT_CHECK"), Ret("OK")>> :
                  c \in ReqCodings, qd \in (IF ReqDecompPossible THEN {"none", "active"} ELSE {"none"})} \cup {<<Ret("ERROR")>>}
         ELSE {<<Ret("ERROR")>>}
    [] op = "qbody" -> {ReqBody(p, i, "request_body_data") \o <<Ret("OK")>>}
    [] op = "qcomplete" -> {ReqCompleteProg(p, i) \o <<Ret("OK")>>}
    [] op = "sstart" -> {<<Set("out_tx", i), Cb("response_start", i, "prop")>>
                         \o (IF p.txs[i].p09 THEN <<SetTx(i, "sc", "ident"), SetTx(i, "dec", "none"), SetSp(i, BODY), SetOut("RES_BODY_IDENTITY_STREAM_CLOSE")>>
                             ELSE <<SetOut("RES_LINE"), SetSp(i, LINE)>>) \o <<Ret("OK")>>}
    [] op = "sline" -> {<<SetTx(i, "st", s), Cb("response_line", i, "prop"), Ret("OK")>> : s \in Statuses}
    [] op = "sheaders" -> {ResHeadersProg(i, d) \o <<Ret("OK")>> : d \in {"none", "active"}} \cup {<<Ret("ERROR")>>}
    [] op = "sbody" -> {ResBody(p, i) \o <<Ret("OK")>>}
    [] op = "scomplete" ->
         {(IF p.txs[i].sp # COMPLETE
           THEN <<Tp("res_completing", i), SetSp(i, COMPLETE)>> \o (IF p.txs[i].sc # "nobody" THEN ResBodyEnd(p, i, "ign") ELSE <<>>)
                \o <<Cb("response_complete", i, "prop"), RecvFin("s")>>
           ELSE <<>>)
          \o <<Fin(i, "prop"), Set("out_tx", 0), SetOut("RES_IDLE"), Ret("OK")>>}
    [] OTHER -> {}

\* in hybrid mode the response framing is the caller's business: the model's "sc" (has the response a body?) stays "unk", which is not "nobody":
\* htp_tx_state_response_complete_ex delivers the end-of-body call whenever response_transfer_coding is not NO_BODY

HybCall(op, i) ==
  /\ cur = "none" /\ P.cl = 0
  /\ cur' = "hyb" /\ avail' = 0
  /\ calls' = (IF LiveMode THEN calls ELSE calls + 1)
  /\ IF op = "create"
     THEN LET r == TxCreate(P) IN /\ P' = r.P /\ prog' = r.prog /\ obs' = obs
     ELSE \E pr \in HybProgs(P, op, i) :
            LET r == Run(P, pr, obs) IN /\ P' = Settle(r.P) /\ prog' = r.prog /\ obs' = r.obs

\* return of the API function: whatever is left of the micro-program is dropped
HybRet ==
  /\ cur = "hyb" /\ prog # <<>> /\ Head(prog).op = "ret"
  /\ cur' = "none" /\ prog' = <<>>
  /\ UNCHANGED <<P, avail, calls, obs>>

(* ---------------- the documented caller ---------------- *)
NextOp(ph) == CASE ph = "created" -> {"qstart"} [] ph = "qstarted" -> {"qline"} [] ph = "qlined" -> {"qheaders"}
                [] ph = "qheaders" -> {"qbody", "qcomplete"} [] ph = "qdone" -> {"sstart"} [] ph = "sstarted" -> {"sline"}
                [] ph = "slined" -> {"sheaders"} [] ph = "sheaders" -> {"sbody", "scomplete"} [] OTHER -> {}
After(ph, op) == CASE op = "qstart" -> "qstarted" [] op = "qline" -> "qlined" [] op = "qheaders" -> "qheaders" [] op = "qbody" -> "qheaders"
                   [] op = "qcomplete" -> "qdone" [] op = "sstart" -> "sstarted" [] op = "sline" -> "slined" [] op = "sheaders" -> "sheaders"
                   [] op = "sbody" -> "sheaders" [] op = "scomplete" -> "done" [] OTHER -> ph
ReqSide(ph) == ph \in {"created", "qstarted", "qlined", "qheaders"}
ResSide(ph) == ph \in {"qdone", "sstarted", "slined", "sheaders"}
\* which calls the documented caller may make next
Allowed(h) ==
  IF h.failed THEN {}
  ELSE (IF Len(h.ph) < MaxTx /\ \A j \in 1..Len(h.ph) : ~ReqSide(h.ph[j]) THEN {<<"create", Len(h.ph) + 1>>} ELSE {})
       \cup {<<op, j>> : j \in {k \in 1..Len(h.ph) : ReqSide(h.ph[k])}, op \in {"qstart", "qline", "qheaders", "qbody", "qcomplete"}}
       \cup {<<op, j>> : j \in {k \in 1..Len(h.ph) : ResSide(h.ph[k]) /\ \A m \in 1..(k - 1) : h.ph[m] = "done"}, op \in {"sstart", "sline", "sheaders", "sbody", "scomplete"}}
CallerCall ==
  /\ LiveMode \/ calls < MaxCalls
  /\ \E c \in Allowed(hy) :
       /\ (IF c[1] = "create" THEN TRUE ELSE c[1] \in NextOp(hy.ph[c[2]]))
       /\ HybCall(c[1], c[2])
       /\ hy' = [hy EXCEPT !.ph = IF c[1] = "create" THEN Append(@, "created") ELSE [@ EXCEPT ![c[2]] = After(@, c[1])], !.op = c[1], !.tx = c[2]]
  /\ UNCHANGED l
CallerRet ==
  /\ HybRet /\ hy' = [hy EXCEPT !.failed = @ \/ Head(prog).v # "OK"] /\ UNCHANGED l

HNext == \/ CallerCall
         \/ CallerRet
         \/ (\E nm \in AllHooks : CbStep(nm)) /\ UNCHANGED <<l, hy>>
         \/ CbsDone /\ UNCHANGED <<l, hy>>
HSpec == HInit /\ [][HNext]_hvars

HView == <<P, prog, cur, calls, ObsView(obs), hy>>
HTypeOK == /\ cur \in {"none", "hyb"} /\ P.in_tx \in 0..Len(P.txs) /\ P.out_tx \in 0..Len(P.txs) /\ Len(hy.ph) = Len(P.txs)

(* ---------------- trace binding ---------------- *)
HLine == TraceLog[l]
THReset == /\ HasLine /\ HLine.e = "Reset" /\ P' = InitP /\ prog' = <<>> /\ cur' = "none" /\ avail' = 0 /\ calls' = 0 /\ obs' = ObsInitM /\ l' = l + 1
           /\ hy' = [ph |-> <<>>, failed |-> FALSE, op |-> "none", tx |-> 0]
THCall == /\ HasLine /\ HLine.e = "HCall" /\ HLine.op \in {"create", "qstart", "qline", "qheaders", "qbody", "qcomplete", "sstart", "sline", "sheaders", "sbody", "scomplete"}
          /\ (HLine.op = "create" => HLine.tx = Len(P.txs))
          /\ (HLine.op # "create" => HLine.tx + 1 <= Len(P.txs))
          /\ HybCall(HLine.op, HLine.tx + 1)
          /\ hy' = [hy EXCEPT !.op = HLine.op, !.tx = HLine.tx + 1] /\ l' = l + 1
\* the setters (request line, headers, status line) change no state the model has: the call and its return are skipped together
THSetter == /\ HasLine /\ HLine.e \in {"HCall", "HRet"} /\ HLine.op \in {"qsetline", "qhdr", "ssetline", "shdr"} /\ cur = "none"
            /\ l' = l + 1 /\ UNCHANGED <<P, prog, cur, avail, calls, obs, hy>>
THCb == TCb /\ UNCHANGED hy
THCbsDone == CbsDone /\ l' = l /\ UNCHANGED hy
THTP == /\ HasLine /\ HLine.e = "TP" /\ l' = l + 1 /\ UNCHANGED <<P, prog, cur, avail, calls, obs, hy>>
THRet == /\ HasLine /\ HLine.e = "HRet" /\ cur = "hyb" /\ prog # <<>> /\ Head(prog).op = "ret"
         /\ Head(prog).v = HLine.rc
         /\ HLine.op = hy.op /\ HLine.tx + 1 = hy.tx
         /\ P.in_tx = HLine.in_tx + 1 /\ P.out_tx = HLine.out_tx + 1 /\ Len(P.txs) = HLine.ntx /\ P.pipelined = HLine.pipelined
         /\ (HLine.live => (P.txs[hy.tx].rp = HLine.rp /\ P.txs[hy.tx].sp = HLine.sp /\ P.txs[hy.tx].live))
         /\ (~HLine.live => ~P.txs[hy.tx].live)
         \* what the model leaves open at a call is logged at its return, so that the search stays linear: method class, HTTP/0.9, request framing,
         \* status class, whether a response decompressor exists
         /\ ((HLine.live /\ hy.op = "qline" /\ HLine.rc = "OK") =>
               (P.txs[hy.tx].m = (IF HLine.mn = 6 THEN "CONNECT" ELSE IF HLine.mn = 1 THEN "HEAD" ELSE "GET") /\ P.txs[hy.tx].p09 = HLine.p09))
         /\ ((HLine.live /\ hy.op = "qheaders" /\ HLine.rc = "OK" /\ P.txs[hy.tx].rp <= HEADERS) =>
               P.txs[hy.tx].rc = (CASE HLine.tc = 1 -> "nobody" [] HLine.tc = 2 -> (IF HLine.cl = 0 THEN "ident0" ELSE "ident") [] HLine.tc = 3 -> "chunked" [] OTHER -> "invalid"))
         /\ ((HLine.live /\ hy.op = "sline") =>
               P.txs[hy.tx].st = (CASE HLine.st = 100 -> "100" [] HLine.st = 101 -> "101" [] HLine.st >= 200 /\ HLine.st <= 299 -> "2xx" [] HLine.st = 407 -> "407" [] OTHER -> "4xx"))
         /\ ((HLine.live /\ hy.op = "sheaders" /\ HLine.rc = "OK") => (P.txs[hy.tx].dec = "active") = HLine.dec)
         /\ HybRet /\ l' = l + 1 /\ UNCHANGED hy
\* the close at the end of a hybrid scenario, and the bookkeeping records, are not steps of this API
THSkip == /\ HasLine /\ cur = "none"
          /\ (HLine.e \in {"Open", "Final", "End", "Destroy", "Fault", "Call", "Ret", "SB", "SE"} \/ (HLine.e = "Cb" /\ HLine.n = "request_file_data"))
          /\ l' = l + 1 /\ UNCHANGED <<P, prog, cur, avail, calls, obs, hy>>
\* file-data callbacks of the body processors (PUT, multipart) are not steps of the transaction state functions
THFile == /\ HasLine /\ HLine.e = "Cb" /\ HLine.n = "request_file_data" /\ l' = l + 1 /\ UNCHANGED <<P, prog, cur, avail, calls, obs, hy>>
THNext == THFile \/ THReset \/ THCall \/ THSetter \/ THCb \/ THCbsDone \/ THTP \/ THRet \/ THSkip
THSpec == HInit /\ [][THNext]_hvars
=============================================================================
