CONSTANTS FixD35 = TRUE  MaxTokens = 3  MaxLimit = 4
INIT Init
NEXT Next
INVARIANTS LayersBounded Faithful NothingUnannounced
CHECK_DEADLOCK FALSE
