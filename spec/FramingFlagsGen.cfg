INIT Init
NEXT Next
INVARIANTS Emit Sane
CHECK_DEADLOCK FALSE
