INIT Init
NEXT Next
INVARIANTS Inv_Complete Inv_Independent Inv_ConfigImmutable Inv_NoSan
CHECK_DEADLOCK FALSE
