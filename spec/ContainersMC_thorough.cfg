CONSTANTS Caps = {1, 2, 3, 4}  MaxOps = 12  MaxLen = 9
SPECIFICATION Spec
INVARIANTS Refines RingShape
CHECK_DEADLOCK FALSE
