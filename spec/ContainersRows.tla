--------------------------- MODULE ContainersRows ---------------------------
(* Judges operation sequences replayed on the real list / table (harness/fn_cont.c): every result and every snapshot taken
   through the public getters must equal what the abstract List / Table of Containers.tla yields. *)
EXTENDS Containers, Json, IOUtils
Rows == ndJsonDeserialize(IOEnv.ROWS)
VARIABLE k
RInitR == k \in 1..Len(Rows)
RNext == UNCHANGED k

RECURSIVE ListOK(_, _, _)
ListOK(r, j, s) == IF j > Len(r.ops) THEN r.oob = NIL
                   ELSE LET a == LApply(s, r.ops[j]) IN a.r = r.res[j] /\ a.s = r.snaps[j] /\ ListOK(r, j + 1, a.s)
Asked == <<<<97>>, <<65>>, <<98>>, <<97, 98>>>>           \* "a" "A" "b" "ab"
\* bstr-keyed and mem-keyed lookups compare case-insensitively WITHOUT skipping NULs; the C-string lookup skips NULs in the stored key
PlainMatch(stored, asked) == LowerSeq(stored) = LowerSeq(asked)
PGet(t, key) == IF \E x \in 1..Len(t) : PlainMatch(t[x][1], key)
                THEN t[CHOOSE x \in 1..Len(t) : PlainMatch(t[x][1], key) /\ \A j \in 1..(x - 1) : ~PlainMatch(t[j][1], key)][2] ELSE NIL
RECURSIVE TableOK(_, _, _)
TableOK(r, j, t) == IF j > Len(r.ops) THEN TRUE
                    ELSE LET o == r.ops[j]
                             a == TApply(t, [op |-> o.op, key |-> o.k, v |-> o.v])
                         IN /\ Len(r.snaps[j]) = Len(a.t)
                            /\ \A x \in 1..Len(a.t) : r.snaps[j][x][1] = a.t[x][1] /\ r.snaps[j][x][2] = a.t[x][2]
                            /\ \A q \in 1..4 : /\ r.looks[j][q][1] = TGet(a.t, Asked[q])
                                               /\ r.looks[j][q][2] = PGet(a.t, Asked[q])
                                               /\ r.looks[j][q][3] = PGet(a.t, Asked[q])
                            /\ TableOK(r, j + 1, a.t)
RowOK == LET r == Rows[k] IN IF r.t = "list" THEN ListOK(r, 1, <<>>) ELSE TableOK(r, 1, <<>>)
ASSUME PrintT(<<"CENSUS", Len(Rows), Cardinality({<<Rows[i].t, Rows[i].cap, Rows[i].ops, IF Rows[i].t = "table" THEN Rows[i].kind ELSE 0>> : i \in 1..Len(Rows)})>>)
=============================================================================
