----------------------------- MODULE ResLineRows -----------------------------
(* Judges rows recorded from real status lines (harness/fn_resline.c) against ResLine: whether the line is taken as a status line
   at all, and then protocol / status / reason, the protocol number and the status number, and the partition of the line. *)
EXTENDS ResLine, Json, IOUtils
Rows == ndJsonDeserialize(IOEnv.ROWS)
VARIABLE k
RInit == k \in 1..Len(Rows)
RNext == UNCHANGED k
Ignorable(l) == \A j \in 1..Len(l) : IsSp(l[j])
RowOK == LET r == Rows[k] IN
         IF Ignorable(r.in) THEN ~r.isline                      \* empty / whitespace-only lines before a response are skipped
         ELSE /\ r.isline = LooksLikeStatusLine(r.in)
              /\ (r.isline => LET e == ParseStatusLine(r.rl) IN
                     /\ r.protocol = e.protocol /\ r.status = e.status /\ r.message = e.message
                     /\ r.pnum = e.pnum /\ r.snum = e.snum /\ StatusPartition(r.rl))
ASSUME PrintT(<<"CENSUS", Len(Rows), Cardinality({Rows[i].in : i \in 1..Len(Rows)})>>)
=============================================================================
