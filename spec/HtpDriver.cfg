CONSTANTS MaxTx = 2  MaxCalls <- NoCallBound  MaxAvail = 2  AutoDestroy = FALSE  FixD4 = TRUE  TraceMode = FALSE  Gaps = FALSE
 CbFail = {}
 Known = {}
 QUnits = 3  SUnits = 3
SPECIFICATION FairDSpec
INVARIANT DrvTypeOK
PROPERTY CallerProgress
CHECK_DEADLOCK FALSE
