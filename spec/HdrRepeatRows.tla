---------------------------- MODULE HdrRepeatRows ----------------------------
(* Judges rows recorded by harness/fn_hdrrep.c: {side, lens, vals, n (fields in the table), name, value, repeated} against HdrRepeat!Combined. *)
EXTENDS HdrRepeat, Json, IOUtils
Rows == ndJsonDeserialize(IOEnv.ROWS)
VARIABLE k
RInit == k \in 1..Len(Rows)
RNext == UNCHANGED k
RowOK == LET r == Rows[k] IN
         /\ r.n = 1 + r.others                                  \* one table entry for the repeated name, whatever the spelling
         /\ r.value = Combined(r.vals)
         /\ r.name = r.first                                    \* under the spelling of the first occurrence
         /\ r.repeated = (Len(r.vals) > 1)
         /\ LengthLaw(r.vals)
ASSUME PrintT(<<"CENSUS", Len(Rows), Cardinality({<<Rows[i].side, Rows[i].lens, Rows[i].pad>> : i \in 1..Len(Rows)})>>)
=============================================================================
