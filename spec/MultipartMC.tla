---------------------------- MODULE MultipartMC ----------------------------
(* C14 - the data-mode core of htp_mpartp_parse (STATE_DATA / STATE_BOUNDARY, cr_aside, boundary_match_pos,
   boundary_pieces).  The delimiter text after the line end is the two-symbol sequence Bnd = <<"D","B">> (think "--" and the
   boundary token), matched symbol by symbol as the code does, so that a candidate can be cut anywhere, can fail after a partial
   match ("L D x", "L D L D B") and can be stored over several chunks.
   A body is  content \o EOL \o Bnd  with content over {"C","L","D","x"} (CR, LF, dash, other) and EOL = <<"C","L">> or <<"L">>.
   The reference result is content, for every chunking.                                                                      *)
EXTENDS Integers, Sequences, FiniteSets, TLC

CONSTANTS MaxLen, FixD10

Sym == {"C", "L", "D", "x"}
Bnd == <<"D", "B">>
Contents == UNION {[1..n -> Sym] : n \in 0..MaxLen}
\* content cannot itself contain EOL+Bnd (no "B" in Sym)
Bodies == {c \o e \o Bnd : c \in Contents, e \in {<<"C", "L">>, <<"L">>}}

VARIABLES body, fed, state, cr_aside, pieces, cand, mpos, out, done
vars == <<body, fed, state, cr_aside, pieces, cand, mpos, out, done>>

Init == /\ body \in Bodies /\ fed = 0 /\ state = "DATA" /\ cr_aside = FALSE /\ pieces = <<>> /\ cand = 0 /\ mpos = 1
        /\ out = <<>> /\ done = FALSE

\* reference: everything before the final EOL+Bnd; the EOL is CRLF when a CR precedes the LF
Ref(b) == LET n == Len(b) - Len(Bnd) IN
          IF n >= 2 /\ b[n-1] = "C" THEN SubSeq(b, 1, n - 2) ELSE SubSeq(b, 1, n - 1)

StripEol(s) == LET n == Len(s) IN
               IF n >= 1 /\ s[n] = "L" THEN (IF n >= 2 /\ s[n-1] = "C" THEN SubSeq(s, 1, n - 2) ELSE SubSeq(s, 1, n - 1))
               ELSE s
RECURSIVE Flat(_)
Flat(ps) == IF ps = <<>> THEN <<>> ELSE Head(ps) \o Flat(Tail(ps))

\* the machine state while scanning one chunk d
\* m = [pos, startpos, ret, state, cr, pieces, cand, mpos, out, done]
RECURSIVE Scan(_, _)
Scan(d, m) ==
  LET len == Len(d) IN
  IF m.done THEN m
  ELSE IF m.state = "DATA" THEN
     IF m.pos >= len THEN
        \* end of chunk in data state: emit what we have, withholding a trailing CR set aside
        [m EXCEPT !.out = @ \o SubSeq(d, m.startpos + 1, m.pos - (IF m.cr THEN 1 ELSE 0))]
     ELSE LET c == d[m.pos + 1] IN
       IF c = "C" THEN
          LET rel == IF FixD10 /\ m.cr THEN <<"C">> ELSE <<>> IN     \* repaired: an earlier set-aside CR is data now
          IF m.pos + 1 = len THEN Scan(d, [m EXCEPT !.pos = @ + 1, !.cr = TRUE, !.out = @ \o rel])
          ELSE IF d[m.pos + 2] = "L"
               THEN Scan(d, [m EXCEPT !.pos = @ + 2, !.ret = m.pos + 2, !.cand = m.pos + 2 - m.startpos, !.state = "BOUNDARY", !.mpos = 1,
                                      !.out = @ \o rel, !.cr = IF FixD10 THEN FALSE ELSE @])
               ELSE Scan(d, [m EXCEPT !.pos = @ + 1, !.cr = FALSE, !.out = @ \o rel])
       ELSE IF c = "L" THEN
          Scan(d, [m EXCEPT !.pos = @ + 1, !.ret = m.pos + 1, !.cand = m.pos + 1 - m.startpos, !.state = "BOUNDARY", !.mpos = 1])
       ELSE \* ordinary byte: release a set-aside CR first
          Scan(d, [m EXCEPT !.pos = @ + 1, !.out = IF m.cr THEN @ \o <<"C">> ELSE @, !.cr = FALSE])
  ELSE \* BOUNDARY
     IF m.pos >= len THEN
        \* no more data: keep the unprocessed part of this chunk for later
        [m EXCEPT !.pieces = Append(@, SubSeq(d, m.startpos + 1, len))]
     ELSE IF d[m.pos + 1] # Bnd[m.mpos] THEN
        \* mismatch: process_aside(no match) in data mode, go back to where data scanning left off in THIS chunk
        \* (data_return_pos is a local of the call: 0 when the candidate started in an earlier chunk)
        Scan(d, [m EXCEPT !.out = @ \o (IF m.cr THEN <<"C">> ELSE <<>>) \o Flat(m.pieces),
                          !.cr = FALSE, !.pieces = <<>>, !.pos = m.ret, !.state = "DATA"])
     ELSE IF m.mpos < Len(Bnd) THEN
        \* one more symbol of the delimiter matched
        Scan(d, [m EXCEPT !.pos = @ + 1, !.mpos = @ + 1])
     ELSE
        \* match: process_aside(match): set-aside CR belongs to the boundary; first piece up to cand minus EOL
        LET fromPieces == IF m.pieces = <<>> THEN <<>> ELSE StripEol(SubSeq(m.pieces[1], 1, m.cand))
            fromChunk == StripEol(SubSeq(d, m.startpos + 1, m.ret))
        IN [m EXCEPT !.out = @ \o fromPieces \o fromChunk, !.cr = FALSE, !.pieces = <<>>, !.done = TRUE]

Feed(n) ==
  /\ ~done /\ n >= 1 /\ fed + n <= Len(body)
  /\ LET d == SubSeq(body, fed + 1, fed + n)
         m == Scan(d, [pos |-> 0, startpos |-> 0, ret |-> 0, state |-> state, cr |-> cr_aside,
                       pieces |-> pieces, cand |-> cand, mpos |-> mpos, out |-> out, done |-> FALSE])
     IN /\ state' = m.state /\ cr_aside' = m.cr /\ pieces' = m.pieces /\ cand' = m.cand /\ mpos' = m.mpos /\ out' = m.out /\ done' = m.done
  /\ fed' = fed + n /\ UNCHANGED body

Next == \E n \in 1..(MaxLen + 4) : Feed(n)
Spec == Init /\ [][Next]_vars

ChunkInvariant == done => out = Ref(body)
\* finding D10 (a set-aside CR is dropped when the next chunk starts with CR or with the CRLF of a delimiter) is exhibited by the model
\* when FixD10 = FALSE; it is excused exactly when the content has a CR that is followed by another CR or by the final CRLF
HasCrCr(b) == \E k \in 1..(Len(b) - 1) : b[k] = "C" /\ b[k + 1] = "C"
ChunkInvariantModD10 == done => (out = Ref(body) \/ HasCrCr(body))
=============================================================================
