------------------------------- MODULE MpartCD -------------------------------
(* C14 - the Content-Disposition value of a multipart part as htp_mpart_part_parse_c_d reads it, transcribed: the value must start
   with "form-data"; then a list of  ; token = "quoted string"  parameters with optional whitespace around the tokens, where
   name and filename may each occur once, a backslash escapes a quote or a backslash, and anything else is flagged.
   Result: the decoded name and file name (what was read before the parser gave up stays) and the indicators
   CD_SYNTAX_INVALID, CD_PARAM_REPEATED, CD_PARAM_UNKNOWN.                                                                     *)
EXTENDS Integers, Sequences, FiniteSets, TLC
None == <<>>
Some(x) == <<x>>
SEMI == 59  EQ == 61  DQ == 34  BSL == 92
IsSpace(b) == b \in {32, 9, 10, 11, 12, 13}
FORMDATA == <<102, 111, 114, 109, 45, 100, 97, 116, 97>>
NAME == <<110, 97, 109, 101>>
FILENAME == <<102, 105, 108, 101, 110, 97, 109, 101>>
RECURSIVE SkipSp(_, _)
SkipSp(v, i) == IF i <= Len(v) /\ IsSpace(v[i]) THEN SkipSp(v, i + 1) ELSE i
RECURSIVE TokenEnd(_, _)
TokenEnd(v, i) == IF i <= Len(v) /\ ~IsSpace(v[i]) /\ v[i] # EQ THEN TokenEnd(v, i + 1) ELSE i
\* position of the closing quote of the quoted string whose content starts at i; 0 = syntax error (no closing quote / backslash at the end)
RECURSIVE QuoteEnd(_, _)
QuoteEnd(v, i) == IF i > Len(v) THEN 0
                  ELSE IF v[i] = DQ THEN i
                  ELSE IF v[i] = BSL THEN (IF i + 1 > Len(v) THEN 0 ELSE IF v[i + 1] \in {DQ, BSL} THEN QuoteEnd(v, i + 2) ELSE QuoteEnd(v, i + 1))
                  ELSE QuoteEnd(v, i + 1)
\* a backslash before a quote or a backslash is dropped
RECURSIVE Decode(_)
Decode(r) == IF r = <<>> THEN <<>>
             ELSE IF r[1] = BSL /\ Len(r) >= 2 /\ r[2] \in {DQ, BSL} THEN <<r[2]>> \o Decode(SubSeq(r, 3, Len(r)))
             ELSE <<r[1]>> \o Decode(Tail(r))
R(name, file, flags) == [name |-> name, file |-> file, flags |-> flags]
RECURSIVE Params(_, _, _, _)
Params(v, pos, name, file) ==
  IF pos > Len(v) THEN R(name, file, {})
  ELSE
  LET bad == R(name, file, {"CD_SYNTAX_INVALID"})
      p1 == SkipSp(v, pos) IN
  IF p1 > Len(v) \/ v[p1] # SEMI THEN bad
  ELSE LET p2 == SkipSp(v, p1 + 1) IN
  IF p2 > Len(v) THEN bad
  ELSE LET pe == TokenEnd(v, p2) IN
  IF pe > Len(v) THEN bad
  ELSE LET tok == SubSeq(v, p2, pe - 1)
           p3 == SkipSp(v, pe) IN
  IF p3 > Len(v) \/ v[p3] # EQ THEN bad
  ELSE LET p4 == SkipSp(v, p3 + 1) IN
  IF p4 > Len(v) \/ v[p4] # DQ THEN bad
  ELSE LET q == QuoteEnd(v, p4 + 1) IN
  IF q = 0 THEN bad
  ELSE LET val == Decode(SubSeq(v, p4 + 1, q - 1)) IN
       IF tok = NAME THEN (IF name # None THEN R(name, file, {"CD_PARAM_REPEATED"}) ELSE Params(v, q + 1, Some(val), file))
       ELSE IF tok = FILENAME THEN (IF file # None THEN R(name, file, {"CD_PARAM_REPEATED"}) ELSE Params(v, q + 1, name, Some(val)))
       ELSE R(name, file, {"CD_PARAM_UNKNOWN"})
ParseCD(v) == IF Len(v) >= 9 /\ SubSeq(v, 1, 9) = FORMDATA THEN Params(v, 10, None, None) ELSE R(None, None, {"CD_SYNTAX_INVALID"})

(* ---------------- meta-properties ---------------- *)
\* decoding never lengthens; a value without backslashes is unchanged; at most one indicator is raised per value
DecodeSane(r) == Len(Decode(r)) <= Len(r) /\ ((\A k \in 1..Len(r) : r[k] # BSL) => Decode(r) = r)
OneFlag(v) == Cardinality(ParseCD(v).flags) <= 1
=============================================================================
