INIT RInitW
NEXT RNext
INVARIANTS Fidelity Invariance
CHECK_DEADLOCK FALSE
