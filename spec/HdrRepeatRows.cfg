INIT RInit
NEXT RNext
INVARIANT RowOK
CHECK_DEADLOCK FALSE
