CONSTANTS MaxTx = 2  MaxCalls = 12  MaxAvail = 1  AutoDestroy = FALSE  FixD4 = TRUE  TraceMode = FALSE  Gaps = FALSE
 CbFail = {}
 Known <- KnownSet
SPECIFICATION HSpec
INVARIANTS Inv_C05 HTypeOK
VIEW HView
CHECK_DEADLOCK FALSE
