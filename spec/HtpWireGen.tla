----------------------------- MODULE HtpWireGen -----------------------------
(* Scenario generation: prints Exchange(i, n) for every index of the configured range as JSON (consumed by tools/wire.py). *)
EXTENDS HtpWire, Json
CONSTANTS From, To, MaxN
VARIABLES i, n
Init == i \in From..To /\ n \in 1..MaxN
Next == UNCHANGED <<i, n>>
Emit == PrintT(<<"SCN", ToJson([i |-> i, n |-> n, x |-> Exchange(i, n)])>>)
=============================================================================
