CONSTANTS W = 5  FailAfter = 2  Streams = {"good", "other", "garbage"}
SPECIFICATION Spec
INVARIANTS NothingLostModF12 FaithfulModF12 NoDoubleDelivery
CHECK_DEADLOCK FALSE
