------------------------------- MODULE Framing -------------------------------
(* C06 / C11 - message framing references over byte sequences (integers).
   DeChunk(w): the entity body of a chunked wire text  ( size-line CRLF data CRLF )* 0-line trailer* CRLF , where a size line is
   hex digits optionally followed by an extension (";..."), and the number of wire bytes that belong to the body.
   The streaming model below is shaped like REQ_BODY_CHUNKED_LENGTH / _DATA / _DATA_END: it consumes arbitrary chunks
   and must produce the same body for every chunking (FramingMC.tla).                                              *)
EXTENDS Integers, Sequences, FiniteSets, TLC

CR == 13  LF == 10  SEMI == 59
IsHexB(b) == (b >= 48 /\ b <= 57) \/ (b >= 65 /\ b <= 70) \/ (b >= 97 /\ b <= 102)
HexV(b) == IF b <= 57 THEN b - 48 ELSE IF b <= 70 THEN b - 55 ELSE b - 87

\* position of the first LF at or after i (0 if none)
RECURSIVE FindLF(_, _)
FindLF(w, i) == IF i > Len(w) THEN 0 ELSE IF w[i] = LF THEN i ELSE FindLF(w, i + 1)
\* value of the hex digits at the start of line w[i..j] (stops at the first non-hex byte); -1 if there is no digit
RECURSIVE HexRun(_, _, _, _)
HexRun(w, i, j, acc) == IF i > j \/ ~IsHexB(w[i]) THEN acc ELSE HexRun(w, i + 1, j, (IF acc < 0 THEN 0 ELSE acc) * 16 + HexV(w[i]))
ChunkSize(w, i, j) == HexRun(w, i, j, -1)

\* reference: returns [body |-> ..., ok |-> BOOLEAN, rest |-> index after the last-chunk line]
RECURSIVE DeChunkFrom(_, _, _)
DeChunkFrom(w, i, body) ==
  LET e == FindLF(w, i) IN
  IF e = 0 THEN [body |-> body, ok |-> FALSE, rest |-> i]
  ELSE LET n == ChunkSize(w, i, e - 1) IN
       IF n < 0 THEN [body |-> body, ok |-> FALSE, rest |-> i]
       ELSE IF n = 0 THEN [body |-> body, ok |-> TRUE, rest |-> e + 1]
       ELSE IF e + n > Len(w) THEN [body |-> body \o SubSeq(w, e + 1, Len(w)), ok |-> FALSE, rest |-> Len(w) + 1]
       ELSE LET d == SubSeq(w, e + 1, e + n)
                \* after the data: CRLF or LF
                a == e + n + 1
                nx == IF a <= Len(w) /\ w[a] = LF THEN a + 1
                      ELSE IF a + 1 <= Len(w) /\ w[a] = CR /\ w[a + 1] = LF THEN a + 2 ELSE 0
            IN IF nx = 0 THEN [body |-> body \o d, ok |-> FALSE, rest |-> a]
               ELSE DeChunkFrom(w, nx, body \o d)
DeChunk(w) == DeChunkFrom(w, 1, <<>>)

(* ---- streaming model: state LENGTH (collect a line), DATA (n bytes left), DATA_END (skip to LF) ---- *)
InitC == [st |-> "LENGTH", line |-> <<>>, left |-> 0, body |-> <<>>, done |-> FALSE, bad |-> FALSE]
StepC(c, b) ==
  IF c.done \/ c.bad THEN c
  ELSE CASE c.st = "LENGTH" ->
              IF b # LF THEN [c EXCEPT !.line = Append(@, b)]
              ELSE LET n == ChunkSize(c.line, 1, Len(c.line)) IN
                   IF n < 0 THEN [c EXCEPT !.bad = TRUE]
                   ELSE IF n = 0 THEN [c EXCEPT !.done = TRUE, !.line = <<>>]
                   ELSE [c EXCEPT !.st = "DATA", !.left = n, !.line = <<>>]
         [] c.st = "DATA" ->
              [c EXCEPT !.body = Append(@, b), !.left = @ - 1, !.st = IF c.left = 1 THEN "DATA_END" ELSE "DATA"]
         [] c.st = "DATA_END" ->
              IF b = LF THEN [c EXCEPT !.st = "LENGTH"] ELSE IF b = CR THEN c ELSE [c EXCEPT !.bad = TRUE]
RECURSIVE FeedC(_, _, _)
FeedC(c, data, i) == IF i > Len(data) THEN c ELSE FeedC(StepC(c, data[i]), data, i + 1)
=============================================================================
