----------------------------- MODULE HdrLineRows -----------------------------
(* Judges rows recorded from single header lines sent over real connections (harness/fn_hdrline.c) against HdrLine. *)
EXTENDS HdrLine, Json, IOUtils
Rows == ndJsonDeserialize(IOEnv.ROWS)
VARIABLE k
RInit == k \in 1..Len(Rows)
RNext == UNCHANGED k
RowOK == LET r == Rows[k]
             e == IF r.side = "req" THEN ReqHeader(r.in) ELSE ResHeader(r.in)
         IN /\ r.got /\ r.n = 1
            /\ r.name = e.name /\ r.value = e.value /\ r.unparseable = e.unparseable /\ r.invalid = e.invalid
ASSUME PrintT(<<"CENSUS", Len(Rows), Cardinality({<<Rows[i].side, Rows[i].in>> : i \in 1..Len(Rows)})>>)
=============================================================================
