---------------------------- MODULE UrlEncoded ----------------------------
(* C15 - application/x-www-form-urlencoded.
   (1) RefPairs: the reference rule of the property, over byte sequences (bytes are integers 0..255):
       split on '&', split each piece at its first '=', drop only a final empty piece, then percent/plus-decode
       name and value per configuration.
   (2) A streaming model shaped like htp_urlenp_parse_partial / htp_urlenp_add_field_piece / htp_urlenp_finalize
       (state KEY/VALUE, the remembered name, the string-builder pieces) driven by arbitrary chunkings.
   TLC checks Stream = RefPairs for every input of the bounded alphabet and EVERY chunking (UrlEncoded.cfg);
   UrlEncodedRows.tla judges rows recorded from the real parser against RefPairs.                          *)
EXTENDS Integers, Sequences, FiniteSets, TLC

AMP == 38  EQ == 61  PCT == 37  PLUS == 43  SP == 32

IsHex(b) == (b >= 48 /\ b <= 57) \/ (b >= 65 /\ b <= 70) \/ (b >= 97 /\ b <= 102)
HexVal(b) == IF b <= 57 THEN b - 48 ELSE IF b <= 70 THEN b - 55 ELSE b - 87
\* x2c() of htp_util.c applied to arbitrary bytes (used by the PROCESS_INVALID mode): unsigned char arithmetic
ClearBit5(b) == IF (b \div 32) % 2 = 1 THEN b - 32 ELSE b
X2cDigit(b) == IF b >= 65 THEN (ClearBit5(b) - 65 + 10) % 256 ELSE (b - 48) % 256
X2c(b1, b2) == (((X2cDigit(b1) * 16) % 256) + X2cDigit(b2)) % 256

Modes == {"preserve", "remove", "process"}

(* percent / plus decoding of one field as htp_urldecode_inplace_ex does with u-decoding off and no NUL
   termination (the defaults of the URLENCODED context).  A %HH escape is recognised iff two more bytes exist. *)
RECURSIVE Dec(_, _, _, _)
Dec(s, i, mode, plus) ==
  IF i > Len(s) THEN <<>> ELSE
  LET c == s[i] IN
  IF c = PCT THEN
     IF i + 2 <= Len(s) THEN
        IF IsHex(s[i+1]) /\ IsHex(s[i+2]) THEN <<HexVal(s[i+1]) * 16 + HexVal(s[i+2])>> \o Dec(s, i + 3, mode, plus)
        ELSE CASE mode = "preserve" -> <<PCT>> \o Dec(s, i + 1, mode, plus)
               [] mode = "remove"   -> Dec(s, i + 1, mode, plus)
               [] mode = "process"  -> <<X2c(s[i+1], s[i+2])>> \o Dec(s, i + 3, mode, plus)
     ELSE IF mode = "remove" THEN Dec(s, i + 1, mode, plus) ELSE <<PCT>> \o Dec(s, i + 1, mode, plus)
  ELSE IF c = PLUS THEN <<(IF plus THEN SP ELSE PLUS)>> \o Dec(s, i + 1, mode, plus)
  ELSE <<c>> \o Dec(s, i + 1, mode, plus)
Decode(s, mode, plus) == Dec(s, 1, mode, plus)

(* The same decoder with the further options of the decoder configuration (C15 "per configuration"): %uHHHH decoding
   (u_encoding_decode: overlong %u00HH gives HH, other code points go through the best-fit map, unknown ones become '?'),
   termination at an encoded NUL (nul_encoded_terminates) and at a raw NUL (nul_raw_terminates).
   o = [mode, plus, udec, nulenc, nulraw].  The best-fit map is restricted to the code points the recorded rows use. *)
BF(c1, c2) == IF c1 = 1 /\ c2 = 0 THEN 65 ELSE IF c1 = 255 /\ c2 = 15 THEN 47 ELSE 63
DecU(h1, h2, h3, h4) == LET c1 == X2c(h1, h2)  c2 == X2c(h3, h4) IN IF c1 = 0 THEN c2 ELSE BF(c1, c2)
RECURSIVE DecX(_, _, _)
\* a byte that came out of a percent form: an encoded NUL may end the field
EmitEnc(s, c, next, o) == IF c = 0 /\ o.nulenc THEN <<>> ELSE <<c>> \o DecX(s, next, o)
DecX(s, i, o) ==
  IF i > Len(s) THEN <<>> ELSE
  LET c == s[i] IN
  IF c = PCT THEN
     IF i + 2 <= Len(s) THEN
        IF o.udec /\ s[i+1] \in {117, 85} THEN
           IF i + 5 <= Len(s) THEN
              IF IsHex(s[i+2]) /\ IsHex(s[i+3]) /\ IsHex(s[i+4]) /\ IsHex(s[i+5])
              THEN EmitEnc(s, DecU(s[i+2], s[i+3], s[i+4], s[i+5]), i + 6, o)
              ELSE CASE o.mode = "preserve" -> <<PCT>> \o DecX(s, i + 1, o)
                     [] o.mode = "remove"   -> DecX(s, i + 1, o)
                     [] o.mode = "process"  -> EmitEnc(s, DecU(s[i+2], s[i+3], s[i+4], s[i+5]), i + 6, o)
           ELSE IF o.mode = "remove" THEN DecX(s, i + 1, o) ELSE <<PCT>> \o DecX(s, i + 1, o)        \* not enough bytes for %uHHHH
        ELSE IF IsHex(s[i+1]) /\ IsHex(s[i+2]) THEN EmitEnc(s, HexVal(s[i+1]) * 16 + HexVal(s[i+2]), i + 3, o)
        ELSE CASE o.mode = "preserve" -> <<PCT>> \o DecX(s, i + 1, o)
               [] o.mode = "remove"   -> DecX(s, i + 1, o)
               [] o.mode = "process"  -> EmitEnc(s, X2c(s[i+1], s[i+2]), i + 3, o)
     ELSE IF o.mode = "remove" THEN DecX(s, i + 1, o) ELSE <<PCT>> \o DecX(s, i + 1, o)
  ELSE IF c = PLUS THEN <<(IF o.plus THEN SP ELSE PLUS)>> \o DecX(s, i + 1, o)
  ELSE IF c = 0 /\ o.nulraw THEN <<>>
  ELSE <<c>> \o DecX(s, i + 1, o)
DecodeX(s, o) == DecX(s, 1, o)

RECURSIVE SplitOn(_, _, _, _)
SplitOn(s, i, sep, acc) ==
  IF i > Len(s) THEN <<acc>>
  ELSE IF s[i] = sep THEN <<acc>> \o SplitOn(s, i + 1, sep, <<>>)
  ELSE SplitOn(s, i + 1, sep, Append(acc, s[i]))

FirstEq(p) == IF \E k \in 1..Len(p) : p[k] = EQ
              THEN CHOOSE k \in 1..Len(p) : p[k] = EQ /\ \A j \in 1..(k-1) : p[j] # EQ ELSE 0

RawPairs(s) ==
  LET pieces0 == SplitOn(s, 1, AMP, <<>>)
      pieces == IF pieces0[Len(pieces0)] = <<>> THEN SubSeq(pieces0, 1, Len(pieces0) - 1) ELSE pieces0
      Pair(p) == LET k == FirstEq(p) IN
                 IF k = 0 THEN <<p, <<>>>> ELSE <<SubSeq(p, 1, k - 1), SubSeq(p, k + 1, Len(p))>>
  IN [j \in 1..Len(pieces) |-> Pair(pieces[j])]

RefPairs(s, mode, plus) ==
  LET r == RawPairs(s) IN [j \in 1..Len(r) |-> <<Decode(r[j][1], mode, plus), Decode(r[j][2], mode, plus)>>]
RefPairsX(s, o) ==
  LET r == RawPairs(s) IN [j \in 1..Len(r) |-> <<DecodeX(r[j][1], o), DecodeX(r[j][2], o)>>]
\* with the further options off the extended decoder is the plain one
XAgrees(s, mode, plus) == DecodeX(s, [mode |-> mode, plus |-> plus, udec |-> FALSE, nulenc |-> FALSE, nulraw |-> FALSE]) = Decode(s, mode, plus)

(* ------------------------------------------------------------------ streaming model (the code's shape) *)
\* parser record: st \in {"KEY","VALUE"}, name = <<>> (NULL) or <<bytes>>, bb = sequence of pieces, params
NONE == <<>>
Some(x) == <<x>>
Flat(bb) == IF bb = <<>> THEN <<>> ELSE LET F[k \in 0..Len(bb)] == IF k = 0 THEN <<>> ELSE F[k-1] \o bb[k] IN F[Len(bb)]
InitU == [st |-> "KEY", name |-> NONE, bb |-> <<>>, params |-> <<>>, complete |-> FALSE]

\* htp_urlenp_add_field_piece(urlenp, data, startpos, endpos, last_char); piece = data[startpos..endpos), c = -1 at chunk end
AddFieldPiece(u, piece, c, mode, plus) ==
  IF c # -1 \/ u.complete THEN
     LET field == IF Len(u.bb) > 0 THEN Some(Flat(IF piece # <<>> THEN Append(u.bb, piece) ELSE u.bb))
                  ELSE IF piece # <<>> THEN Some(piece) ELSE NONE
         u1 == [u EXCEPT !.bb = <<>>]
         D(x) == Decode(x, mode, plus)
     IN IF u.st = "KEY" THEN
           IF u.complete \/ c = AMP THEN
              IF field # NONE \/ c = AMP
              THEN [u1 EXCEPT !.params = Append(@, <<D(IF field = NONE THEN <<>> ELSE field[1]), <<>>>>), !.name = NONE]
              ELSE u1
           ELSE [u1 EXCEPT !.name = field]
        ELSE [u1 EXCEPT !.params = Append(@, <<D(IF u.name = NONE THEN <<>> ELSE u.name[1]),
                                               D(IF field = NONE THEN <<>> ELSE field[1])>>), !.name = NONE]
  ELSE IF piece # <<>> THEN [u EXCEPT !.bb = Append(@, piece)] ELSE u

\* htp_urlenp_parse_partial(urlenp, data, len): the do/while over pos = 0..len (c = -1 at pos = len)
RECURSIVE Scan(_, _, _, _, _, _)
Scan(u, data, pos, startpos, mode, plus) ==
  LET c == IF pos <= Len(data) THEN data[pos] ELSE -1
      piece == SubSeq(data, startpos, pos - 1)
      hit == IF u.st = "KEY" THEN c = EQ \/ c = AMP \/ c = -1 ELSE c = AMP \/ c = -1
      u1 == IF hit THEN AddFieldPiece(u, piece, c, mode, plus) ELSE u
      u2 == IF hit /\ c # -1 THEN [u1 EXCEPT !.st = IF u.st = "KEY" /\ c = EQ THEN "VALUE" ELSE "KEY"] ELSE u1
      sp == IF hit /\ c # -1 THEN pos + 1 ELSE startpos
  IN IF c = -1 THEN u2 ELSE Scan(u2, data, pos + 1, sp, mode, plus)
Feed(u, data, mode, plus) == Scan(u, data, 1, 1, mode, plus)
Finalize(u, mode, plus) == Scan([u EXCEPT !.complete = TRUE], <<>>, 1, 1, mode, plus)

=============================================================================
