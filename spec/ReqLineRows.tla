----------------------------- MODULE ReqLineRows -----------------------------
(* Judges rows recorded from real request lines (harness/fn_reqline.c) against ReqLine!Parse: method, URI, protocol, HTTP/0.9
   indicator and protocol number, for the line as the transaction reports it and the options of the row; the partition
   meta-property is evaluated on the OBSERVED components as well. *)
EXTENDS ReqLine, Json, IOUtils
Rows == ndJsonDeserialize(IOEnv.ROWS)
VARIABLE k
RInit == k \in 1..Len(Rows)
RNext == UNCHANGED k
\* a line that is not parsed at all is an ignorable one (empty / whitespace only, per personality)
RowOK == LET r == Rows[k] IN
         IF ~r.parsed THEN \A j \in 1..Len(r.in) : IsSp(r.in[j]) \/ (r.nul /\ \E z \in 1..j : r.in[z] = 0)
         ELSE LET e == Parse(r.rl, r.allow, r.nul, r.keep) IN
              /\ r.method = e.method /\ r.uri = e.uri /\ r.protocol = e.protocol
              /\ r.is09 = e.is09 /\ r.pnum = e.pnum
              /\ Partition(r.rl, r.allow, r.nul, r.keep)
ASSUME PrintT(<<"CENSUS", Len(Rows), Cardinality({<<Rows[i].in, Rows[i].allow, Rows[i].nul, Rows[i].keep>> : i \in 1..Len(Rows)})>>)
=============================================================================
