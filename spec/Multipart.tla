------------------------------ MODULE Multipart ------------------------------
(* C14 - multipart/form-data: abstract documents and their expected parse.
   A document is [eol, pre, parts, epi, lws]: the line ending used by the structure ("crlf" | "lf"), an optional preamble, a sequence of
   parts [name, filename (optional), ctype (optional), fold (the Content-Disposition header is folded), data (bytes)], an optional
   epilogue, and whether the delimiter lines carry trailing LWS.  Part data ranges over a near-boundary alphabet (CR, LF, dashes,
   prefixes of the delimiter, the boundary text not preceded by a line end) but never contains a real delimiter.
   Expected(d, body) is the ground truth by construction: exactly the encoded parts, byte for byte, and the format indicators as a
   function of the document (body = the rendered bytes, used only for the line-ending indicators).  It does not depend on how the
   body is cut into chunks.  Doc(i) decodes an index into production choices with co-prime strides.                          *)
EXTENDS Integers, Sequences, FiniteSets, TLC
None == <<>>
Some(x) == <<x>>
CR == 13  LF == 10  DASH == 45  BB == <<66, 66>>          \* boundary text "BB"
\* near-boundary data atoms (the renderer never puts a complete delimiter = line end + "--BB" into part data)
Atoms == << <<120>>, <<CR>>, <<LF>>, <<DASH>>, <<DASH, DASH>>, <<CR, LF>>, <<CR, LF, DASH, DASH, 66>>, <<LF, DASH, DASH, 66, 120>>, <<120, DASH, DASH, 66, 66>>,
            <<CR, CR>>, <<CR, LF, DASH>>, <<DASH, DASH, 66, 66, DASH, DASH>>, <<0>>, <<CR, LF, CR, LF>> >>
Names == <<"f1", "field two", "a\"b", "x\\y", "", "dir\\", "q\\\"">>
Files == <<None, Some("a.txt"), Some("q\"uote.bin"), None, Some(""), Some("C:\\tmp\\"), None>>
CTypes == <<None, Some("text/plain"), Some("application/octet-stream")>>
Idx(n, i, p, q) == (i * p + (i \div q)) % n
Pick(pool, i, p, q) == pool[Idx(Len(pool), i, p, q) + 1]
\* part data: 0..3 atoms; a leading atom that starts with the boundary text would form a delimiter right after the header block: shifted by an 'x'
RECURSIVE Cat(_)
Cat(ss) == IF ss = <<>> THEN <<>> ELSE ss[1] \o Cat(Tail(ss))
StartsDelim(d) == Len(d) >= 4 /\ SubSeq(d, 1, 4) = <<DASH, DASH, 66, 66>>
Data(i) == LET n == Idx(4, i, 1, 5)
               raw == Cat([k \in 1..n |-> Pick(Atoms, i + 31 * k, 3 + 2 * k, 7)])
           IN IF StartsDelim(raw) THEN <<120>> \o raw ELSE raw
Part(i) == LET f == Pick(Files, i, 3, 11) IN
           [name |-> Pick(Names, i, 1, 13), filename |-> f, ctype |-> IF f = None THEN None ELSE Pick(CTypes, i, 5, 17),
            fold |-> Idx(5, i, 7, 3) = 0, data |-> Data(i)]
Doc(i) == LET np == Idx(4, i, 1, 19) IN
          [eol |-> IF Idx(3, i, 1, 2) = 0 THEN "lf" ELSE "crlf",
           pre |-> Pick(<<None, None, Some(<<112, 114, 101>>), Some(<<112, CR, LF, 113>>)>>, i, 3, 23),
           parts |-> [k \in 1..np |-> Part(i + 97 * k)],
           epi |-> Pick(<<None, None, None, Some(<<101, 112, 105>>)>>, i, 5, 29),
           lws |-> Idx(7, i, 3, 31) = 0,
           \* the line end that belongs to the first delimiter is on the wire although nothing precedes it (RFC 2046: the CRLF preceding the boundary
           \* delimiter line is part of the delimiter): no preamble part is reported for it
           lead |-> Pick(<<None, None, Some(<<112, 114, 101>>), Some(<<112, CR, LF, 113>>)>>, i, 3, 23) = None /\ Idx(3, i, 2, 37) = 0]

(* ---------------- expected parse ---------------- *)
HasCRLF(b) == \E k \in 1..(Len(b) - 1) : b[k] = CR /\ b[k + 1] = LF
HasBareLF(b) == \E k \in 1..Len(b) : b[k] = LF /\ (k = 1 \/ b[k - 1] # CR)
TypeOf(p) == IF p.filename # None THEN "FILE" ELSE "TEXT"
\* The parser takes [CR] LF "--BB" as a delimiter: in a document whose structure uses bare LF, a final CR of the part data is
\* indistinguishable from the CR of a CRLF delimiter and belongs to the delimiter (what the code does, and the only consistent reading).
Deliv(d, data) == IF d.eol = "lf" /\ data # <<>> /\ data[Len(data)] = CR THEN SubSeq(data, 1, Len(data) - 1) ELSE data
ExpPart(d, p) == [type |-> TypeOf(p), name |-> Some(p.name), filename |-> p.filename, ctype |-> p.ctype, data |-> Deliv(d, p.data)]
ExpectedParts(d) ==
  (IF d.pre # None THEN <<[type |-> "PREAMBLE", name |-> None, filename |-> None, ctype |-> None, data |-> Deliv(d, d.pre[1])]>> ELSE <<>>)
  \o [k \in 1..Len(d.parts) |-> ExpPart(d, d.parts[k])]
  \o (IF d.epi # None THEN <<[type |-> "EPILOGUE", name |-> None, filename |-> None, ctype |-> None, data |-> d.epi[1]]>> ELSE <<>>)
ExpectedFlags(d, body) ==
  {"SEEN_LAST_BOUNDARY"}
  \cup (IF HasCRLF(body) THEN {"CRLF_LINE"} ELSE {}) \cup (IF HasBareLF(body) THEN {"LF_LINE"} ELSE {})
  \cup (IF d.pre # None THEN {"HAS_PREAMBLE"} ELSE {}) \cup (IF d.epi # None THEN {"HAS_EPILOGUE"} ELSE {})
  \cup (IF d.lws THEN {"BBOUNDARY_LWS_AFTER"} ELSE {})
  \cup (IF \E k \in 1..Len(d.parts) : d.parts[k].fold THEN {"PART_HEADER_FOLDING"} ELSE {})
\* text parts become body parameters with the same names and values, in order
ExpectedParams(d) == LET T == SelectSeq(d.parts, LAMBDA p : p.filename = None) IN [k \in 1..Len(T) |-> <<T[k].name, Deliv(d, T[k].data)>>]
=============================================================================
