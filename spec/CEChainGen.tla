----------------------------- MODULE CEChainGen -----------------------------
(* Scenario generation for C07: every list of 1..MaxTokens coding names x separator x layer limit x LZMA layer limit,
   with what CEChain says the body callbacks must receive (the layers left on the payload).  Consumed by tools/c07.py,
   which applies the layers to a payload with python's codecs and declares the expectation to the recorder. *)
EXTENDS CEChain, Json, TLC
CONSTANTS MaxTokens, Limits
Pool == <<N_gzip, N_x_gzip, N_deflate, N_x_deflate, N_lzma, N_inflate, N_none, N_identity, N_GZIP, N_br>>
Seps == << <<COMMA>>, <<COMMA, SPC>> >>
VARIABLES names, sep, ll, zl
RECURSIVE Lists(_)
Lists(n) == IF n = 0 THEN {<<>>} ELSE LET S == Lists(n - 1) IN S \cup {Append(s, Pool[k]) : s \in {t \in S : Len(t) = n - 1}, k \in 1..Len(Pool)}
Init == names \in (Lists(MaxTokens) \ {<<>>}) /\ sep \in {1, 2} /\ (Len(names) = 1 => sep = 1) /\ ll \in Limits /\ zl \in Limits
Next == UNCHANGED <<names, sep, ll, zl>>
Emit == LET o == Outcome(names, Seps[sep], ll, zl)
            c == Chain(Join(names, Seps[sep]), ll, zl, TRUE)
        IN PrintT(<<"ROW", ToJson([value |-> Join(names, Seps[sep]), ll |-> ll, zl |-> zl, stack |-> Stack(names),
                                   residual |-> o.residual, mismatch |-> o.mismatch, chain |-> [i \in 1..Len(c) |-> c[i].type]])>>)
=============================================================================
