\* exhaustive: every input over {a = & % + 1 NUL} up to MaxLen, every chunking, 3 modes x 2 plus settings
CONSTANTS Alphabet = {97, 61, 38, 37, 43, 49, 0}  MaxLen = 4
SPECIFICATION Spec
INVARIANTS StreamEqualsRef RefShape XConservative
CHECK_DEADLOCK FALSE
