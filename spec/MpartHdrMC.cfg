\* alphabet: A a : SP NUL (
CONSTANTS Alphabet = {65, 97, 58, 32, 0, 40}  MaxLen = 3  MaxLines = 2
INIT Init
NEXT Next
INVARIANTS Shape Accounted
CHECK_DEADLOCK FALSE
