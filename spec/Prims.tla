-------------------------------- MODULE Prims --------------------------------
(* C17 - byte-string and numeric primitives as mathematical functions over byte sequences (integers).
   Compare / search / prefix with and without case folding and NUL skipping, trim, lower-case, append with / without growth,
   and the numeric parsers on DIGIT SEQUENCES: TLC integers are 32-bit, so values are compared as normalised decimal digit
   sequences (length first, then lexicographically) against the INT64_MAX / INT32_MAX numerals.                       *)
EXTENDS Integers, Sequences, FiniteSets, TLC

Lower(b) == IF b >= 65 /\ b <= 90 THEN b + 32 ELSE b
LowerSeq(s) == [k \in 1..Len(s) |-> Lower(s[k])]
RECURSIVE DropNul(_)
DropNul(s) == IF s = <<>> THEN <<>> ELSE IF s[1] = 0 THEN DropNul(Tail(s)) ELSE <<s[1]>> \o DropNul(Tail(s))

\* lexicographic comparison: -1, 0, 1
RECURSIVE Cmp(_, _)
Cmp(a, b) == IF a = <<>> /\ b = <<>> THEN 0 ELSE IF a = <<>> THEN -1 ELSE IF b = <<>> THEN 1
             ELSE IF a[1] < b[1] THEN -1 ELSE IF a[1] > b[1] THEN 1 ELSE Cmp(Tail(a), Tail(b))
CmpNocase(a, b) == Cmp(LowerSeq(a), LowerSeq(b))
CmpNocaseNorZero(a, b) == Cmp(LowerSeq(DropNul(a)), LowerSeq(b))          \* NULs of the FIRST argument are ignored

IsPrefixAt(h, i, n) == i + Len(n) - 1 <= Len(h) /\ \A k \in 1..Len(n) : h[i + k - 1] = n[k]
\* 0-based index of the first occurrence of n in h, -1 if none; the empty needle occurs at index 0 of every haystack
IndexOf(h, n) == IF n = <<>> THEN 0
                 ELSE IF \E i \in 1..Len(h) : IsPrefixAt(h, i, n) THEN (CHOOSE i \in 1..Len(h) : IsPrefixAt(h, i, n) /\ \A j \in 1..(i - 1) : ~IsPrefixAt(h, j, n)) - 1 ELSE -1
IndexOfNocase(h, n) == IndexOf(LowerSeq(h), LowerSeq(n))
\* search that skips NUL bytes of the haystack: a match starts at a non-NUL byte and consumes the needle against the non-NUL bytes that follow
RECURSIVE MatchSkip(_, _, _)
MatchSkip(h, i, n) == IF n = <<>> THEN TRUE ELSE IF i > Len(h) THEN FALSE
                      ELSE IF h[i] = 0 THEN MatchSkip(h, i + 1, n)
                      ELSE Lower(h[i]) = Lower(n[1]) /\ MatchSkip(h, i + 1, Tail(n))
StartsNcz(h, i, n) == h[i] # 0 /\ MatchSkip(h, i, n)
IndexOfNocaseNorZero(h, n) == IF \E i \in 1..Len(h) : StartsNcz(h, i, n)
                              THEN (CHOOSE i \in 1..Len(h) : StartsNcz(h, i, n) /\ \A j \in 1..(i - 1) : ~StartsNcz(h, j, n)) - 1 ELSE -1
BeginsWith(h, n) == IF IsPrefixAt(h, 1, n) THEN 1 ELSE 0
BeginsWithNocase(h, n) == BeginsWith(LowerSeq(h), LowerSeq(n))

IsSpace(b) == b \in {32, 9, 10, 11, 12, 13}
RECURSIVE LTrim(_)
LTrim(s) == IF s # <<>> /\ IsSpace(s[1]) THEN LTrim(Tail(s)) ELSE s
RECURSIVE RTrimS(_)
RTrimS(s) == IF s # <<>> /\ IsSpace(s[Len(s)]) THEN RTrimS(SubSeq(s, 1, Len(s) - 1)) ELSE s
Trim(s) == RTrimS(LTrim(s))
\* append with growth: always everything; without growth: only what fits into the allocated size
Add(a, b) == a \o b
AddNoex(a, size, b) == a \o SubSeq(b, 1, IF size - Len(a) < Len(b) THEN (IF size - Len(a) < 0 THEN 0 ELSE size - Len(a)) ELSE Len(b))

(* ---------------- numbers on digit sequences ---------------- *)
DigitVal(b) == IF b >= 48 /\ b <= 57 THEN b - 48 ELSE IF b >= 97 /\ b <= 122 THEN b - 87 ELSE IF b >= 65 /\ b <= 90 THEN b - 55 ELSE 99
\* decimal numeral (sequence of digits 0..9, most significant first, no leading zeros except <<0>>) arithmetic
RECURSIVE StripZ(_)
StripZ(d) == IF Len(d) > 1 /\ d[1] = 0 THEN StripZ(Tail(d)) ELSE d
\* d * m + a, m <= 16, a <= 15, on a decimal numeral
RECURSIVE MulAddR(_, _, _)      \* processes from the least significant digit; carry c
MulAddR(d, m, c) == IF d = <<>> THEN (IF c = 0 THEN <<>> ELSE IF c < 10 THEN <<c>> ELSE <<c \div 10, c % 10>>)
                    ELSE LET x == d[Len(d)] * m + c IN MulAddR(SubSeq(d, 1, Len(d) - 1), m, x \div 10) \o <<x % 10>>
MulAdd(d, m, a) == StripZ(LET r == MulAddR(d, m, a) IN IF r = <<>> THEN <<0>> ELSE r)
NumLE(a, b) == Len(a) < Len(b) \/ (Len(a) = Len(b) /\ Cmp(a, b) <= 0)
INT64MAX == <<9,2,2,3,3,7,2,0,3,6,8,5,4,7,7,5,8,0,7>>
INT32MAX == <<2,1,4,7,4,8,3,6,4,7>>
\* bstr_util_mem_to_pint: leading run of digits valid in `base`; [v |-> numeral or <<>>, code |-> 0 ok / -1 no digit / -2 overflow, used |-> digits consumed]
RECURSIVE PIntR(_, _, _, _, _)
PIntR(s, i, base, acc, seen) ==
  IF i > Len(s) \/ DigitVal(s[i]) >= base THEN [v |-> acc, code |-> IF seen THEN 0 ELSE -1, used |-> i - 1]
  ELSE LET nx == MulAdd(acc, base, DigitVal(s[i])) IN
       IF ~NumLE(nx, INT64MAX) THEN [v |-> <<>>, code |-> -2, used |-> i - 1]
       ELSE PIntR(s, i + 1, base, nx, TRUE)
ParsePInt(s, base) == PIntR(s, 1, base, <<0>>, FALSE)
\* htp_parse_positive_integer_whitespace: LWS, a run of digits of the base, LWS - nothing else
IsLwsB(b) == b = 32 \/ b = 9
RECURSIVE SkipLws(_)
SkipLws(s) == IF s # <<>> /\ IsLwsB(s[1]) THEN SkipLws(Tail(s)) ELSE s
PIntWs(s, base) == IF s = <<>> THEN [v |-> <<>>, code |-> -1003]
                   ELSE LET t == SkipLws(s) IN IF t = <<>> THEN [v |-> <<>>, code |-> -1001]
                   ELSE LET r == ParsePInt(t, base) IN
                        IF r.code < 0 THEN [v |-> <<>>, code |-> r.code]
                        ELSE IF SkipLws(SubSeq(t, r.used + 1, Len(t))) # <<>> THEN [v |-> <<>>, code |-> -1002]
                        ELSE [v |-> r.v, code |-> 0]
\* htp_parse_status: the decimal value when it is in 100..999, otherwise invalid (-1)
StatusOf(s) == LET r == PIntWs(s, 10) IN
               IF r.code < 0 \/ Len(r.v) # 3 THEN -1 ELSE r.v[1] * 100 + r.v[2] * 10 + r.v[3]
\* htp_parse_content_length: skip everything before the first decimal digit, then a decimal run (junk afterwards is allowed)
RECURSIVE SkipNonDigits(_)
SkipNonDigits(s) == IF s # <<>> /\ ~(s[1] >= 48 /\ s[1] <= 57) THEN SkipNonDigits(Tail(s)) ELSE s
ContentLength(s) == IF s = <<>> THEN [v |-> <<>>, code |-> -1003]
                    ELSE LET t == SkipNonDigits(s) IN IF t = <<>> THEN [v |-> <<>>, code |-> -1001]
                    ELSE LET r == ParsePInt(t, 10) IN [v |-> r.v, code |-> r.code]
\* htp_parse_chunked_length: skip leading CR LF SP HT VT FF; hex run; the rest of the line (extension / junk) is cut off; > INT32_MAX is an error
IsChunkSkip(b) == b \in {13, 10, 32, 9, 11, 12}
RECURSIVE SkipCtl(_)
SkipCtl(s) == IF s # <<>> /\ IsChunkSkip(s[1]) THEN SkipCtl(Tail(s)) ELSE s
IsHexD(b) == (b >= 48 /\ b <= 57) \/ (b >= 97 /\ b <= 102) \/ (b >= 65 /\ b <= 70)
RECURSIVE HexRunLen(_, _)
HexRunLen(s, i) == IF i <= Len(s) /\ IsHexD(s[i]) THEN HexRunLen(s, i + 1) ELSE i - 1
ChunkLength(s) == LET t == SkipCtl(s) IN
                  IF t = <<>> THEN [v |-> <<>>, code |-> -1004]
                  ELSE LET n == HexRunLen(t, 1) IN
                       IF n = 0 THEN [v |-> <<>>, code |-> -1003]
                       ELSE LET r == ParsePInt(SubSeq(t, 1, n), 16) IN
                            IF r.code < 0 THEN [v |-> <<>>, code |-> r.code]
                            ELSE IF ~NumLE(r.v, INT32MAX) THEN [v |-> <<>>, code |-> -1] ELSE [v |-> r.v, code |-> 0]
=============================================================================
