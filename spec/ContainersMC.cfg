CONSTANTS Caps = {1, 2, 3}  MaxOps = 9  MaxLen = 7
SPECIFICATION Spec
INVARIANTS Refines RingShape
CHECK_DEADLOCK FALSE
