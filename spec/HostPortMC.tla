------------------------------ MODULE HostPortMC ------------------------------
EXTENDS HostPort
CONSTANT MaxLen
VARIABLE v
Alpha == {97, 66, DOT, COLON, 56, 32, 45}          \* a B . : 8 SP -
Init == v \in UNION {[1..n -> Alpha] : n \in 0..MaxLen}
Next == UNCHANGED v
\* sanity of the reference: a reported port is in range; the host is a prefix-part of the trimmed value; no host => invalid
Sane == LET r == ParseHostPort(v) IN
        /\ (r.portn = -1 \/ (r.portn >= 1 /\ r.portn <= 65535))
        /\ (r.host = None => r.invalid)
        /\ (r.host # None => Len(r.host[1]) <= Len(v))
        /\ (~HosthInvalid(v) => r.host # None /\ \A k \in 1..Len(r.host[1]) : r.host[1][k] # COLON /\ ~IsSpace(r.host[1][k]))
ASSUME ParseHostPort(<<97, 46, 66, 58, 56, 48>>) = HP(Some(<<97, 46, 66>>), 80, FALSE)
ASSUME ParseHostPort(<<65, 46, 66>>) = HP(Some(<<97, 46, 98>>), -1, FALSE)
ASSUME ParseHostPort(<<97, 58>>) = HP(Some(<<97>>), -1, TRUE)
ASSUME ParseHostPort(<<97, 58, 54, 53, 53, 51, 54>>).invalid /\ ParseHostPort(<<97, 58, 48, 56, 48>>).portn = 80
ASSUME ValidHostname(<<97, 46>>) /\ ~ValidHostname(<<46, 97>>) /\ ~ValidHostname(<<97, 46, 46, 98>>) /\ ValidHostname(<<97, 95, 45, 46, 98>>)
=============================================================================
