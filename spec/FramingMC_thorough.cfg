\* alphabet: '1' '2' '0' 'a'(hex 10 / data) ';' CR LF
CONSTANTS Alphabet = {49, 50, 48, 59, 13, 10, 120}  MaxLen = 7
SPECIFICATION Spec
INVARIANTS StreamEqualsRef BodyIsSubsequence
CHECK_DEADLOCK FALSE
