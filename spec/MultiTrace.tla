----------------------------- MODULE MultiTrace -----------------------------
(* C19 - independence of parsers that share one configuration.
   The log holds, per FAMILY, the events of N parsers created from one configuration and driven call-by-call in some
   interleaving (or from N threads), followed by the events of the same N streams each run alone on its own identical
   configuration.  Independence: the projection of every parser's events equals its solo events (callbacks with progress and
   data lengths, calls, returns with stream states and consumed counts, the final transaction dump).  ConfigImmutable: the
   digest of the shared configuration (structure bytes + callback lists), logged at every return, never changes.       *)
EXTENDS Integers, Sequences, FiniteSets, TLC, Json, IOUtils

TraceLog == ndJsonDeserialize(IOEnv.TRACE)
N == Len(TraceLog)
Resets == {i \in 1..N : TraceLog[i].e = "Reset"}
EndOf(i) == LET later == {j \in Resets : j > i} \cup {j \in 1..N : j > i /\ TraceLog[j].e = "Family"}
            IN IF later = {} THEN N ELSE (CHOOSE j \in later : \A x \in later : j <= x) - 1
\* what must be identical between the shared and the solo run of a stream
Keep(ev) == ev.e \in {"Call", "Cb", "Ret", "Final", "End", "Destroy"}
Norm(ev) == CASE ev.e = "Ret" -> [e |-> "Ret", d |-> ev.d, rc |-> ev.rc, consumed |-> ev.consumed, ist |-> ev.ist, ost |-> ev.ost, ntx |-> ev.ntx,
                                  ibuf |-> ev.ibuf, obuf |-> ev.obuf, inc |-> ev.inc, outc |-> ev.outc]
              [] ev.e = "End" -> [e |-> "End", stall |-> ev.stall, ntx |-> ev.ntx, nser |-> ev.nser, ncb |-> ev.ncb, san |-> ev.san]
              [] OTHER -> ev
Proj(i) == LET s == SubSeq(TraceLog, i + 1, EndOf(i)) IN [k \in 1..Len(SelectSeq(s, Keep)) |-> Norm(SelectSeq(s, Keep)[k])]
Digests(i) == {TraceLog[j].cfgd : j \in {x \in (i + 1)..EndOf(i) : TraceLog[x].e = "Ret"}}
Fams == {TraceLog[i].cfg.fam : i \in Resets}
RunOf(fam, role, idx) == {i \in Resets : TraceLog[i].cfg.fam = fam /\ TraceLog[i].cfg.role = role /\ TraceLog[i].cfg.idx = idx}
Idxs(fam) == {TraceLog[i].cfg.idx : i \in {r \in Resets : TraceLog[r].cfg.fam = fam /\ TraceLog[r].cfg.role = "p"}}

VARIABLE fam
Init == fam \in Fams
Next == UNCHANGED fam
\* per family
Independent(f) == \A x \in Idxs(f) : \A a \in RunOf(f, "p", x), b \in RunOf(f, "solo", x) : Proj(a) = Proj(b)
Complete(f) == \A x \in Idxs(f) : RunOf(f, "p", x) # {} /\ RunOf(f, "solo", x) # {}
ConfigImmutable(f) == Cardinality(UNION {Digests(a) : a \in {r \in Resets : TraceLog[r].cfg.fam = f /\ TraceLog[r].cfg.role = "p"}}) <= 1
NoSan(f) == \A i \in {r \in Resets : TraceLog[r].cfg.fam = f} : \A j \in (i + 1)..EndOf(i) : TraceLog[j].e = "End" => ~TraceLog[j].san
Inv_Independent == Independent(fam)
Inv_Complete == Complete(fam)
Inv_ConfigImmutable == ConfigImmutable(fam)
Inv_NoSan == NoSan(fam)
ASSUME PrintT(<<"FAMILIES", Cardinality(Fams), Cardinality(Resets)>>)
=============================================================================
