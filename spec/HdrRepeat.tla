------------------------------ MODULE HdrRepeat ------------------------------
(* C02 - "repeated fields combined": a field name that occurs k times in one message (any spelling of its letters) is reported once, under the
   spelling of its first occurrence, with the values joined by ", " in wire order - up to HTP_MAX_HEADERS_REPETITIONS (64) combinations after the
   first repeat, further repeats being dropped.  Transcribed from htp_process_request_header_generic / htp_process_response_header_generic; the
   Content-Length special case (equal values are not appended) is not part of this module (ResFraming / FramingFlags).
   Values are byte sequences; the row recorder (harness/fn_hdrrep.c) sends every tuple of value lengths of a bounded lattice in a real request and
   in a real response and prints what the header table holds.                                                                                  *)
EXTENDS Integers, Sequences, FiniteSets, TLC
COMMA == 44
SP == 32
MAXREP == 64
RECURSIVE Join(_, _)
\* the first value, then ", " + value for the 2nd .. (MAXREP + 2)-th occurrence: the counter of repetitions starts with the THIRD occurrence
\* (the second sets HTP_FIELD_REPEATED without counting), so 1 + 1 + 64 values are combined
Join(vals, n) == IF vals = <<>> THEN <<>>
                 ELSE IF n = 0 THEN Head(vals) \o Join(Tail(vals), 1)
                 ELSE IF n > MAXREP + 1 THEN <<>>
                 ELSE <<COMMA, SP>> \o Head(vals) \o Join(Tail(vals), n + 1)
Combined(vals) == Join(vals, 0)
\* meta-properties (HdrRepeatMC): nothing but separators is added, every combined value keeps its bytes, in order
Len2(vals) == IF vals = <<>> THEN 0 ELSE Len(Head(vals)) + (IF Len(vals) > 1 THEN 2 ELSE 0)
RECURSIVE SumLen(_)
SumLen(vals) == IF vals = <<>> THEN 0 ELSE Len(Head(vals)) + SumLen(Tail(vals))
LengthLaw(vals) == Len(vals) <= MAXREP + 2 => Len(Combined(vals)) = SumLen(vals) + 2 * (IF Len(vals) = 0 THEN 0 ELSE Len(vals) - 1)
=============================================================================
