---------------------------- MODULE ReqFieldsRows ----------------------------
(* Judges rows recorded from real requests (harness/fn_fields.c): the Cookie / Authorization header value as reported by the header
   table, tx->request_cookies in order, the credentials, the auth type, HTP_AUTH_INVALID and whether the request stream failed. *)
EXTENDS ReqFields, Json, IOUtils
Rows == ndJsonDeserialize(IOEnv.ROWS)
VARIABLE k
RInit == k \in 1..Len(Rows)
RNext == UNCHANGED k
RowOK == LET r == Rows[k] IN
         IF r.t = "cookie" THEN
            /\ ~r.err
            /\ r.cookies = Cookies(r.hv)
         ELSE LET e == Auth(r.hv) IN
            /\ r.err = e.fails
            /\ (~e.fails => /\ r.type = e.type /\ r.user = e.user /\ r.pass = e.pass /\ r.invalid = e.invalid)
ASSUME PrintT(<<"CENSUS", Len(Rows), Cardinality({<<Rows[i].t, Rows[i].hv>> : i \in 1..Len(Rows)})>>)
=============================================================================
