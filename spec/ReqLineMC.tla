------------------------------ MODULE ReqLineMC ------------------------------
(* Meta-properties of the ReqLine reference over every line up to MaxLen of the alphabet {G / H SP TAB NUL} x the option lattice. *)
EXTENDS ReqLine
CONSTANT MaxLen
VARIABLES l, opt
Alpha == {71, 47, 72, 32, 9, 0}
Init == l \in UNION {[1..n -> Alpha] : n \in 0..MaxLen} /\ opt \in [allow : BOOLEAN, nul : BOOLEAN, keep : BOOLEAN]
Next == UNCHANGED <<l, opt>>
Sane == Partition(l, opt.allow, opt.nul, opt.keep) /\ UriNoSpace(l)
\* known answers
ASSUME LET r == Parse(<<71, 69, 84, 32, 47, 97, 32, 72, 84, 84, 80, 47, 49, 46, 49>>, FALSE, FALSE, FALSE) IN
         r.method = <<71, 69, 84>> /\ r.uri = Some(<<47, 97>>) /\ r.protocol = Some(<<72, 84, 84, 80, 47, 49, 46, 49>>) /\ r.pnum = 101 /\ ~r.is09
ASSUME LET r == Parse(<<71, 69, 84, 32, 47, 97, 32, 98, 32, 72>>, TRUE, FALSE, FALSE) IN r.uri = Some(<<47, 97, 32, 98>>) /\ r.protocol = Some(<<72>>)
ASSUME LET r == Parse(<<71, 69, 84, 32, 47, 97, 32, 98, 32, 72>>, FALSE, FALSE, FALSE) IN r.uri = Some(<<47, 97>>) /\ r.protocol = Some(<<98, 32, 72>>)
ASSUME LET r == Parse(<<71, 69, 84, 9, 47, 97, 9, 72>>, FALSE, FALSE, FALSE) IN r.uri = Some(<<47, 97>>) /\ r.protocol = Some(<<72>>)
ASSUME LET r == Parse(<<71, 69, 84>>, FALSE, FALSE, FALSE) IN r.uri = None /\ r.is09 /\ r.pnum = 9
ASSUME LET r == Parse(<<32, 71, 32, 47>>, FALSE, FALSE, TRUE) IN r.method = <<32, 71>> /\ r.uri = Some(<<47>>) /\ r.is09
=============================================================================
