----------------------------- MODULE PathNormMC -----------------------------
(* Meta-properties of the reference PathNorm itself, checked by TLC: dot-segment removal never lengthens, leaves no '.' / '..'
   segment, is idempotent (all strings over {/ . a} up to MaxDots); the whole pipeline never lengthens and leaves no dot segment
   for every atom sequence up to MaxAtoms under a strict and a permissive configuration. *)
EXTENDS PathNorm
CONSTANTS MaxDots, MaxAtoms
VARIABLES kind, s
RECURSIVE SeqsUpTo(_, _)
SeqsUpTo(A, n) == IF n = 0 THEN {<<>>} ELSE LET S == SeqsUpTo(A, n - 1) IN S \cup {Append(x, a) : x \in {y \in S : Len(y) = n - 1}, a \in A}
Atoms == {<<47>>, <<46>>, <<97>>, <<92>>, <<37>>, <<37, 50, 102>>, <<37, 53, 99>>, <<37, 50, 101>>, <<37, 48, 48>>, <<37, 122, 122>>, <<37, 50>>,
          <<37, 117, 48, 48, 50, 102>>, <<37, 117, 102, 102, 48, 102>>, <<0>>, <<195, 169>>, <<192, 175>>, <<128>>}
RECURSIVE Flat(_)
Flat(ss) == IF ss = <<>> THEN <<>> ELSE ss[1] \o Flat(Tail(ss))
Strict == [udec |-> FALSE, inv |-> "preserve", nulenc_term |-> FALSE, nulraw_term |-> FALSE, bsconv |-> FALSE, sepdec |-> FALSE, sepcomp |-> FALSE, lower |-> FALSE, bestfit |-> FALSE, repl |-> 63]
Loose == [udec |-> TRUE, inv |-> "process", nulenc_term |-> FALSE, nulraw_term |-> FALSE, bsconv |-> TRUE, sepdec |-> TRUE, sepcomp |-> TRUE, lower |-> TRUE, bestfit |-> TRUE, repl |-> 63]
Init == \/ kind = "dots" /\ s \in SeqsUpTo({47, 46, 97}, MaxDots)
        \/ kind \in {"strict", "loose"} /\ s \in {Flat(x) : x \in SeqsUpTo(Atoms, MaxAtoms)}
Next == UNCHANGED <<kind, s>>
DotsOK == kind = "dots" => LET r == RemoveDotSegments(s) IN Len(r) <= Len(s) /\ NoDotSegment(r) /\ RemoveDotSegments(r) = r
PipelineOK == kind # "dots" => LET r == Normalise(IF kind = "strict" THEN Strict ELSE Loose, s) IN Len(r.path) <= Len(s) /\ NoDotSegment(r.path)
=============================================================================
