INIT Init
NEXT Next
INVARIANTS Bounded NoGrowth Pumped
CHECK_DEADLOCK FALSE
