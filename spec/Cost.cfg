INIT Init
NEXT Next
INVARIANTS Bounded NoGrowth LinearTotal Pumped
CHECK_DEADLOCK FALSE
