---------------------------- MODULE HtpParser ----------------------------
(* Code-shaped model of libhtp's connection parser: htp_connp_req_data / htp_connp_res_data / htp_connp_close,
   the 24 state functions of htp_request.c / htp_response.c and the transaction-state functions of
   htp_transaction.c.  Bytes are abstracted away: every state-function invocation picks one of the branches the C
   function has (a nondeterministic OUTCOME that says how many units it consumed and which micro-program - the
   straight-line effect of that branch - runs).  One record variable P holds every parser field; micro-programs are
   executed up to the next callback in one step.  The model emits the same PUBLIC events as the recorder
   (harness/rec.c) and feeds them to the observers of HtpObs.tla, so TLC checks the observer clauses on every
   reachable state of the bounded model.  Two modes:
     TraceMode = FALSE : model checking; consumption ranges over 0..avail (avail <= MaxAvail abstract units)
     TraceMode = TRUE  : trace validation (drift detection); consumption is read from the SE record ahead
   and, orthogonally, MaxCalls < 0 : liveness mode for HtpDriver.tla (no call counter, observers off).
   Map of the module: events for the observers; micro-ops (Cb, Cbs = zero or more callbacks of a decompressor, Set / SetTx, Fin = finalize,
   RecvFin = finalize a raw data receiver, Yield, Use = consumption that follows the body callbacks, Tp = trace point, Ret, EndCall);
   ReqOutcomes / ResOutcomes (one disjunct per branch of each state function); Run (micro-programs up to the next stop); the actions
   DataEnter / CloseMark / CloseEnter / StepBegin / CbStep / CbsDone / RetStep / EndCallStep; the trace binding T* and TSpec; views and
   invariants.  Deliberate heuristics and repaired defects are named where they occur (FixD4, the 407 branch, sticky STOP / ERROR, the
   interim 100 branch, hard-limit failure at DATA_BUFFER and at consolidation, request decompression in trace mode only).                                       *)
EXTENDS Integers, Sequences, FiniteSets, TLC, Json, IOUtils

CONSTANTS MaxTx, MaxCalls, MaxAvail, AutoDestroy, CbFail, FixD4, TraceMode,
          Gaps,          \* model checking: may a data call announce a stream gap (data = NULL, len > 0)?
          Known          \* set of <<clause, site>> pairs excused as known findings (generated from known_findings.txt)

VARIABLES P, prog, cur, avail, calls, obs, l
vars == <<P, prog, cur, avail, calls, obs, l>>

Ob == INSTANCE HtpObs
\* MaxCalls < 0 is the liveness mode used by HtpDriver.tla: calls are not counted and the observers (whose history fields grow with every
\* event) are switched off, so that the state space is finite without a bound on the length of behaviours
LiveMode == MaxCalls < 0
OStep(o, ev) == IF LiveMode THEN o ELSE Ob!ObsStep(o, ev)
TraceLog == IF TraceMode THEN ndJsonDeserialize(IOEnv.TRACE) ELSE <<>>
RECURSIVE NextSE(_)
NextSE(k) == IF k > Len(TraceLog) THEN 0 ELSE IF TraceLog[k].e = "SE" THEN k ELSE NextSE(k + 1)
UseNow == IF NextSE(l) = 0 THEN 0 ELSE TraceLog[NextSE(l)].use
\* consumption choices between lo and hi (inclusive)
U(lo, hi) == IF TraceMode THEN {u \in {UseNow} : lo <= u /\ u <= hi}
             ELSE (IF lo < 0 THEN 0 ELSE lo)..hi
\* deferred consumption (body states): when the step ahead consumed nothing (a body callback failed) the amount is not recorded; any
\* positive amount will do because the failing callback cuts the micro-program before Use is reached
UB(lo, hi) == IF TraceMode /\ UseNow = 0 THEN {hi} ELSE U(lo, hi)
NEG == 0 - 1000000

NOTSTARTED == 0  LINE == 1  HEADERS == 2  BODY == 3  TRAILER == 4  COMPLETE == 5

Methods == {"GET", "HEAD", "CONNECT"}
ReqCodings == {"nobody", "ident0", "ident", "chunked", "invalid"}
Statuses == {"100", "101", "2xx", "407", "4xx"}

NewPTx == [rp |-> NOTSTARTED, sp |-> NOTSTARTED, m |-> "UNK", p09 |-> FALSE, rc |-> "unk",
          st |-> "none", sc |-> "unk", dec |-> "unk", qdec |-> "none", live |-> TRUE, c100 |-> 0, qfin |-> FALSE]

InitP == [in_state |-> "REQ_IDLE", out_state |-> "RES_IDLE", in_status |-> "OPEN", out_status |-> "OPEN",
          txs |-> <<>>, in_tx |-> 0, out_tx |-> 0, onti |-> 0, odoate |-> FALSE,
          in_recv |-> "none", out_recv |-> "none", in_buf |-> FALSE, out_buf |-> FALSE,
          in_prev |-> "REQ_IDLE", out_prev |-> "RES_IDLE",
          pipelined |-> FALSE, lastq |-> "none", lasts |-> "none", cl |-> 0, used |-> 0, pend |-> 0, gap |-> FALSE]

TxLive(p, i) == i > 0 /\ i <= Len(p.txs) /\ p.txs[i].live
IsComplete(p, i) == p.txs[i].rp = COMPLETE /\ p.txs[i].sp = COMPLETE

(* ---------------- events for the observers ---------------- *)
EvName(n) == CASE n \in {"request_body_end", "request_body_junk", "request_body_gap"} -> "request_body_data"
               [] n \in {"response_body_end", "response_body_junk", "response_body_gap"} -> "response_body_data"
               [] OTHER -> n
IsEndName(n) == n \in {"request_body_end", "response_body_end"}
\* a stream gap inside an identity body reaches the body callbacks as NULL data with the length of the gap
IsGapName(n) == n \in {"request_body_gap", "response_body_gap"}
CbEv(p, n, i, res) ==
  [e |-> "Cb", n |-> EvName(n), tx |-> i - 1, rp |-> p.txs[i].rp, sp |-> p.txs[i].sp, len |-> IF IsEndName(n) THEN 0 ELSE 1,
   nul |-> IsEndName(n) \/ IsGapName(n), ret |-> res, act |-> "none", c100 |-> p.txs[i].c100,
   mn |-> IF p.txs[i].m = "CONNECT" THEN 6 ELSE 2, st |-> 0, m |-> TRUE,
   uri |-> <<>>, xid |-> <<>>, el |-> 0, ml |-> 0, dl |-> -1, tc |-> 0, ce |-> 0, wl |-> -1, xl |-> -1]
TpEv(id, i) == [e |-> "TP", id |-> id, tx |-> i - 1]
CallEv(d, k, n) == [e |-> "Call", d |-> d, k |-> k, len |-> n, off |-> 0]
RetEv(p, d, rc, consumed) ==
  [e |-> "Ret", d |-> d, rc |-> rc, consumed |-> consumed, ist |-> p.in_status, ost |-> p.out_status, ntx |-> Len(p.txs),
   onti |-> p.onti, in_tx |-> p.in_tx - 1, out_tx |-> p.out_tx - 1, ibuf |-> 0, ihdr |-> 0, obuf |-> 0, ohdr |-> 0, inc |-> 0, outc |-> 0, live |-> 0, liveb |-> 0]
ObsInitM == [Ob!ObsInit EXCEPT !.counters_known = FALSE, !.cfg.autod = AutoDestroy, !.cfg.maxtx = 0]
ObsCb(o, p, n, i) == OStep(o, CbEv(p, n, i, "OK"))
ObsCbR(o, p, n, i, res) == OStep(o, CbEv(p, n, i, res))

(* ---------------- micro-ops ---------------- *)
Cb(n, i, f)   == [op |-> "cb", n |-> n, tx |-> i, f |-> f]        \* f \in {"prop","err","ign"}
Cbs(n, i, f)  == [op |-> "cbs", n |-> n, tx |-> i, f |-> f, k |-> 0]  \* zero or more callbacks (decompressor)
\* values of different types travel in differently named fields, so that TLC never has to compare a boolean with a string when it
\* normalises a set of outcomes
BoolFld == {"in_buf", "out_buf", "odoate", "p09", "qfin"}
IntFld == {"in_tx", "out_tx", "onti", "rp", "sp"}
Set(fld, v)   == IF fld \in BoolFld THEN [op |-> "set", fld |-> fld, b |-> v]
                 ELSE IF fld \in IntFld THEN [op |-> "set", fld |-> fld, n |-> v] ELSE [op |-> "set", fld |-> fld, v |-> v]
SetTx(i, fld, v) == IF fld \in BoolFld THEN [op |-> "txf", tx |-> i, fld |-> fld, b |-> v]
                    ELSE IF fld \in IntFld THEN [op |-> "txf", tx |-> i, fld |-> fld, n |-> v] ELSE [op |-> "txf", tx |-> i, fld |-> fld, v |-> v]
ValOf(op) == IF op.fld \in BoolFld THEN op.b ELSE IF op.fld \in IntFld THEN op.n ELSE op.v
Fin(i, f)     == [op |-> "fin", tx |-> i, f |-> f]
RecvFin(d)    == [op |-> "recvfin", d |-> d]                       \* htp_connp_*_receiver_finalize_clear
Yield         == [op |-> "yield"]
Seen100(i)    == [op |-> "seen100", tx |-> i]
Ret(r)        == [op |-> "ret", v |-> r]
Tp(id, i)     == [op |-> "tp", id |-> id, tx |-> i]
EndCall(st, setst) == [op |-> "endcall", v |-> st, setst |-> setst]
\* body states advance the read offset only AFTER the body callbacks succeeded (htp_request.c / htp_response.c: "if (rc != HTP_OK) return rc;"
\* precedes "read_offset += bytes_to_consume"): the consumption of such an outcome is a micro-op behind the callbacks
Use(u)        == [op |-> "use", u |-> u]

SetIn(s) == Set("in_state", s)   SetOut(s) == Set("out_state", s)
SetIst(s) == Set("in_status", s) SetOst(s) == Set("out_status", s)
SetRp(i, v) == SetTx(i, "rp", v) SetSp(i, v) == SetTx(i, "sp", v)

HasReqBody(p, i) == p.txs[i].rc \in {"ident0", "ident", "chunked"}
\* request body data through htp_tx_req_process_body_data_ex: plain -> one callback whose failure is ERROR; with a request decompressor
\* (htp_config_set_request_decompression, off by default: explored in trace mode only) -> zero or more callbacks whose failures are swallowed
ReqDecompPossible == TraceMode
\* under a gap the decompressor takes the NULL data for the end of the stream (htp_gzip_decompressor_decompress: "d->data == NULL"): it
\* flushes, passes the end marker on and is destroyed (htp_tx_re[qs]_process_body_data_ex: "if (data == NULL)"); body data after the gap then
\* finds no decompressor and fails
ReqBody(p, i, n) == CASE p.txs[i].qdec = "active" -> IF p.gap THEN <<Cbs("request_body_data", i, "ign"), Cbs("request_body_end", i, "ign"), SetTx(i, "qdec", "gone")>>
                                                      ELSE <<Cbs(n, i, "ign")>>
                      [] p.txs[i].qdec = "gone" -> <<Ret("ERROR")>>
                      \* a body processor of the transaction (urlencoded, multipart) takes NULL data for the end as well: qfin, see SilentRefusal
                      [] OTHER -> IF p.gap THEN <<Cb("request_body_gap", i, "err"), SetTx(i, "qfin", TRUE)>> ELSE <<Cb(n, i, "err")>>
ReqBodyEnd(p, i) == CASE p.txs[i].qdec = "active" -> <<Cbs("request_body_data", i, "ign"), Cbs("request_body_end", i, "ign"), SetTx(i, "qdec", "gone")>>
                      [] p.txs[i].qdec = "gone" -> <<Ret("ERROR")>>
                      [] OTHER -> <<Cb("request_body_end", i, "err")>>

\* body data through htp_tx_res_process_body_data_ex: plain -> one callback whose failure is ERROR;
\* with a decompressor -> zero or more callbacks whose failures are swallowed
ResBody(p, i) == CASE p.txs[i].dec = "active" -> IF p.gap THEN <<Cbs("response_body_data", i, "ign"), Cbs("response_body_end", i, "ign"), SetTx(i, "dec", "gone")>>
                                                  ELSE <<Cbs("response_body_data", i, "ign")>>
                   [] p.txs[i].dec \in {"gone", "unk"} -> <<Ret("ERROR")>>   \* out_decompressor == NULL / processing UNKNOWN
                   [] OTHER -> <<Cb(IF p.gap THEN "response_body_gap" ELSE "response_body_data", i, "err")>>
\* the NULL call: flushes and destroys the decompressor, or delivers the marker
ResBodyEnd(p, i, f) == CASE p.txs[i].dec = "active" -> <<Cbs("response_body_data", i, "ign"), Cbs("response_body_end", i, "ign"), SetTx(i, "dec", "gone")>>
                         [] p.txs[i].dec \in {"gone", "unk"} -> IF f = "ign" THEN <<>> ELSE <<Ret("ERROR")>>
                         [] OTHER -> <<Cb("response_body_end", i, f)>>
\* the end-of-body call that follows body data within the same state function: a gap has just cost the decompressor its life
ResBodyEndAfter(p, i, f) == IF p.gap /\ p.txs[i].dec = "active" THEN <<Ret("ERROR")>> ELSE ResBodyEnd(p, i, f)

\* htp_tx_state_request_complete(tx)
ReqCompleteProg(p, i) ==
  <<Tp("req_completing", i)>> \o
  (IF p.txs[i].rp # COMPLETE THEN
     (IF HasReqBody(p, i) THEN ReqBodyEnd(p, i) ELSE <<>>)
     \o <<SetRp(i, COMPLETE), Cb("request_complete", i, "prop"), RecvFin("q")>>
   ELSE <<>>)
  \o <<SetIn(IF p.txs[i].p09 THEN "REQ_IGNORE_DATA_AFTER_HTTP_0_9" ELSE "REQ_IDLE"), Fin(i, "ign"), Set("in_tx", 0)>>

\* a sub-program whose failure the caller ignores (RES_IDLE completing a dangling request: the return value of
\* htp_tx_state_request_complete is dropped): a failing callback or an ERROR inside it only ends the sub-program
Guard(pr) == [j \in 1..Len(pr) |->
               IF pr[j].op = "cb" THEN [op |-> "cb", n |-> pr[j].n, tx |-> pr[j].tx, f |-> "skip", skip |-> Len(pr) - j]
               ELSE IF pr[j].op = "cbs" THEN [op |-> "cbs", n |-> pr[j].n, tx |-> pr[j].tx, f |-> "skip", k |-> 0, skip |-> Len(pr) - j]
               ELSE IF pr[j].op = "ret" THEN [op |-> "jump", n |-> Len(pr) - j]
               ELSE pr[j]]
\* htp_tx_state_response_complete_ex(tx, 0)
ResCompleteProg(p, i) ==
  (IF p.txs[i].sp # COMPLETE THEN
     <<Tp("res_completing", i), SetSp(i, COMPLETE)>>
     \o (IF p.txs[i].sc # "nobody" THEN ResBodyEnd(p, i, "ign") ELSE <<>>)
     \o <<Cb("response_complete", i, "prop"), RecvFin("s")>>
   ELSE <<>>)
  \o <<Yield, Fin(i, "prop"), Set("out_tx", 0), SetOut("RES_IDLE")>>

\* htp_tx_state_response_headers(tx)
\* the processing mode is decided before the hook runs, the decompressor is created after it: a failing RESPONSE_HEADERS callback leaves
\* "compressed, but no decompressor" (body data -> ERROR) or plain processing
ResHeadersProg(i, dec) == <<SetTx(i, "dec", IF dec = "active" THEN "gone" ELSE "none"), RecvFin("s"), Cb("response_headers", i, "prop"), SetTx(i, "dec", dec)>>

(* ---------------- outcomes ---------------- *)
O(u, p) == [use |-> u, prog |-> p]

ReqOutcomes(p) ==
  LET i == p.in_tx
      closed == p.in_status = "CLOSED" IN
  CASE p.in_state = "REQ_IDLE" ->
         IF avail = 0 THEN {O(0, <<Ret("DATA")>>)} ELSE {O(0, <<[op |-> "newtx_req"]>>)}
    [] p.in_state = "REQ_LINE" ->
         LET lineok == {O(u, <<Set("in_buf", FALSE), SetTx(i, "m", m), SetTx(i, "p09", FALSE), Cb("request_uri_normalize", i, "err"),
                               Cb("request_line", i, "err"), SetIn("REQ_PROTOCOL"), Ret("OK")>>) : u \in U(IF closed THEN 0 ELSE 1, avail), m \in Methods}
                       \cup {O(u, <<Set("in_buf", FALSE), SetTx(i, "m", "GET"), SetTx(i, "p09", TRUE), Cb("request_uri_normalize", i, "err"),
                               Cb("request_line", i, "err"), SetIn("REQ_PROTOCOL"), Ret("OK")>>) : u \in U(IF closed THEN 0 ELSE 1, avail)}
             ignorable == {O(u, <<Set("in_buf", FALSE), Ret("OK")>>) : u \in U(IF closed THEN 0 ELSE 1, avail)}
             perr == {O(u, <<Ret("ERROR")>>) : u \in U(IF closed THEN 0 ELSE 1, avail)}
         IN
         IF closed /\ avail = 0 /\ ~p.in_buf THEN {O(0, <<Ret("DATA")>>)}
         ELSE IF closed /\ avail = 0 THEN lineok \cup ignorable \cup perr
         ELSE {O(avail, <<Set("in_buf", p.in_buf \/ avail > 0), Ret("DATA_BUFFER")>>)} \cup lineok \cup ignorable \cup perr
    [] p.in_state = "REQ_PROTOCOL" ->
         IF ~p.txs[i].p09 THEN {O(0, <<SetIn("REQ_HEADERS"), SetRp(i, HEADERS), Ret("OK")>>)}
         ELSE {O(0, <<SetTx(i, "p09", FALSE), SetIn("REQ_HEADERS"), SetRp(i, HEADERS), Ret("OK")>>),
               O(0, <<SetIn("REQ_FINALIZE"), Ret("OK")>>)}
    [] p.in_state = "REQ_HEADERS" ->
         IF closed THEN
            {O(0, <<Set("in_buf", FALSE), Tp("req_headers_closed", i), SetRp(i, TRAILER), RecvFin("q"), Cb("request_trailer", i, "prop"), SetIn("REQ_FINALIZE"), Ret("OK")>>),
             O(0, <<Ret("ERROR")>>)}
         ELSE {O(avail, <<Set("in_buf", p.in_buf \/ avail > 0), Ret("DATA_BUFFER")>>)}
              \cup {O(u, <<Ret("ERROR")>>) : u \in U(1, avail)}
              \cup (IF p.txs[i].rp = HEADERS
                    THEN {O(u, <<Set("in_buf", FALSE), SetTx(i, "rc", c), SetTx(i, "qdec", qd), RecvFin("q"), Cb("request_headers", i, "prop"),
                                 SetIn("REQ_CONNECT_CHECK"), Ret("OK")>>) : u \in U(1, avail), c \in ReqCodings,
                                                                           qd \in (IF ReqDecompPossible THEN {"none", "active"} ELSE {"none"})}
                    ELSE {O(u, <<Set("in_buf", FALSE), RecvFin("q"), Cb("request_trailer", i, "prop"), SetIn("REQ_FINALIZE"), Ret("OK")>>) : u \in U(1, avail)})    \* raw data first, as on the response side (since the D5 fix)
    [] p.in_state = "REQ_CONNECT_CHECK" ->
         IF p.txs[i].m = "CONNECT"
         THEN {O(0, <<SetIn("REQ_CONNECT_WAIT_RESPONSE"), SetIst("DATA_OTHER"), Ret("DATA_OTHER")>>)}
         ELSE {O(0, <<SetIn("REQ_BODY_DETERMINE"), Ret("OK")>>)}
    [] p.in_state = "REQ_CONNECT_WAIT_RESPONSE" ->
         IF p.txs[i].sp <= LINE THEN {O(0, <<Ret("DATA_OTHER")>>)}
         ELSE IF p.txs[i].st = "2xx" THEN {O(0, <<SetIn("REQ_CONNECT_PROBE_DATA"), Ret("OK")>>)}
         ELSE {O(0, <<SetIn("REQ_FINALIZE"), Ret("OK")>>)}
    [] p.in_state = "REQ_CONNECT_PROBE_DATA" ->
         {O(avail, <<Set("in_buf", p.in_buf \/ avail > 0), Ret("DATA_BUFFER")>>)}
         \cup {O(u, ReqCompleteProg(p, i) \o <<Ret("OK")>>) : u \in U(0, avail)}
         \cup {O(u, <<SetIst("TUNNEL")>> \o (IF p.out_status \notin {"ERROR", "STOP"} THEN <<SetOst("TUNNEL")>> ELSE <<>>) \o <<Ret("OK")>>) : u \in U(0, avail)}   \* ERROR/STOP kept since fix 8c453f4
    [] p.in_state = "REQ_BODY_DETERMINE" ->
         CASE p.txs[i].rc = "chunked" -> {O(0, <<SetIn("REQ_BODY_CHUNKED_LENGTH"), SetRp(i, BODY), Ret("OK")>>)}
           [] p.txs[i].rc = "ident" -> {O(0, <<SetIn("REQ_BODY_IDENTITY"), SetRp(i, BODY), Ret("OK")>>)}
           [] p.txs[i].rc \in {"ident0", "nobody"} -> {O(0, <<SetIn("REQ_FINALIZE"), Ret("OK")>>)}
           [] OTHER -> {O(0, <<Ret("ERROR")>>)}
    [] p.in_state = "REQ_BODY_IDENTITY" ->
         IF avail = 0 THEN {O(0, <<Ret("DATA")>>)}
         ELSE {O(0, ReqBody(p, i, "request_body_data") \o <<Use(avail), Ret("DATA")>>)}
              \cup {O(0, ReqBody(p, i, "request_body_data") \o <<Use(u), SetIn("REQ_FINALIZE"), Ret("OK")>>) : u \in UB(1, avail)}
    [] p.in_state = "REQ_BODY_CHUNKED_LENGTH" ->
         {O(avail, <<Set("in_buf", p.in_buf \/ avail > 0), Ret("DATA_BUFFER")>>)}
         \cup {O(u, <<Set("in_buf", FALSE), SetIn("REQ_BODY_CHUNKED_DATA"), Ret("OK")>>) : u \in U(1, avail)}
         \cup {O(u, <<Set("in_buf", FALSE), SetIn("REQ_HEADERS"), SetRp(i, TRAILER), Ret("OK")>>) : u \in U(1, avail)}
         \cup {O(u, <<Ret("ERROR")>>) : u \in U(1, avail)}
    [] p.in_state = "REQ_BODY_CHUNKED_DATA" ->
         IF avail = 0 THEN {O(0, <<Ret("DATA")>>)}
         ELSE {O(0, ReqBody(p, i, "request_body_data") \o <<Use(avail), Ret("DATA")>>)}
              \cup {O(0, ReqBody(p, i, "request_body_data") \o <<Use(u), SetIn("REQ_BODY_CHUNKED_DATA_END"), Ret("OK")>>) : u \in UB(1, avail)}
    [] p.in_state = "REQ_BODY_CHUNKED_DATA_END" ->
         {O(avail, <<Ret("DATA")>>)} \cup {O(u, <<SetIn("REQ_BODY_CHUNKED_LENGTH"), Ret("OK")>>) : u \in U(1, avail)}
    [] p.in_state = "REQ_FINALIZE" ->
         IF avail = 0 /\ ~(closed /\ p.in_buf) THEN {O(0, ReqCompleteProg(p, i) \o <<Ret("OK")>>)}
         ELSE (IF closed THEN {} ELSE {O(avail, <<Set("in_buf", p.in_buf \/ avail > 0), Ret("DATA_BUFFER")>>)})
              \cup {O(u, <<Set("in_buf", FALSE)>> \o ReqCompleteProg(p, i) \o <<Ret("OK")>>) : u \in U(0, avail)}   \* empty / method-looking line (peeked)
              \cup {O(u, <<Set("in_buf", FALSE), Tp("req_finalize_body", i)>> \o ReqBody(p, i, "request_body_junk") \o <<Ret("OK")>>) : u \in U(IF closed THEN 0 ELSE 1, avail)}  \* junk as body: the line end is consumed
    [] p.in_state = "REQ_IGNORE_DATA_AFTER_HTTP_0_9" -> {O(avail, <<Ret("DATA")>>)}
    [] OTHER -> {}

ResOutcomes(p) ==
  LET i == p.out_tx
      closed == p.out_status = "CLOSED" IN
  CASE p.out_state = "RES_IDLE" ->
         IF avail = 0 THEN {O(0, <<Ret("DATA")>>)} ELSE {O(0, <<[op |-> "picktx_res"]>>)}
    [] p.out_state = "RES_LINE" ->
         LET lo == IF closed THEN 0 ELSE 1
             ignorable == {O(u, <<Set("out_buf", FALSE)>> \o (IF closed THEN <<SetOut("RES_FINALIZE")>> ELSE <<>>) \o <<Ret("OK")>>) : u \in U(lo, avail)}
             skipline == {O(u, <<Set("out_buf", FALSE), Ret("OK")>>) : u \in U(lo, avail - 1)}          \* line-as-body but next starts with H / len<=2
             asbody_more == {O(u, <<Set("out_buf", FALSE), Tp("res_line_as_body", i), SetTx(i, "dec", "none"), Cb("response_body_junk", i, "err"), Ret("OK")>>) : u \in U(lo, avail - 1)}
             asbody_last == {O(avail, <<Set("out_buf", FALSE), Tp("res_line_as_body", i), SetTx(i, "dec", "none"), Cb(IF closed /\ ~p.out_buf THEN "response_body_end" ELSE "response_body_data", i, "err"),
                                        SetTx(i, "sc", "ident"), SetSp(i, BODY), SetOut("RES_FINALIZE"), Ret("OK")>>)}
             lineok == {O(u, <<Set("out_buf", FALSE), SetTx(i, "st", s), Cb("response_line", i, "prop"), SetOut("RES_HEADERS"),
                               SetSp(i, HEADERS), Ret("OK")>>) : u \in U(lo, avail), s \in Statuses}
             perr == {O(u, <<Ret("ERROR")>>) : u \in U(lo, avail)}
         IN
         (IF closed THEN {} ELSE {O(avail, <<Set("out_buf", p.out_buf \/ avail > 0), Ret("DATA_BUFFER")>>)})
         \cup ignorable \cup skipline \cup asbody_more \cup asbody_last \cup lineok \cup perr
    [] p.out_state = "RES_HEADERS" ->
         IF closed THEN {O(0, <<RecvFin("s"), Cb("response_trailer", i, "prop"), SetOut("RES_FINALIZE"), Ret("OK")>>)}
         ELSE {O(avail, <<Set("out_buf", p.out_buf \/ avail > 0), Ret("DATA_BUFFER")>>)}
              \cup {O(u, <<Ret("ERROR")>>) : u \in U(1, avail)}
              \cup (IF p.txs[i].sp = HEADERS
                    THEN {O(u, <<Set("out_buf", FALSE), SetOut("RES_BODY_DETERMINE"), Ret("OK")>>) : u \in U(1, avail)}
                    ELSE {O(u, <<Set("out_buf", FALSE), RecvFin("s"), Cb("response_trailer", i, "prop"), SetOut("RES_FINALIZE"), Ret("OK")>>) : u \in U(1, avail)})
    [] p.out_state = "RES_BODY_DETERMINE" ->
         LET unblock == IF p.in_status \notin {"ERROR", "STOP"} THEN <<SetIst("DATA")>> ELSE <<>>   \* STOP kept sticky since fix d96bd29
             rewind == {<<>>} \cup (IF p.txs[i].st = "4xx" /\ p.in_state = "REQ_BODY_IDENTITY" THEN {<<SetIn("REQ_FINALIZE")>>} ELSE {})
             normal(pre) ==
               (IF p.txs[i].m = "HEAD" \/ p.txs[i].st \in {"100", "101"}
                THEN {pre \o <<SetTx(i, "sc", "nobody"), SetOut("RES_FINALIZE")>> \o ResHeadersProg(i, "none") \o <<Ret("OK")>>}
                ELSE {})
               \cup (IF p.txs[i].m # "HEAD" THEN
                      UNION {{pre \o rw \o <<SetTx(i, "sc", "chunked"), SetOut("RES_BODY_CHUNKED_LENGTH"), SetSp(i, BODY)>> \o ResHeadersProg(i, d) \o <<Ret("OK")>>,
                              pre \o rw \o <<SetTx(i, "sc", "ident"), SetOut("RES_BODY_IDENTITY_CL_KNOWN"), SetSp(i, BODY)>> \o ResHeadersProg(i, d) \o <<Ret("OK")>>,
                              pre \o rw \o <<SetTx(i, "sc", "ident"), SetOut("RES_FINALIZE")>> \o ResHeadersProg(i, d) \o <<Ret("OK")>>,
                              pre \o rw \o <<SetTx(i, "sc", "ident"), SetOut("RES_BODY_IDENTITY_STREAM_CLOSE"), SetSp(i, BODY)>> \o ResHeadersProg(i, d) \o <<Ret("OK")>>,
                              pre \o rw \o <<Ret("ERROR")>>} : d \in {"none", "active"}, rw \in rewind}
                     ELSE {})
         IN
         IF p.txs[i].m = "CONNECT" /\ p.txs[i].st = "2xx"
           THEN {O(0, <<SetOut("RES_FINALIZE")>> \o ResHeadersProg(i, "none") \o <<Ret("OK")>>)}
         ELSE IF p.txs[i].st = "101"
           THEN {O(0, <<SetOut("RES_FINALIZE")>> \o (IF p.in_status \notin {"ERROR", "STOP"} THEN <<SetIst("TUNNEL")>> ELSE <<>>)
                        \o <<SetOst("TUNNEL")>> \o ResHeadersProg(i, "none") \o <<Ret("OK")>>)}
                \cup {O(0, q) : q \in normal(<<>>)}
         ELSE IF p.txs[i].st = "100"
           THEN {O(0, <<RecvFin("s"), Tp("res_100_continue", i), SetOut("RES_LINE"), SetSp(i, LINE), Seen100(i), Ret("OK")>>)}   \* receiver finalised since the D21 fix
                \cup {O(0, q) : q \in normal(<<>>)}
         ELSE IF p.txs[i].m = "CONNECT" /\ p.txs[i].st = "407"
           THEN {O(0, q) : q \in normal(unblock \o <<Set("odoate", TRUE)>>)}      \* since the D24 fix a 407 stops at the end of the transaction like any refused CONNECT
         ELSE IF p.txs[i].m = "CONNECT"
           THEN {O(0, q) : q \in normal(unblock \o <<Set("odoate", TRUE)>>)}
         ELSE {O(0, q) : q \in normal(<<>>)}
    [] p.out_state = "RES_BODY_IDENTITY_CL_KNOWN" ->
         IF closed THEN {O(0, <<SetOut("RES_FINALIZE")>> \o ResBodyEnd(p, i, "err") \o <<Ret("OK")>>)}
         ELSE IF avail = 0 THEN {O(0, <<Ret("DATA")>>)}
         ELSE {O(0, ResBody(p, i) \o <<Use(avail), Ret("DATA")>>)}
              \cup {O(0, ResBody(p, i) \o <<Use(u), SetOut("RES_FINALIZE")>> \o ResBodyEndAfter(p, i, "err") \o <<Ret("OK")>>) : u \in UB(1, avail)}
    [] p.out_state = "RES_BODY_IDENTITY_STREAM_CLOSE" ->
         IF closed THEN {O(0, (IF avail > 0 THEN ResBody(p, i) \o <<Use(avail)>> ELSE <<>>) \o <<SetOut("RES_FINALIZE"), Ret("OK")>>)}
         ELSE IF avail = 0 THEN {O(0, <<Ret("DATA")>>)}
         ELSE {O(0, ResBody(p, i) \o <<Use(avail), Ret("DATA")>>)}
    [] p.out_state = "RES_BODY_CHUNKED_LENGTH" ->
         {O(avail, <<Set("out_buf", p.out_buf \/ avail > 0), Ret("DATA_BUFFER")>>)}
         \cup {O(u, <<Set("out_buf", FALSE), SetOut("RES_BODY_CHUNKED_DATA"), Ret("OK")>>) : u \in U(1, avail)}
         \cup {O(u, <<Set("out_buf", FALSE), SetOut("RES_HEADERS"), SetSp(i, TRAILER), Ret("OK")>>) : u \in U(1, avail)}
         \* an empty line in front of the chunk length is skipped and releases the line buffer: nothing may be left buffered
         \cup (IF avail > 0 THEN {O(avail, <<Set("out_buf", FALSE), Ret("DATA_BUFFER")>>)} ELSE {})
         \* not a chunk length: identity up to the close.  With nothing buffered the line is unread and the identity state takes it;
         \* a line assembled in the buffer (also an empty buffer object left by a DATA_BUFFER return without bytes, which the
         \* boolean does not show) is handed over as body data here and the buffer released (repair D36)
         \cup (IF p.out_buf THEN {} ELSE {O(u, <<SetOut("RES_BODY_IDENTITY_STREAM_CLOSE"), SetTx(i, "sc", "ident"), Ret("OK")>>) : u \in U(NEG, avail)})
         \cup {O(u, <<Set("out_buf", FALSE), SetOut("RES_BODY_IDENTITY_STREAM_CLOSE"), SetTx(i, "sc", "ident")>> \o ResBody(p, i) \o <<Ret("OK")>>) : u \in U(1, avail)}
    [] p.out_state = "RES_BODY_CHUNKED_DATA" ->
         IF avail = 0 THEN {O(0, <<Ret("DATA")>>)}
         ELSE {O(0, ResBody(p, i) \o <<Use(avail), Ret("DATA")>>)}
              \cup {O(0, ResBody(p, i) \o <<Use(u), SetOut("RES_BODY_CHUNKED_DATA_END"), Ret("OK")>>) : u \in UB(1, avail)}
    [] p.out_state = "RES_BODY_CHUNKED_DATA_END" ->
         {O(avail, <<Ret("DATA")>>)} \cup {O(u, <<SetOut("RES_BODY_CHUNKED_LENGTH"), Ret("OK")>>) : u \in U(1, avail)}
    [] p.out_state = "RES_FINALIZE" ->
         IF avail = 0 /\ ~(closed /\ p.out_buf) THEN {O(0, ResCompleteProg(p, i) \o <<Ret("OK")>>)}
         ELSE (IF closed THEN {} ELSE {O(avail, <<Set("out_buf", p.out_buf \/ avail > 0), Ret("DATA_BUFFER")>>)})
              \cup {O(u, <<Set("out_buf", FALSE)>> \o ResCompleteProg(p, i) \o <<Ret("OK")>>) : u \in U(NEG, avail)}   \* looks like a status line: unread
              \cup {O(u, <<Set("out_buf", FALSE), Tp("res_finalize_body", i)>> \o (CASE p.txs[i].dec = "active" -> <<Cbs("response_body_junk", i, "ign")>> [] p.txs[i].dec \in {"gone", "unk"} -> <<Ret("ERROR")>> [] OTHER -> <<Cb("response_body_junk", i, "err")>>) \o <<Ret("OK")>>) : u \in U(IF closed THEN 0 ELSE 1, avail)}
    [] OTHER -> {}

(* ---------------- executing micro-programs ---------------- *)
ApplySet(p, op) == [p EXCEPT ![op.fld] = ValOf(op)]
ApplyTxf(p, op) == [p EXCEPT !.txs[op.tx] = [@ EXCEPT ![op.fld] = ValOf(op)]]

FinExpand(p, op) == IF TxLive(p, op.tx) /\ IsComplete(p, op.tx)
                    THEN <<Cb("transaction_complete", op.tx, op.f), [op |-> "autod", tx |-> op.tx]>> ELSE <<>>
AutoD(p, op) == IF AutoDestroy
                THEN [p EXCEPT !.txs[op.tx].live = FALSE,
                               !.in_tx = IF @ = op.tx THEN 0 ELSE @,
                               !.out_tx = IF @ = op.tx THEN 0 ELSE @]
                ELSE p
RecvFinExpand(p, op) ==
  \* the receiver hook is cleared whatever the last send returns (htp_connp_*_receiver_finalize_clear)
  IF op.d = "q" THEN (IF p.in_recv = "none" \/ p.in_tx = 0 THEN <<>>
                      ELSE <<Set("in_recv", "none"), Cb(IF p.in_recv = "hdr" THEN "request_header_data" ELSE "request_trailer_data", p.in_tx, "prop")>>)
  ELSE (IF p.out_recv = "none" \/ p.out_tx = 0 THEN <<>>
        ELSE <<Set("out_recv", "none"), Cb(IF p.out_recv = "hdr" THEN "response_header_data" ELSE "response_trailer_data", p.out_tx, "prop")>>)

\* the early yields of htp_transaction.c:1225-1250; rest = <<Fin, out_tx:=0, out_state:=RES_IDLE, ...>>
YieldNow(p) == (p.in_status = "DATA_OTHER" /\ p.in_tx = p.out_tx) \/ p.odoate
YieldP(p) == IF ~(p.in_status = "DATA_OTHER" /\ p.in_tx = p.out_tx) /\ p.odoate THEN [p EXCEPT !.odoate = FALSE] ELSE p
YieldProg(p, rest) == IF ~YieldNow(p) THEN rest
                      ELSE IF FixD4 THEN <<Tp("res_complete_early_yield", p.out_tx)>> \o SubSeq(rest, 1, 3) \o <<Ret("DATA_OTHER")>>   \* since the D4 fix: let go of the transaction, then yield
                      ELSE <<Tp("res_complete_early_yield", p.out_tx), Ret("DATA_OTHER")>>

NewTxReq(p) ==
  IF Len(p.txs) >= MaxTx THEN [P |-> p, prog |-> <<Ret("ERROR")>>, newtx |-> FALSE]
  ELSE LET t == Len(p.txs) + 1 IN
       [P |-> [p EXCEPT !.txs = Append(@, NewPTx), !.in_tx = t, !.pipelined = (@ \/ Len(p.txs) > p.onti)],
        prog |-> <<Cb("request_start", t, "prop"), SetIn("REQ_LINE"), SetRp(t, LINE), Ret("OK")>>, newtx |-> TRUE]
PickTxRes(p) ==
  IF p.onti + 1 <= Len(p.txs) /\ p.txs[p.onti + 1].live THEN
     LET t == p.onti + 1 IN
     [P |-> [p EXCEPT !.onti = @ + 1, !.out_tx = t],
      prog |-> <<Cb("response_start", t, "prop")>>
               \o (IF p.txs[t].p09 THEN <<SetTx(t, "sc", "ident"), SetTx(t, "dec", "none"), SetSp(t, BODY), SetOut("RES_BODY_IDENTITY_STREAM_CLOSE")>>
                   ELSE <<SetOut("RES_LINE"), SetSp(t, LINE)>>) \o <<Ret("OK")>>, newtx |-> FALSE]
  ELSE IF Len(p.txs) >= MaxTx THEN [P |-> p, prog |-> <<Ret("ERROR")>>, newtx |-> FALSE]
  ELSE LET t == Len(p.txs) + 1 IN
       [P |-> [p EXCEPT !.txs = Append(@, NewPTx), !.pipelined = (@ \/ Len(p.txs) > p.onti)],
        prog |-> (IF p.in_state = "REQ_FINALIZE" /\ p.in_tx # 0 THEN Guard(ReqCompleteProg(p, p.in_tx)) ELSE <<>>)
                 \o <<Set("in_tx", t), Set("out_tx", t), Tp("res_idle_no_request", t), SetIn("REQ_FINALIZE"), Set("onti", p.onti + 1),
                      Cb("response_start", t, "prop"), SetOut("RES_LINE"), SetSp(t, LINE), Ret("OK")>>, newtx |-> TRUE]

\* run all leading ops that need no line / no choice; stop at cb, cbs, ret, endcall
RECURSIVE Run(_, _, _)
Run(p, pr, o) ==
  IF pr = <<>> THEN [P |-> p, prog |-> pr, obs |-> o]
  ELSE LET op == Head(pr)  rest == Tail(pr) IN
    CASE op.op \in {"cb", "cbs", "ret", "endcall"} -> [P |-> p, prog |-> pr, obs |-> o]
      [] op.op = "set" -> Run(ApplySet(p, op), rest, o)
      [] op.op = "txf" -> Run(ApplyTxf(p, op), rest, o)
      [] op.op = "fin" -> Run(p, FinExpand(p, op) \o rest, o)
      [] op.op = "autod" -> Run(AutoD(p, op), rest, o)
      [] op.op = "recvfin" -> Run(p, RecvFinExpand(p, op) \o rest, o)
      [] op.op = "yield" -> Run(YieldP(p), YieldProg(p, rest), o)
      [] op.op = "looped" -> Run(p, rest, o)
      [] op.op = "use" -> Run([p EXCEPT !.pend = @ + op.u], rest, o)
      [] op.op = "seen100" -> Run([p EXCEPT !.txs[op.tx].c100 = @ + 1], rest, o)
      [] op.op = "tp" -> Run(p, rest, OStep(o, TpEv(op.id, op.tx)))
      [] op.op = "jump" -> Run(p, SubSeq(rest, op.n + 1, Len(rest)), o)
      [] op.op = "newtx_req" -> LET r == NewTxReq(p) IN Run(r.P, r.prog \o rest, o)
      [] op.op = "picktx_res" -> LET r == PickTxRes(p) IN Run(r.P, r.prog \o rest, o)

(* ---------------- actions ---------------- *)
Init == /\ P = InitP /\ prog = <<>> /\ cur = "none" /\ avail = 0 /\ calls = 0 /\ obs = ObsInitM /\ l = 1

Sticky(st) == st \in {"STOP", "ERROR"}

DataEnterFrom(pb, d, n) ==
  /\ cur = "none" /\ (LiveMode \/ calls < MaxCalls)
  /\ calls' = (IF LiveMode THEN calls ELSE calls + 1) /\ cur' = d
  /\ IF d = "req" THEN
        IF Sticky(pb.in_status) THEN /\ prog' = <<EndCall(pb.in_status, FALSE)>> /\ avail' = 0 /\ P' = pb
        ELSE IF pb.in_tx = 0 /\ pb.in_state # "REQ_IDLE" THEN /\ prog' = <<EndCall("ERROR", TRUE)>> /\ avail' = 0 /\ P' = pb
        ELSE IF n = 0 /\ pb.in_status # "CLOSED" THEN /\ prog' = <<EndCall("CLOSED", FALSE)>> /\ avail' = 0 /\ P' = pb
        ELSE IF pb.in_status = "TUNNEL" THEN /\ prog' = <<EndCall("TUNNEL", FALSE)>> /\ avail' = 0 /\ P' = pb
        ELSE /\ avail' = n /\ prog' = <<>>
             /\ P' = [pb EXCEPT !.out_status = IF @ = "DATA_OTHER" THEN "DATA" ELSE @, !.used = 0]
     ELSE
        IF Sticky(pb.out_status) THEN /\ prog' = <<EndCall(pb.out_status, FALSE)>> /\ avail' = 0 /\ P' = pb
        ELSE IF pb.out_tx = 0 /\ pb.out_state # "RES_IDLE" THEN /\ prog' = <<EndCall("ERROR", TRUE)>> /\ avail' = 0 /\ P' = pb
        ELSE IF n = 0 /\ pb.out_status # "CLOSED" THEN /\ prog' = <<EndCall("CLOSED", FALSE)>> /\ avail' = 0 /\ P' = pb
        ELSE IF pb.out_status = "TUNNEL" THEN /\ prog' = <<EndCall("TUNNEL", FALSE)>> /\ avail' = 0 /\ P' = pb
        ELSE /\ avail' = n /\ prog' = <<>> /\ P' = [pb EXCEPT !.used = 0]

\* g: the call announces a gap (data = NULL, len = n > 0): same preliminaries; the driver loop then lets only a few states run
DataEnter(d, n, g) == /\ P.cl = 0 /\ DataEnterFrom([P EXCEPT !.used = 0, !.gap = g], d, n)
                      /\ obs' = OStep(obs, CallEv(d, IF g THEN "gap" ELSE "data", n))

\* htp_connp_close: status overwrite; the two (NULL,0) runs follow as DataEnter(d, 0)
CloseMark ==
  /\ cur = "none"
  /\ P.cl = 0
  /\ P' = [P EXCEPT !.in_status = IF @ # "ERROR" THEN "CLOSED" ELSE @,
                    !.out_status = IF @ # "ERROR" THEN "CLOSED" ELSE @, !.cl = 1]
  /\ obs' = OStep(obs, CallEv("both", "close", 0))
  /\ UNCHANGED <<prog, cur, avail, calls>>
\* the two inner (NULL,0) runs of htp_connp_close
CloseEnter == /\ cur = "none" /\ P.cl \in {1, 2}
              /\ DataEnterFrom([P EXCEPT !.cl = @ + 1, !.gap = FALSE], IF P.cl = 1 THEN "req" ELSE "res", 0)
              /\ UNCHANGED obs

\* deferred consumption reached while running a micro-program is taken from the chunk when the step settles
Settle(p) == [p EXCEPT !.pend = 0, !.used = @ + p.pend]
\* every line-reading state appends the bytes it read to the line buffer before it looks at the line (htp_connp_re[qs]_consolidate_data);
\* with a line already buffered that can exceed the hard field limit, and the state function fails (C10: "reported as an error")
LineStatesQ == {"REQ_LINE", "REQ_HEADERS", "REQ_BODY_CHUNKED_LENGTH", "REQ_FINALIZE", "REQ_CONNECT_PROBE_DATA"}
LineStatesS == {"RES_LINE", "RES_HEADERS", "RES_BODY_CHUNKED_LENGTH", "RES_FINALIZE"}
OverLimit(p) == IF avail = 0 THEN {}
                ELSE IF cur = "req" THEN (IF p.in_buf /\ p.in_state \in LineStatesQ THEN {O(u, <<Ret("ERROR")>>) : u \in U(1, avail)} ELSE {})
                ELSE (IF p.out_buf /\ p.out_state \in LineStatesS THEN {O(u, <<Ret("ERROR")>>) : u \in U(1, avail)} ELSE {})
\* "handle gap" in the two driver loops: only the identity body states (and the data-ignoring state) run on a gap; the FINALIZE states are
\* replaced by the completion of the transaction without probing; every other state refuses the gap and the call returns CLOSED
GapOutcomes(p) ==
  IF cur = "req" THEN
     (IF p.in_state \in {"REQ_BODY_IDENTITY", "REQ_IGNORE_DATA_AFTER_HTTP_0_9"} THEN ReqOutcomes(p)
      ELSE IF p.in_state = "REQ_FINALIZE" THEN {O(0, ReqCompleteProg(p, p.in_tx) \o <<Ret("OK")>>)}
      ELSE {O(0, <<Ret("DECLINED")>>)})
  ELSE
     (IF p.out_state \in {"RES_BODY_IDENTITY_CL_KNOWN", "RES_BODY_IDENTITY_STREAM_CLOSE"} THEN ResOutcomes(p)
      ELSE IF p.out_state = "RES_FINALIZE" THEN {O(0, ResCompleteProg(p, p.out_tx) \o <<Ret("OK")>>)}
      ELSE {O(0, <<Ret("DECLINED")>>)})
StepBegin ==
  /\ cur # "none" /\ prog = <<>>
  /\ \E o \in (IF P.gap THEN GapOutcomes(P) ELSE (IF cur = "req" THEN ReqOutcomes(P) ELSE ResOutcomes(P)) \cup OverLimit(P)) :
        /\ o.use <= avail
        /\ LET r == Run([P EXCEPT !.used = @ + o.use], o.prog, obs) IN
             /\ P' = Settle(r.P) /\ prog' = r.prog /\ obs' = r.obs /\ avail' = avail - o.use - r.P.pend
  /\ UNCHANGED <<cur, calls>>

\* in trace mode the result of a callback is the recorded one (DECLINED continues like OK: htp_hook_run_all)
TRes == LET r == TraceLog[l].ret IN IF r \in {"OK", "DECLINED"} THEN "OK" ELSE r
CbResults(n) == IF TraceMode THEN {TRes} ELSE IF n \in CbFail THEN {"OK", "STOP", "ERROR"} ELSE {"OK"}

\* one callback invocation, then run on to the next stop point
CbStep(name) ==
  /\ cur # "none" /\ prog # <<>> /\ Head(prog).op \in {"cb", "cbs"} /\ Head(prog).n = name
  /\ LET op == Head(prog)  rest == Tail(prog) IN
     \E res \in CbResults(op.n) :
       LET o1 == ObsCbR(obs, P, op.n, op.tx, res)
           keep == IF op.op = "cbs" THEN <<[op EXCEPT !.k = @ + 1]>> ELSE <<>>
           pr == IF res = "OK" \/ op.f = "ign" THEN keep \o rest
                 ELSE IF op.f = "skip" THEN SubSeq(rest, op.skip + 1, Len(rest))
                 ELSE IF op.f = "err" THEN <<Ret("ERROR")>> ELSE <<Ret(res)>>
           r == Run(P, pr, o1)
       IN /\ (op.op = "cbs" /\ ~TraceMode => op.k < 2)
          /\ P' = Settle(r.P) /\ prog' = r.prog /\ obs' = r.obs /\ avail' = avail - r.P.pend
  /\ UNCHANGED <<cur, calls>>

\* a "zero or more" callback that fires no more
CbsDone ==
  /\ cur # "none" /\ prog # <<>> /\ Head(prog).op = "cbs"
  /\ LET r == Run(P, Tail(prog), obs) IN P' = Settle(r.P) /\ prog' = r.prog /\ obs' = r.obs /\ avail' = avail - r.P.pend
  /\ UNCHANGED <<cur, calls>>

\* the end-of-body call goes to the transaction's own hooks (the body processors) before the configured ones; a processor that was
\* finalised already refuses the second call, and the configured hooks never see it.  Only a guarded completion re-issues that call.
SilentHookFail ==
  /\ cur # "none" /\ prog # <<>> /\ Head(prog).op = "cb" /\ Head(prog).f = "skip" /\ Head(prog).n = "request_body_end"
  /\ LET r == Run(P, SubSeq(Tail(prog), Head(prog).skip + 1, Len(Tail(prog))), obs) IN
       P' = Settle(r.P) /\ prog' = r.prog /\ obs' = r.obs /\ avail' = avail - r.P.pend
  /\ UNCHANGED <<cur, calls>>

\* after a gap inside the request body a body processor of the transaction (a transaction-level hook, invisible here) has finalised; it refuses
\* every later body call - data or end marker - before a configured hook sees it, and the request stream fails
SilentRefusal ==
  /\ cur # "none" /\ prog # <<>> /\ Head(prog).op = "cb" /\ Head(prog).f = "err" /\ EvName(Head(prog).n) = "request_body_data"
  /\ P.txs[Head(prog).tx].qfin
  /\ prog' = <<Ret("ERROR")>>
  /\ UNCHANGED <<P, cur, avail, calls, obs>>

StreamOf(rc) == CASE rc \in {"DATA", "DATA_BUFFER"} -> "DATA"
                  [] rc = "DATA_OTHER" -> IF avail = 0 THEN "DATA" ELSE "DATA_OTHER"
                  [] rc = "STOP" -> "STOP"
                  [] OTHER -> "ERROR"

\* return of a state function: loop on OK (after htp_*_handle_state_change), else leave the call
RetStep ==
  /\ cur # "none" /\ prog # <<>> /\ Head(prog).op = "ret"
  /\ LET v == Head(prog).v IN
     IF v = "OK" THEN
        IF (cur = "req" /\ P.in_status = "TUNNEL") \/ (cur = "res" /\ P.out_status = "TUNNEL")
        THEN /\ prog' = <<EndCall("TUNNEL", FALSE)>> /\ UNCHANGED <<P, obs>>
        ELSE \* handle_state_change: (finalize the previous receiver, then) install the header/trailer data receiver
             LET chg == IF cur = "req" THEN P.in_state # P.in_prev ELSE P.out_state # P.out_prev
                 enter == chg /\ (IF cur = "req" THEN P.in_state = "REQ_HEADERS" /\ P.in_tx # 0 ELSE P.out_state = "RES_HEADERS" /\ P.out_tx # 0)
                 kind == IF cur = "req" THEN (IF P.txs[P.in_tx].rp = HEADERS THEN "hdr" ELSE IF P.txs[P.in_tx].rp = TRAILER THEN "trl" ELSE "keep")
                                        ELSE (IF P.txs[P.out_tx].sp = HEADERS THEN "hdr" ELSE IF P.txs[P.out_tx].sp = TRAILER THEN "trl" ELSE "keep")
                 p1 == IF cur = "req" THEN [P EXCEPT !.in_prev = P.in_state] ELSE [P EXCEPT !.out_prev = P.out_state]
                 fld == IF cur = "req" THEN "in_recv" ELSE "out_recv"
                 r == IF enter /\ kind # "keep"
                      THEN Run(p1, <<RecvFin(IF cur = "req" THEN "q" ELSE "s"), Set(fld, kind), [op |-> "looped"]>>, obs)
                      ELSE [P |-> p1, prog |-> <<>>, obs |-> obs]
             IN /\ P' = r.P /\ prog' = r.prog /\ obs' = r.obs
     ELSE IF v \in {"DATA", "DATA_BUFFER"} THEN
        \* receiver_send_data(connp, 0): return value ignored
        LET rc == IF cur = "req" THEN P.in_recv ELSE P.out_recv
            t == IF cur = "req" THEN P.in_tx ELSE P.out_tx
            nm == IF cur = "req" THEN (IF rc = "hdr" THEN "request_header_data" ELSE "request_trailer_data")
                  ELSE (IF rc = "hdr" THEN "response_header_data" ELSE "response_trailer_data")
        \* DATA_BUFFER: the unconsumed tail is kept for the next call - unless that would exceed the hard field limit, in which case the
        \* direction fails for good (htp_connp_re[qs]_buffer failing at the end of htp_connp_re[qs]_data)
        IN /\ \E overlimit \in (IF v = "DATA_BUFFER" THEN {FALSE, TRUE} ELSE {FALSE}) :
                prog' = (IF rc # "none" /\ t # 0 THEN <<Cb(nm, t, "ign")>> ELSE <<>>) \o <<EndCall(IF overlimit THEN "ERROR" ELSE StreamOf(v), TRUE)>>
           /\ UNCHANGED <<P, obs>>
     ELSE IF v = "DECLINED" THEN /\ prog' = <<EndCall("CLOSED", FALSE)>> /\ UNCHANGED <<P, obs>>    \* "Gaps are not allowed during this state": stream status untouched
     ELSE /\ prog' = <<EndCall(StreamOf(v), TRUE)>> /\ UNCHANGED <<P, obs>>
  /\ UNCHANGED <<cur, avail, calls>>

EndCallStep ==
  /\ cur # "none" /\ prog # <<>> /\ Head(prog).op = "endcall"
  /\ LET op == Head(prog) IN
     P' = IF cur = "req" THEN [P EXCEPT !.in_status = IF op.setst THEN op.v ELSE @, !.lastq = op.v]
                         ELSE [P EXCEPT !.out_status = IF op.setst THEN op.v ELSE @, !.lasts = op.v]
  /\ cur' = "none" /\ prog' = <<>> /\ avail' = 0
  /\ obs' = (IF P.cl = 0 THEN OStep(obs, RetEv(P', cur, Head(prog).v, P.used)) ELSE obs)
  /\ UNCHANGED calls

AllHooks == {"request_start", "request_uri_normalize", "request_line", "request_header_data", "request_headers",
             "request_body_data", "request_body_end", "request_body_junk", "request_body_gap", "request_trailer_data", "request_trailer",
             "request_complete", "response_start", "response_line", "response_header_data", "response_headers",
             "response_body_data", "response_body_end", "response_body_junk", "response_body_gap", "response_trailer_data",
             "response_trailer", "response_complete", "transaction_complete"}

Next ==
  \/ /\ ~TraceMode
     /\ UNCHANGED l
     /\ \/ \E d \in {"req", "res"}, n \in 1..MaxAvail, g \in (IF Gaps THEN BOOLEAN ELSE {FALSE}) : DataEnter(d, n, g)
        \/ CloseMark
        \/ CloseEnter
        \/ (P.cl = 3 /\ cur = "none" /\ P' = [P EXCEPT !.cl = 4] /\ obs' = OStep(obs, RetEv(P, "both", "-", 0))
            /\ UNCHANGED <<prog, cur, avail, calls>>)
        \/ StepBegin
        \/ \E nm \in AllHooks : CbStep(nm)
        \/ CbsDone
        \/ SilentHookFail
        \/ SilentRefusal
        \/ RetStep
        \/ EndCallStep

Spec == Init /\ [][Next]_vars

(* ---------------- trace binding ---------------- *)
Line == TraceLog[l]
HasLine == l <= Len(TraceLog)
CbNames(ev) == IF ev.n = "request_body_data" THEN (IF ev.nul THEN (IF ev.len > 0 THEN {"request_body_gap"} ELSE {"request_body_end"}) ELSE {"request_body_data", "request_body_junk"})
               ELSE IF ev.n = "response_body_data" THEN (IF ev.nul THEN (IF ev.len > 0 THEN {"response_body_gap"} ELSE {"response_body_end"}) ELSE {"response_body_data", "response_body_junk"})
               ELSE {ev.n}
TReset == /\ HasLine /\ Line.e = "Reset"
          /\ P' = InitP /\ prog' = <<>> /\ cur' = "none" /\ avail' = 0 /\ calls' = 0 /\ obs' = ObsInitM /\ l' = l + 1
TCall == /\ HasLine /\ Line.e = "Call" /\ Line.k \in {"data", "gap"} /\ DataEnter(Line.d, Line.len, Line.k = "gap") /\ l' = l + 1
TClose == /\ HasLine /\ Line.e = "Call" /\ Line.k = "close" /\ CloseMark /\ l' = l + 1
TSB == /\ HasLine /\ Line.e = "SB"
       /\ (IF Line.d = "req" THEN cur = "req" /\ P.in_state = Line.s ELSE cur = "res" /\ P.out_state = Line.s)
       /\ StepBegin /\ l' = l + 1
TCb == /\ HasLine /\ Line.e = "Cb" /\ prog # <<>> /\ Head(prog).op \in {"cb", "cbs"}
       /\ Head(prog).n \in CbNames(Line) /\ Head(prog).tx = Line.tx + 1
       /\ P.txs[Line.tx + 1].rp = Line.rp /\ P.txs[Line.tx + 1].sp = Line.sp
       /\ CbStep(Head(prog).n) /\ l' = l + 1
TCbsDone == CbsDone /\ l' = l
TSilentHookFail == SilentHookFail /\ l' = l
TSilentRefusal == SilentRefusal /\ l' = l
TTP == /\ HasLine /\ Line.e = "TP" /\ l' = l + 1 /\ UNCHANGED <<P, prog, cur, avail, calls, obs>>
TSE == /\ HasLine /\ Line.e = "SE" /\ prog # <<>> /\ Head(prog).op = "ret" /\ Head(prog).v = Line.rc
       /\ (IF Line.d = "req" THEN P.in_state = Line.s2 ELSE P.out_state = Line.s2)
       /\ avail = Line.left /\ P.in_tx = Line.in_tx + 1 /\ P.out_tx = Line.out_tx + 1
       /\ P.in_status = Line.ist /\ P.out_status = Line.ost
       /\ RetStep /\ l' = l + 1
TCloseEnter == CloseEnter /\ l' = l
TInnerEnd == /\ P.cl \in {2, 3} /\ prog # <<>> /\ Head(prog).op = "endcall" /\ EndCallStep /\ l' = l
TRetClose == /\ HasLine /\ Line.e = "Ret" /\ Line.d = "both" /\ cur = "none" /\ P.cl = 3
             /\ P.in_status = Line.ist /\ P.out_status = Line.ost /\ Len(P.txs) = Line.ntx /\ P.onti = Line.onti
             /\ P' = [P EXCEPT !.cl = 0] /\ l' = l + 1 /\ obs' = OStep(obs, RetEv(P, "both", "-", 0))
             /\ UNCHANGED <<prog, cur, avail, calls>>
TRet == /\ HasLine /\ Line.e = "Ret" /\ prog # <<>> /\ Head(prog).op = "endcall" /\ P.cl = 0
        /\ Head(prog).v = Line.rc
        /\ EndCallStep
        /\ P'.in_status = Line.ist /\ P'.out_status = Line.ost /\ Len(P.txs) = Line.ntx /\ P.onti = Line.onti
        /\ l' = l + 1
\* records that carry no parser step (connection open, final dump, end of execution, teardown)
\* and the file-data callbacks of the body processors (multipart / PUT), which are not steps of the connection parser
TSkip == /\ HasLine /\ (Line.e \in {"Open", "Final", "End", "Destroy", "Fault"} \/ (Line.e = "Cb" /\ Line.n = "request_file_data")) /\ l' = l + 1 /\ UNCHANGED <<P, prog, cur, avail, calls, obs>>
TNext == TSkip \/ TReset \/ TCall \/ TClose \/ TCloseEnter \/ TInnerEnd \/ TRetClose \/ TSB \/ TCb \/ TCbsDone \/ TSilentHookFail \/ TSilentRefusal \/ TTP \/ TSE \/ TRet
TSpec == Init /\ [][TNext]_vars
NotAccepted == l <= Len(TraceLog)
ASSUME TLCSet(1, 0)
ASSUME TLCSet(2, {})
Progress == /\ TLCSet(1, IF TLCGet(1) < l THEN l ELSE TLCGet(1))
            /\ (l > Len(TraceLog) => TLCSet(2, TLCGet(2) \cup {v.c : v \in obs.viol}))
Report == PrintT(<<"MAXL", TLCGet(1), Len(TraceLog)>>) /\ PrintT(<<"VIOL", TLCGet(2)>>)

(* ---------------- state view for model checking ---------------- *)
\* History-only observer fields (event positions, counters, the completion order) are hidden from TLC's fingerprint:
\* they never influence a clause that is model-checked, and they would make every path a distinct state.
ObsView(o) == [txs |-> [k \in 1..Len(o.txs) |-> [o.txs[k] EXCEPT !.qstartpos = 0, !.sstartpos = 0]],
               viol |-> o.viol, gsites |-> o.gsites, call |-> o.call, lastrc |-> o.lastrc, tunnel |-> o.tunnel, bothtunnel |-> o.bothtunnel,
               zero |-> o.zero, waitconnect |-> o.waitconnect, waitarmed |-> o.waitarmed, closed |-> o.closed, ntx |-> o.ntx]
View == <<P, prog, cur, avail, calls, ObsView(obs)>>

(* ---------------- properties ---------------- *)
\* Every clause violation the observers record must be excused by a known finding: the clause together with one of the
\* trace-point sites that tainted the transaction concerned must be listed in Known.  Anything else violates the invariant.
SitesOf(v) == obs.gsites \cup (IF v.tx >= 0 THEN Ob!TxOf(obs, v.tx).sites
                                ELSE UNION {obs.txs[k].sites : k \in 1..Len(obs.txs)})
Excused(v) == \E st \in SitesOf(v) : <<v.c, st>> \in Known
ClausesOf(pid) == CASE pid = "C05" -> {"C05:Order", "C05:ProgressMonotone", "C05:CompleteAtMostOnce", "C05:TxCompleteOnlyWhenBoth",
                                       "C05:NothingAfterTxComplete", "C05:CallbackTxIsLive"}
                    [] pid = "C09" -> {"C09:RetDocumented", "C09:DataMeansAll", "C09:OtherMeansLess", "C09:ConsumedWithinLen", "C09:StickyStop",
                                       "C09:StickyError", "C09:NoCallbacksWhenSticky", "C09:NoPingPong"}
                    [] pid = "C16" -> {"C16:TunnelQuiet", "C16:TunnelSticky", "C16:ConnectSuspends"}
                    [] pid = "C10" -> {"C10:TxCount"}
                    [] OTHER -> {}
Holds(pid) == \A v \in obs.viol : v.c \in ClausesOf(pid) => Excused(v)
Inv_C05 == Holds("C05")
Inv_C09 == Holds("C09")
Inv_C16 == Holds("C16")
Inv_C10 == Holds("C10")
\* every transaction the parser holds is within the configured bound (the model's MaxTx plays max_tx + 1)
Inv_TxBound == Len(P.txs) <= MaxTx
TypeOK == /\ P.in_tx \in 0..Len(P.txs) /\ P.out_tx \in 0..Len(P.txs) /\ P.onti \in 0..(Len(P.txs) + 1)
          /\ cur \in {"none", "req", "res"} /\ avail \in 0..MaxAvail
=============================================================================
