------------------------------- MODULE HtpWire -------------------------------
(* Well-formed HTTP/1.x exchanges as abstract descriptors, and their CUT-INDEPENDENT expected parse (C02, C03, C04, C06, C11).
   An exchange is a sequence of <<request, response>> descriptors built from finite pools of productions (methods, targets,
   header lines with folding / repetition / separator spellings, special fields, framings, statuses).  Expected(x) is the
   canonical result per transaction; it does not take the delivery schedule as an argument, so segmentation invariance holds
   on the specification by construction and is checked on the code by comparing every schedule's observation with Expected
   and with the whole-delivery observation (HtpWireJudge.tla).
   Exchange(i) decodes an index into one production choice per component with co-prime strides: consecutive indices cover
   every single choice and (over a few thousand indices) all pairs of choices.  Strings are the literal wire spellings;
   bodies are tokens whose bytes live in the renderer (tools/wire.py) - their delivery is judged by the C06 clauses.    *)
EXTENDS Integers, Sequences, FiniteSets, TLC

None == <<>>
Some(x) == <<x>>

(* ---------------- pools ---------------- *)
\* every method libhtp knows (htp_core.h enum htp_method_t) and one it does not; POST / PUT recur so that request bodies stay frequent
Methods == <<"GET", "POST", "PUT", "HEAD", "OPTIONS", "DELETE", "TRACE", "POST", "PATCH", "PROPFIND", "PUT", "PROPPATCH", "MKCOL", "POST", "COPY", "MOVE",
             "PUT", "LOCK", "UNLOCK", "POST", "VERSION-CONTROL", "CHECKOUT", "PUT", "UNCHECKOUT", "CHECKIN", "POST", "UPDATE", "LABEL", "PUT", "REPORT",
             "MKWORKSPACE", "MKACTIVITY", "BASELINE-CONTROL", "MERGE", "BREW">>
HasReqBody(m) == m \in {"POST", "PUT"}
MethodNumber(m) ==
  CASE m = "HEAD" -> 1 [] m = "GET" -> 2 [] m = "PUT" -> 3 [] m = "POST" -> 4 [] m = "DELETE" -> 5 [] m = "CONNECT" -> 6 [] m = "OPTIONS" -> 7 [] m = "TRACE" -> 8
    [] m = "PATCH" -> 9 [] m = "PROPFIND" -> 10 [] m = "PROPPATCH" -> 11 [] m = "MKCOL" -> 12 [] m = "COPY" -> 13 [] m = "MOVE" -> 14 [] m = "LOCK" -> 15
    [] m = "UNLOCK" -> 16 [] m = "VERSION-CONTROL" -> 17 [] m = "CHECKOUT" -> 18 [] m = "UNCHECKOUT" -> 19 [] m = "CHECKIN" -> 20 [] m = "UPDATE" -> 21
    [] m = "LABEL" -> 22 [] m = "REPORT" -> 23 [] m = "MKWORKSPACE" -> 24 [] m = "MKACTIVITY" -> 25 [] m = "BASELINE-CONTROL" -> 26 [] m = "MERGE" -> 27
    [] OTHER -> 0
ProtocolNumber(v) == IF v = "HTTP/1.1" THEN 101 ELSE IF v = "HTTP/1.0" THEN 100 ELSE -1
\* enum htp_transfer_coding_t: 1 no body, 2 identity, 3 chunked
CodingOf(fr) == IF fr \in {"chunked1", "chunked2"} THEN 3 ELSE IF fr \in {"cl", "close", "cl0"} THEN 2 ELSE 1
\* targets: raw text and what the parser should report for it (raw components; normalised path; query parameters)
T(raw, scheme, user, pass, host, port, portn, path, npath, query, frag, params) ==
  [raw |-> raw, scheme |-> scheme, user |-> user, pass |-> pass, host |-> host, port |-> port, portn |-> portn,
   path |-> path, npath |-> npath, query |-> query, frag |-> frag, params |-> params]
Targets == <<
  T("/", None, None, None, None, None, -1, "/", "/", None, None, <<>>),
  T("/a/b/../c/./d.html", None, None, None, None, None, -1, "/a/b/../c/./d.html", "/a/c/d.html", None, None, <<>>),
  T("/p%20q/r?x=1&y=two+words&z=%41", None, None, None, None, None, -1, "/p%20q/r", "/p q/r", Some("x=1&y=two+words&z=%41"), None,
    <<<<"x", "1">>, <<"y", "two words">>, <<"z", "A">>>>),
  T("http://www.example.com:8080/abs/path?k=v#frag", Some("http"), None, None, Some("www.example.com"), Some("8080"), 8080, "/abs/path", "/abs/path",
    Some("k=v"), Some("frag"), <<<<"k", "v">>>>),
  T("http://user:pw@www.example.com/u", Some("http"), Some("user"), Some("pw"), Some("www.example.com"), None, -1, "/u", "/u", None, None, <<>>),
  T("/empty?", None, None, None, None, None, -1, "/empty", "/empty", Some(""), None, <<>>),
  T("/q?a=&=b&c", None, None, None, None, None, -1, "/q", "/q", Some("a=&=b&c"), None, <<<<"a", "">>, <<"", "b">>, <<"c", "">>>>)
>>
Versions == <<"HTTP/1.1", "HTTP/1.0">>
\* header lines: key (lower-case identity), name as spelled, separator after the name, value pieces (first line + continuation lines),
\* continuation indent
L(key, name, sep, pieces, ind) == [key |-> key, name |-> name, sep |-> sep, pieces |-> pieces, ind |-> ind]
ReqLines == <<
  L("x-alpha", "X-Alpha", ": ", <<"one">>, " "),
  L("x-alpha", "X-ALPHA", ":", <<"two  words; q=\"x\"">>, " "),
  L("accept-thing", "Accept-Thing", ": ", <<"first,", "second: with colon">>, " "),
  L("accept-thing", "accept-thing", ":\t", <<"v">>, " "),
  L("x-fold", "X-Fold", ": ", <<"a", "b", "c">>, "\t"),
  L("user-agent", "User-Agent", ": ", <<"Mozilla/5.0 (X11; Linux)">>, " "),
  L("x-empty", "X-Empty", ":", <<"">>, " "),
  L("x-alpha", "x-alpha", ": ", <<"three">>, " ")
>>
ResLines == <<
  L("server", "Server", ": ", <<"Apache">>, " "),
  L("x-beta", "X-Beta", ": ", <<"b1">>, " "),
  L("x-beta", "X-BETA", ":", <<"b2">>, " "),
  L("x-fold", "X-Fold", ": ", <<"p", "q r">>, " "),
  L("set-cookie", "Set-Cookie", ": ", <<"k=v; Path=/">>, " "),
  L("x-fold", "X-Fold", ":\t", <<"s", "t">>, "\t")
>>
\* sequences of up to two extra lines, by index pairs (0 = none)
LineSeq(pool, a, b) == (IF a = 0 THEN <<>> ELSE <<pool[a]>>) \o (IF b = 0 THEN <<>> ELSE <<pool[b]>>)
\* special request fields
Specials == <<"none", "cookie", "basic", "hostport", "cookie+basic">>
CookieLine == L("cookie", "Cookie", ": ", <<"sid=abc123; theme=dark">>, " ")
BasicLine == L("authorization", "Authorization", ": ", <<"Basic dXNlcjpwYXNz">>, " ")
\* framings: body tokens are rendered by tools/wire.py; "len:<token>" stands for the decimal length of the token's bytes
ReqFramings == <<"none", "cl", "chunked1", "chunked2">>          \* chunked2: two chunks, an extension, a trailer field
ResFramings == <<"cl", "chunked1", "chunked2", "close", "cl0">>
\* body tokens with the decimal length of their bytes (the renderer asserts that its bytes have exactly this length)
BodyTokens == <<"b_plain", "b_crlf_nul_http", "b_chunky", "b_one", "b_form">>
BodyLen(tok) == CASE tok = "b_plain" -> "10" [] tok = "b_crlf_nul_http" -> "29" [] tok = "b_chunky" -> "23" [] tok = "b_one" -> "1" [] tok = "b_form" -> "26"
\* length and 31-bit FNV-1a digest of the token's bytes (what the recorder reports for the bytes handed to the body callbacks)
BodyDigest(tok) == CASE tok = "b_plain" -> <<10, 776466081>> [] tok = "b_crlf_nul_http" -> <<29, 1444577307>> [] tok = "b_chunky" -> <<23, 329681382>>
                     [] tok = "b_one" -> <<1, 2097959047>> [] tok = "b_form" -> <<26, 351694418>> [] OTHER -> <<0, 0>>
\* b_form is "a=1&b=two+words&c=%41%2f&d", sent as application/x-www-form-urlencoded: its fields are body parameters
FormParams == << <<"a", "1">>, <<"b", "two words">>, <<"c", "A/">>, <<"d", "">> >>
\* response content codings; the coded streams are constants of the renderer, CodedLen is the decimal length of the coded bytes
Codings == <<"none", "gzip", "none", "deflate", "none", "lzma", "none">>
CodedLen(tok, c) ==
  CASE c = "none" -> BodyLen(tok)
    [] c = "gzip" -> (CASE tok = "b_plain" -> "30" [] tok = "b_crlf_nul_http" -> "49" [] tok = "b_chunky" -> "40" [] tok = "b_one" -> "21" [] tok = "b_form" -> "46")
    [] c = "deflate" -> (CASE tok = "b_plain" -> "18" [] tok = "b_crlf_nul_http" -> "37" [] tok = "b_chunky" -> "28" [] tok = "b_one" -> "9" [] tok = "b_form" -> "34")
    [] c = "lzma" -> (CASE tok = "b_plain" -> "34" [] tok = "b_crlf_nul_http" -> "53" [] tok = "b_chunky" -> "43" [] tok = "b_one" -> "24" [] tok = "b_form" -> "50")
CodingNumber(c) == CASE c = "none" -> 1 [] c = "gzip" -> 2 [] c = "deflate" -> 3 [] c = "lzma" -> 4          \* enum htp_content_encoding_t
Statuses == <<[code |-> 200, text |-> "200", reason |-> "OK", body |-> TRUE], [code |-> 404, text |-> "404", reason |-> "Not Found", body |-> TRUE],
              [code |-> 204, text |-> "204", reason |-> "No Content", body |-> FALSE], [code |-> 304, text |-> "304", reason |-> "Not Modified", body |-> FALSE],
              [code |-> 201, text |-> "201", reason |-> "Created At Last", body |-> TRUE]>>

(* ---------------- descriptors ---------------- *)
Pick(pool, i, p, q) == pool[((i * p + (i \div q)) % Len(pool)) + 1]
Idx(n, i, p, q) == (i * p + (i \div q)) % n
Request(i, last) ==
  LET m == Pick(Methods, i, 1, 7)
      sp == Pick(Specials, i, 3, 11)
  IN [m |-> m, t |-> Pick(Targets, i, 5, 13), v |-> Pick(Versions, i, 1, 3),
      hostv |-> IF sp = "hostport" THEN "www.example.com:8080" ELSE "www.example.com",
      hosth |-> "www.example.com", hostp |-> IF sp = "hostport" THEN 8080 ELSE -1,
      lines |-> LineSeq(ReqLines, Idx(Len(ReqLines) + 1, i, 7, 17), Idx(Len(ReqLines) + 1, i, 11, 5)),
      cookie |-> sp \in {"cookie", "cookie+basic"}, basic |-> sp \in {"basic", "cookie+basic"},
      fr |-> LET f == IF HasReqBody(m) THEN Pick(ReqFramings, i + 1, 3, 19) ELSE "none"
             IN IF f \in {"chunked1", "chunked2"} /\ Pick(Versions, i, 1, 3) = "HTTP/1.0" THEN "cl" ELSE f,       \* chunked coding needs HTTP/1.1
      body |-> Pick(BodyTokens, i, 7, 23)]
Response(i, m, last) ==
  LET st == Pick(Statuses, i, 3, 29)
      fr0 == Pick(ResFramings, i, 7, 31)
      fr1 == IF ~st.body \/ m = "HEAD" THEN "none" ELSE IF fr0 = "close" /\ ~last THEN "cl" ELSE fr0
      fr == IF fr1 \in {"chunked1", "chunked2"} /\ Pick(Versions, i, 1, 5) = "HTTP/1.0" THEN "cl" ELSE fr1
  IN [st |-> st, v |-> Pick(Versions, i, 1, 5),
      lines |-> LineSeq(ResLines, Idx(Len(ResLines) + 1, i, 5, 37), Idx(Len(ResLines) + 1, i, 13, 3)),
      fr |-> fr, body |-> Pick(BodyTokens, i, 11, 41),
      coding |-> IF fr \in {"cl", "chunked1", "chunked2", "close"} THEN Pick(Codings, i, 3, 47) ELSE "none"]
\* an exchange of n messages derived from index i
Exchange(i, n) == [k \in 1..n |-> LET q == Request(i + 101 * (k - 1), k = n) IN [req |-> q, res |-> Response(i + 57 * (k - 1), q.m, k = n)]]

(* ---------------- expected parse ---------------- *)
RECURSIVE JoinPieces(_, _, _)
JoinPieces(pieces, k, ind) == IF k > Len(pieces) THEN "" ELSE (IF k = 1 THEN "" ELSE ind) \o pieces[k] \o JoinPieces(pieces, k + 1, ind)
LineValue(l) == JoinPieces(l.pieces, 1, l.ind)          \* continuation lines are appended raw, with their indent
\* the header table: lines in wire order; a line whose key is already present is joined to it with ", " (Content-Length repeats excepted)
RECURSIVE Table(_, _)
Table(tbl, ls) ==
  IF ls = <<>> THEN tbl
  ELSE LET l == Head(ls)
           hit == {j \in 1..Len(tbl) : tbl[j].key = l.key}
       IN IF hit = {} THEN Table(Append(tbl, [key |-> l.key, name |-> l.name, value |-> LineValue(l), repeated |-> FALSE]), Tail(ls))
          ELSE LET j == CHOOSE x \in hit : TRUE IN
               Table([tbl EXCEPT ![j].value = @ \o ", " \o LineValue(l), ![j].repeated = TRUE], Tail(ls))
FramingLines(fr, body, coding) ==
  CASE fr = "cl" -> <<L("content-length", "Content-Length", ": ", <<CodedLen(body, coding)>>, " ")>>
    [] fr = "cl0" -> <<L("content-length", "Content-Length", ": ", <<"0">>, " ")>>
    [] fr \in {"chunked1", "chunked2"} -> <<L("transfer-encoding", "Transfer-Encoding", ": ", <<"chunked">>, " ")>>
    [] OTHER -> <<>>
HasBody(fr) == fr \in {"cl", "chunked1", "chunked2", "close"}
IsForm(q) == HasBody(q.fr) /\ q.body = "b_form"
FormLine == L("content-type", "Content-Type", ": ", <<"application/x-www-form-urlencoded">>, " ")
CodingLines(s) == IF s.coding = "none" THEN <<>> ELSE <<L("content-encoding", "Content-Encoding", ": ", <<s.coding>>, " ")>>
TrailerLines(fr) == IF fr = "chunked2" THEN <<L("x-trailer", "X-Trailer", ": ", <<"t">>, " ")>> ELSE <<>>
ReqWireLines(q) == <<L("host", "Host", ": ", <<q.hostv>>, " ")>> \o q.lines
                   \o (IF q.cookie THEN <<CookieLine>> ELSE <<>>) \o (IF q.basic THEN <<BasicLine>> ELSE <<>>)
                   \o (IF IsForm(q) THEN <<FormLine>> ELSE <<>>) \o FramingLines(q.fr, q.body, "none")
ResWireLines(s) == s.lines \o CodingLines(s) \o FramingLines(s.fr, s.body, s.coding)
ExpectedTx(p) ==
  LET q == p.req  s == p.res IN
  [method |-> q.m, uri |-> q.t.raw, protocol |-> q.v, method_number |-> MethodNumber(q.m), protocol_number |-> ProtocolNumber(q.v),
   res_protocol_number |-> ProtocolNumber(s.v), req_tc |-> CodingOf(q.fr), res_tc |-> CodingOf(s.fr),
   req_headers |-> Table(<<>>, ReqWireLines(q) \o TrailerLines(q.fr)),       \* trailer fields land in the same table
   \* the URI authority wins over the Host field (they agree in this grammar except for the port spelling)
   hostname |-> IF q.t.host # None THEN q.t.host ELSE Some(q.hosth),
   port |-> IF q.t.host # None THEN q.t.portn ELSE q.hostp,
   scheme |-> q.t.scheme, user |-> q.t.user, pass |-> q.t.pass, uhost |-> q.t.host, uport |-> q.t.port,
   path |-> Some(q.t.path), npath |-> Some(q.t.npath), query |-> q.t.query, frag |-> q.t.frag,
   qparams |-> q.t.params \o (IF IsForm(q) THEN FormParams ELSE <<>>),      \* query parameters first, then the fields of a form body
   cookies |-> IF q.cookie THEN <<<<"sid", "abc123">>, <<"theme", "dark">>>> ELSE <<>>,
   auth_user |-> IF q.basic THEN Some("user") ELSE None, auth_pass |-> IF q.basic THEN Some("pass") ELSE None,
   req_body |-> IF HasBody(q.fr) THEN q.body ELSE "none", req_chunked |-> q.fr \in {"chunked1", "chunked2"},
   res_protocol |-> s.v, status |-> s.st.text, status_number |-> s.st.code, message |-> s.st.reason,
   res_headers |-> Table(<<>>, ResWireLines(s) \o TrailerLines(s.fr)),
   \* the entity body is the DECODED payload whatever the content coding
   res_body |-> IF HasBody(s.fr) THEN s.body ELSE "none", res_chunked |-> s.fr \in {"chunked1", "chunked2"}, res_coding |-> s.coding]
Expected(x) == [k \in 1..Len(x) |-> ExpectedTx(x[k])]
=============================================================================
