CONSTANT MaxLen = 6
INIT Init
NEXT Next
INVARIANT Sane
CHECK_DEADLOCK FALSE
