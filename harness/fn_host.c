/* C02 / C11 recorder: Host header values through a real request with an origin-form target; reports the header value as the table has
 * it, tx->request_hostname, tx->request_port_number and HTP_HOSTH_INVALID.   fn_host exh <maxatoms> <shard> <nshards> | fn_host rand <seed> <count> */
#include <stdio.h>
#include <stdlib.h>
#include <string.h>
#include "htp/htp.h"
#include "htp/htp_private.h"

static void pbytes(const unsigned char *p, size_t n) { putchar('['); for (size_t i = 0; i < n; i++) printf(i ? ",%d" : "%d", p[i]); putchar(']'); }
static void popt(const bstr *b) { if (b == NULL) printf("[]"); else { putchar('['); pbytes(bstr_ptr(b), bstr_len(b)); putchar(']'); } }
static htp_cfg_t *cfg;

static void one(const unsigned char *v, size_t n) {
    htp_connp_t *connp = htp_connp_create(cfg);
    htp_connp_open(connp, "1.1.1.1", 1, "2.2.2.2", 80, NULL);
    unsigned char req[600];
    size_t l = (size_t) sprintf((char *) req, "GET / HTTP/1.1\r\nHost:");
    memcpy(req + l, v, n); l += n; memcpy(req + l, "\r\n\r\n", 4); l += 4;
    int rc = htp_connp_req_data(connp, NULL, req, l);
    htp_tx_t *tx = htp_list_get(connp->conn->transactions, 0);
    htp_header_t *h = tx ? htp_table_get_c(tx->request_headers, "host") : NULL;
    printf("{\"raw\":"); pbytes(v, n);
    printf(",\"hv\":"); if (h) pbytes(bstr_ptr(h->value), bstr_len(h->value)); else printf("[]");
    printf(",\"got\":%s,\"err\":%s,\"host\":", h ? "true" : "false", rc == HTP_STREAM_ERROR ? "true" : "false"); popt(tx ? tx->request_hostname : NULL);
    printf(",\"portn\":%d,\"hosth_invalid\":%s,\"missing\":%s}\n", tx ? tx->request_port_number : 0, (tx && (tx->flags & HTP_HOSTH_INVALID)) ? "true" : "false",
           (tx && (tx->flags & HTP_HOST_MISSING)) ? "true" : "false");
    htp_connp_destroy_all(connp);
}

static const char *ATOMS[] = {"a", "B.c", ".", "..", "-", "_", ":", "80", "65535", "65536", "0", "080", " ", "\t", "[::1]", "[", "]", "x!", "@"};
#define NATOMS 19

int main(int argc, char **argv) {
    cfg = htp_config_create();
    htp_config_set_server_personality(cfg, HTP_SERVER_GENERIC);
    unsigned char in[512];
    if (argc >= 5 && !strcmp(argv[1], "exh")) {
        int maxa = atoi(argv[2]), shard = atoi(argv[3]), nsh = atoi(argv[4]);
        long idx = 0;
        for (int na = 0; na <= maxa; na++) {
            long total = 1; for (int i = 0; i < na; i++) total *= NATOMS;
            for (long v = 0; v < total; v++, idx++) {
                if (idx % nsh != shard) continue;
                long t = v; int pick[8]; size_t l = 0;
                in[l++] = ' ';
                for (int i = na - 1; i >= 0; i--) { pick[i] = (int) (t % NATOMS); t /= NATOMS; }
                for (int i = 0; i < na; i++) { size_t al = strlen(ATOMS[pick[i]]); memcpy(in + l, ATOMS[pick[i]], al); l += al; }
                one(in, l);
            }
        }
    } else if (argc >= 2 && !strcmp(argv[1], "ports")) {
        /* port texts after a valid host: boundaries, leading zeros, junk, and digit strings that wrap into 1..65535 when narrowed */
        static const char *PT[] = {"0", "1", "80", "65535", "65536", "99999", "100000", "000080", "0000000000000000000080", "00000", "+80", "-80", "80a", "0x50",
                                   "65616", "131152", "2147483728", "2147483648", "4294967376", "4294967296", "4294967295", "4295032831", "8589934672",
                                   "9223372036854775888", "9223372036854775808", "18446744073709551696", "18446744073709551616", "340282366920938463463374607431768211536"};
        static const char *FR[] = {" h.example:%s", " [::1]:%s", " h:%s ", " h : %s"};
        for (size_t f = 0; f < sizeof FR / sizeof *FR; f++) for (size_t k = 0; k < sizeof PT / sizeof *PT; k++) {
            int l = snprintf((char *) in, sizeof in, FR[f], PT[k]);
            if (l > 0) one(in, (size_t) l);
        }
    } else if (argc >= 4 && !strcmp(argv[1], "rand")) {
        srand((unsigned) atoi(argv[2]) * 2654435761u + 13);
        int count = atoi(argv[3]);
        for (int n = 0; n < count; n++) {
            size_t l = 0; in[l++] = ' ';
            int k = rand() % 8;
            for (int i = 0; i < k; i++) {
                if (rand() % 6 == 0) { int len = 60 + rand() % 10; for (int j = 0; j < len; j++) in[l++] = 'l'; continue; }      /* labels around the 63 limit */
                int a = rand() % NATOMS; size_t al = strlen(ATOMS[a]); memcpy(in + l, ATOMS[a], al); l += al;
            }
            one(in, l);
        }
    }
    htp_config_destroy(cfg);
    fflush(stdout);
    return 0;
}
