/* C14 recorder: htp_mpartp_find_boundary on Content-Type values.   fn_mpbd exh <maxatoms> <shard> <nshards> | fn_mpbd rand <seed> <count> */
#include <stdio.h>
#include <stdlib.h>
#include <string.h>
#include "htp/htp.h"
#include "htp/htp_private.h"

static void pbytes(const unsigned char *p, size_t n) { putchar('['); for (size_t i = 0; i < n; i++) printf(i ? ",%d" : "%d", p[i]); putchar(']'); }
static void one(const unsigned char *v, size_t n) {
    bstr *ct = bstr_dup_mem(v, n);
    bstr *b = NULL; uint64_t flags = 0;
    htp_status_t rc = htp_mpartp_find_boundary(ct, &b, &flags);
    printf("{\"ct\":"); pbytes(v, n);
    printf(",\"rc\":\"%s\",\"boundary\":", rc == HTP_OK ? "OK" : rc == HTP_DECLINED ? "DECLINED" : "ERROR");
    if (rc == HTP_OK && b) { putchar('['); pbytes(bstr_ptr(b), bstr_len(b)); putchar(']'); } else printf("[]");
    printf(",\"flags\":["); int k = 0;
    if (flags & HTP_MULTIPART_HBOUNDARY_INVALID) printf(k++ ? ",\"INVALID\"" : "\"INVALID\"");
    if (flags & HTP_MULTIPART_HBOUNDARY_UNUSUAL) printf(k++ ? ",\"UNUSUAL\"" : "\"UNUSUAL\"");
    printf("],\"other\":%s}\n", (flags & ~(uint64_t) (HTP_MULTIPART_HBOUNDARY_INVALID | HTP_MULTIPART_HBOUNDARY_UNUSUAL)) ? "true" : "false");
    if (rc == HTP_OK && b) bstr_free(b);
    bstr_free(ct);
}
static const char *ATOMS[] = {"multipart/form-data;", "multipart/form-data", "Multipart/Form-Data;", " ", "boundary", "Boundary", "BOUNDARY", "=", "\"", "BB", "a b", "x'y", ";", ",", "\t", "#", "charset=x"};
#define NATOMS 17
int main(int argc, char **argv) {
    unsigned char in[900];
    if (argc >= 5 && !strcmp(argv[1], "exh")) {
        int maxa = atoi(argv[2]), shard = atoi(argv[3]), nsh = atoi(argv[4]);
        long idx = 0;
        for (int na = 0; na <= maxa; na++) {
            long total = 1; for (int i = 0; i < na; i++) total *= NATOMS;
            for (long v = 0; v < total; v++, idx++) {
                if (idx % nsh != shard) continue;
                long t = v; int pick[8]; size_t l = 0;
                for (int i = na - 1; i >= 0; i--) { pick[i] = (int) (t % NATOMS); t /= NATOMS; }
                for (int i = 0; i < na; i++) { size_t al = strlen(ATOMS[pick[i]]); memcpy(in + l, ATOMS[pick[i]], al); l += al; }
                one(in, l);
            }
        }
    } else if (argc >= 4 && !strcmp(argv[1], "rand")) {
        /* well-formed and nearly well-formed values: "multipart/form-data; boundary" + decorations */
        static const char *MID[] = {"=", " =", "= ", " = ", "\t=", "x=", "=\"", "= \""};
        static const char *BND[] = {"BB", "----WebKitFormBoundaryT4AfwQCOgIxNVwlD", "a_b", "a b", "a#b", "0123456789012345678901234567890123456789012345678901234567890123456789", "01234567890123456789012345678901234567890123456789012345678901234567890", "x'(y)+z", ""};
        static const char *END[] = {"", "\"", " ", "; charset=x", ";boundary=ZZ", " junk", ",", "\"; boundary=\"CC\""};
        srand((unsigned) atoi(argv[2]) * 2654435761u + 19);
        int count = atoi(argv[3]);
        for (int n = 0; n < count; n++) {
            size_t l = 0;
            const char *parts[5] = {(rand() % 8) ? "multipart/form-data; " : "multipart/form-data;", (rand() % 6) ? "boundary" : ((rand() % 2) ? "Boundary" : "bOUNDARY"),
                                    MID[rand() % 8], BND[rand() % 9], END[rand() % 8]};
            for (int i = 0; i < 5; i++) { size_t al = strlen(parts[i]); memcpy(in + l, parts[i], al); l += al; }
            one(in, l);
        }
    }
    fflush(stdout);
    return 0;
}
