/* C13 recorder: htp_parse_uri (direct) and a real request line (parsed_uri_raw + numeric port) over prefix families x all
 * suffixes over a 12-symbol alphabet.   fn_uri exh <maxlen> <shard> <nshards>   |   fn_uri rand <seed> <count>   |   fn_uri ports */
#include <stdio.h>
#include <stdlib.h>
#include <string.h>
#include "htp/htp.h"
#include "htp/htp_private.h"

static const unsigned char ALPHA[] = {'a', ':', '/', '@', '?', '#', '[', ']', '.', '0', '9', ' '};
#define NALPHA 12
static const char *PFX[] = {"", "a", "a:", "a:/", "a://", "a://a@", "a://[", "//", "/"};
#define NPFX 9

static void pbytes(const unsigned char *p, size_t n) { putchar('['); for (size_t i = 0; i < n; i++) printf(i ? ",%d" : "%d", p[i]); putchar(']'); }
static void popt(const bstr *b) { if (b == NULL) printf("[]"); else { putchar('['); pbytes(bstr_ptr(b), bstr_len(b)); putchar(']'); } }
static void puri(const htp_uri_t *u) {
    printf("{\"scheme\":"); popt(u ? u->scheme : NULL); printf(",\"username\":"); popt(u ? u->username : NULL); printf(",\"password\":"); popt(u ? u->password : NULL);
    printf(",\"hostname\":"); popt(u ? u->hostname : NULL); printf(",\"port\":"); popt(u ? u->port : NULL); printf(",\"path\":"); popt(u ? u->path : NULL);
    printf(",\"query\":"); popt(u ? u->query : NULL); printf(",\"fragment\":"); popt(u ? u->fragment : NULL); putchar('}');
}
static htp_cfg_t *cfg;

static void one(const unsigned char *in, size_t len) {
    /* direct */
    bstr *b = bstr_dup_mem(in, len);
    htp_uri_t *u = NULL;
    htp_parse_uri(b, &u);
    printf("{\"in\":"); pbytes(in, len); printf(",\"via\":\"direct\",\"pn\":0,\"out\":"); puri(u); printf("}\n");
    htp_uri_free(u); bstr_free(b);
    /* through a request line: only targets the request line can carry verbatim */
    int ok = len > 0;
    for (size_t i = 0; i < len; i++) if (in[i] == ' ' || in[i] == 0 || in[i] == '\r' || in[i] == '\n' || in[i] == '\t') ok = 0;
    if (!ok) return;
    htp_connp_t *connp = htp_connp_create(cfg);
    htp_connp_open(connp, "1.1.1.1", 1, "2.2.2.2", 80, NULL);
    size_t n = 4 + len + 11;
    unsigned char *req = malloc(n);
    memcpy(req, "GET ", 4); memcpy(req + 4, in, len); memcpy(req + 4 + len, " HTTP/1.1\r\n", 11);
    htp_connp_req_data(connp, NULL, req, n);
    free(req);
    htp_tx_t *tx = htp_list_get(connp->conn->transactions, 0);
    if (tx != NULL && tx->parsed_uri_raw != NULL && tx->parsed_uri != NULL) {
        printf("{\"in\":"); pbytes(in, len); printf(",\"via\":\"request\",\"pn\":%d,\"out\":", tx->parsed_uri->port_number); puri(tx->parsed_uri_raw); printf("}\n");
    }
    htp_connp_destroy_all(connp);
}

int main(int argc, char **argv) {
    cfg = htp_config_create();
    htp_config_set_server_personality(cfg, HTP_SERVER_GENERIC);
    unsigned char in[96];
    if (argc >= 5 && !strcmp(argv[1], "exh")) {
        int maxlen = atoi(argv[2]), shard = atoi(argv[3]), nsh = atoi(argv[4]);
        long idx = 0;
        for (int p = 0; p < NPFX; p++) {
            size_t pl = strlen(PFX[p]);
            memcpy(in, PFX[p], pl);
            for (int len = 0; len <= maxlen; len++) {
                long total = 1;
                for (int i = 0; i < len; i++) total *= NALPHA;
                for (long v = 0; v < total; v++, idx++) {
                    if (idx % nsh != shard) continue;
                    long t = v;
                    for (int i = len - 1; i >= 0; i--) { in[pl + i] = ALPHA[t % NALPHA]; t /= NALPHA; }
                    one(in, pl + (size_t) len);
                }
            }
        }
    } else if (argc >= 2 && !strcmp(argv[1], "ports")) {
        /* port texts: boundaries of 1..65535, leading zeros, signs / junk / inner spaces, and digit strings whose value is
         * p + k * 2^16, 2^31, 2^32, 2^63, 2^64 for small p (a conversion that narrows before the range test wraps into a valid port) */
        static const char *PT[] = {"0", "1", "9", "10", "80", "65534", "65535", "65536", "65537", "99999", "100000", "000080", "0000000000000000000080", "00000", "+80", "-80", "80a", "a80", "0x50", "8.0",
                                   "65616", "131071", "131152",                                     /* 2^16 + 80, 2^17 - 1, 2 * 2^16 + 80 */
                                   "2147483728", "2147483649", "2147483647", "2147483648",             /* around 2^31 */
                                   "4294967376", "4294967297", "4294967296", "4294967295", "4295032831", "8589934672", "4294967216",   /* around 2^32 */
                                   "9223372036854775888", "9223372036854775807", "9223372036854775808",  /* around 2^63 */
                                   "18446744073709551696", "18446744073709551617", "18446744073709551616", "18446744073709551615",  /* around 2^64 */
                                   "340282366920938463463374607431768211536"};
        static const char *FR[] = {"http://h:%s/", "//h:%s", "http://[::1]:%s/p?q", "http://u:p@h.example:%s#f", "h:%s"};
        for (size_t f = 0; f < sizeof FR / sizeof *FR; f++) for (size_t k = 0; k < sizeof PT / sizeof *PT; k++) {
            int l = snprintf((char *) in, sizeof in, FR[f], PT[k]);
            if (l > 0 && (size_t) l < sizeof in) one(in, (size_t) l);
        }
    } else if (argc >= 4 && !strcmp(argv[1], "rand")) {
        srand((unsigned) atoi(argv[2]) * 2654435761u + 5);
        int count = atoi(argv[3]);
        static const char *PARTS[] = {"http", "://", "user", ":", "pw", "@", "host.example", "[::1]", "[fe80::1", ":8080", ":65535", ":65536", ":0", ":080", ":99999999999999999999",
                                      "/", "/a/b", "?", "q=1", "#", "frag", "//", "///", "x", ":", "]", "[", "@", " ", "\x7f", "\xff", "%41", ": 80", ":80 ", "\t"};
        for (int n = 0; n < count; n++) {
            size_t len = 0;
            int k = 1 + rand() % 8;
            for (int i = 0; i < k; i++) {
                const char *p = (rand() % 3) ? PARTS[rand() % (sizeof PARTS / sizeof *PARTS)] : PARTS[i % 16];
                size_t l = strlen(p);
                if (len + l > 60) break;
                memcpy(in + len, p, l); len += l;
            }
            if (rand() % 5 == 0 && len < 60) in[len++] = (unsigned char) (rand() % 256);
            one(in, len);
        }
    }
    htp_config_destroy(cfg);
    return 0;
}
