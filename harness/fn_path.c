/* C12 recorder: the path normalisation pipeline (htp_normalize_parsed_uri: decode, UTF-8, dot segments) over atom sequences x
 * decoder configurations, plus a real request line where the target can be carried verbatim.
 *   fn_path atoms <maxatoms> <shard> <nshards>   |   fn_path dots <maxlen>   |   fn_path rand <seed> <count>          */
#include <stdio.h>
#include <stdlib.h>
#include <string.h>
#include "htp/htp.h"
#include "htp/htp_private.h"

typedef struct { const char *b; size_t n; } atom_t;
#define A(s) {s, sizeof(s) - 1}
static const atom_t ATOMS[] = {A("/"), A("."), A("a"), A("A"), A("\\"), A("%"), A("u"), A("%2f"), A("%5c"), A("%2e"), A("%00"), A("%25"), A("%41"), A("%zz"), A("%2"),
    A("%u002f"), A("%uff0f"), A("%u00"), A("\0"), A("\xc3\xa9"), A("\xc0\xaf"), A("\x80"), A("\xef\xbc\x8f"),
    /* 4-byte forms: a supplementary-plane character whose low 16 bits are a key of the best-fit map (U+1FF0F -> must NOT become '/'), U+10000, an overlong
     * 4-byte and 3-byte '/', a code point above U+10FFFF, a surrogate */
    A("\xf0\x9f\xbc\x8f"), A("\xf0\x90\x80\x80"), A("\xf0\x80\x80\xaf"), A("\xe0\x80\xaf"), A("\xf4\x90\x80\x80"), A("\xed\xa0\x80")};
#define NATOMS (sizeof ATOMS / sizeof *ATOMS)

static const struct { uint64_t bit; const char *name; } PF[] = {
    {HTP_PATH_ENCODED_NUL, "ENCODED_NUL"}, {HTP_PATH_RAW_NUL, "RAW_NUL"}, {HTP_PATH_INVALID_ENCODING, "INVALID_ENCODING"}, {HTP_PATH_OVERLONG_U, "OVERLONG_U"},
    {HTP_PATH_ENCODED_SEPARATOR, "ENCODED_SEPARATOR"}, {HTP_PATH_UTF8_VALID, "UTF8_VALID"}, {HTP_PATH_UTF8_INVALID, "UTF8_INVALID"}, {HTP_PATH_UTF8_OVERLONG, "UTF8_OVERLONG"},
    {HTP_PATH_HALF_FULL_RANGE, "HALF_FULL_RANGE"}, {0, NULL}};
static void pbytes(const unsigned char *p, size_t n) { putchar('['); for (size_t i = 0; i < n; i++) printf(i ? ",%d" : "%d", p[i]); putchar(']'); }
static void pflags(uint64_t f) { putchar('['); int k = 0; for (int i = 0; PF[i].name; i++) if (f & PF[i].bit) printf(k++ ? ",\"%s\"" : "\"%s\"", PF[i].name); putchar(']'); }

#define NCFG 26
static htp_cfg_t *cfgs[NCFG]; static const char *cfgname[NCFG]; static int ncfg;
static void mk(const char *name, int pers, void (*tweak)(htp_cfg_t *)) {
    htp_cfg_t *c = htp_config_create();
    htp_config_set_server_personality(c, (enum htp_server_personality_t) pers);
    if (tweak) tweak(c);
    cfgs[ncfg] = c; cfgname[ncfg] = name; ncfg++;
}
#define P HTP_DECODER_URL_PATH
static void t_udec(htp_cfg_t *c) { htp_config_set_u_encoding_decode(c, P, 1); }
static void t_noudec(htp_cfg_t *c) { htp_config_set_u_encoding_decode(c, P, 0); }
static void t_remove(htp_cfg_t *c) { htp_config_set_url_encoding_invalid_handling(c, P, HTP_URL_DECODE_REMOVE_PERCENT); }
static void t_process(htp_cfg_t *c) { htp_config_set_url_encoding_invalid_handling(c, P, HTP_URL_DECODE_PROCESS_INVALID); }
static void t_process_u(htp_cfg_t *c) { htp_config_set_url_encoding_invalid_handling(c, P, HTP_URL_DECODE_PROCESS_INVALID); htp_config_set_u_encoding_decode(c, P, 1); }
static void t_nulenc(htp_cfg_t *c) { htp_config_set_nul_encoded_terminates(c, P, 1); }
static void t_nulraw(htp_cfg_t *c) { htp_config_set_nul_raw_terminates(c, P, 1); }
static void t_nobs(htp_cfg_t *c) { htp_config_set_backslash_convert_slashes(c, P, 0); }
static void t_bs(htp_cfg_t *c) { htp_config_set_backslash_convert_slashes(c, P, 1); }
static void t_sepdec(htp_cfg_t *c) { htp_config_set_path_separators_decode(c, P, 1); }
static void t_nosepdec(htp_cfg_t *c) { htp_config_set_path_separators_decode(c, P, 0); }
static void t_nocomp(htp_cfg_t *c) { htp_config_set_path_separators_compress(c, P, 0); }
static void t_comp(htp_cfg_t *c) { htp_config_set_path_separators_compress(c, P, 1); }
static void t_lower(htp_cfg_t *c) { htp_config_set_convert_lowercase(c, P, 1); }
static void t_bestfit(htp_cfg_t *c) { htp_config_set_utf8_convert_bestfit(c, P, 1); }
static void t_bestfit_u(htp_cfg_t *c) { htp_config_set_utf8_convert_bestfit(c, P, 1); htp_config_set_u_encoding_decode(c, P, 1); htp_config_set_bestfit_replacement_byte(c, P, '!'); }
static void t_all(htp_cfg_t *c) { t_udec(c); t_sepdec(c); t_bs(c); t_comp(c); t_lower(c); t_bestfit(c); t_nulenc(c); t_nulraw(c); }

static void pcfg(const htp_cfg_t *c) {
    const htp_decoder_cfg_t *d = &c->decoder_cfgs[P];
    printf("{\"udec\":%s,\"inv\":\"%s\",\"nulenc_term\":%s,\"nulraw_term\":%s,\"bsconv\":%s,\"sepdec\":%s,\"sepcomp\":%s,\"lower\":%s,\"bestfit\":%s,\"repl\":%d}",
           d->u_encoding_decode ? "true" : "false",
           d->url_encoding_invalid_handling == HTP_URL_DECODE_REMOVE_PERCENT ? "remove" : d->url_encoding_invalid_handling == HTP_URL_DECODE_PROCESS_INVALID ? "process" : "preserve",
           d->nul_encoded_terminates ? "true" : "false", d->nul_raw_terminates ? "true" : "false", d->backslash_convert_slashes ? "true" : "false",
           d->path_separators_decode ? "true" : "false", d->path_separators_compress ? "true" : "false", d->convert_lowercase ? "true" : "false",
           d->utf8_convert_bestfit ? "true" : "false", d->bestfit_replacement_byte);
}

static void one(int ci, const unsigned char *in, size_t len) {
    htp_cfg_t *cfg = cfgs[ci];
    /* the pipeline itself */
    htp_connp_t *connp = htp_connp_create(cfg);
    htp_tx_t *tx = htp_connp_tx_create(connp);
    htp_uri_t *inc = htp_uri_alloc(), *norm = htp_uri_alloc();
    unsigned char *h = malloc(len ? len : 1); memcpy(h, in, len);
    inc->path = bstr_dup_mem(h, len);
    free(h);
    htp_normalize_parsed_uri(tx, inc, norm);
    printf("{\"in\":"); pbytes(in, len); printf(",\"cfgname\":\"%s\",\"via\":\"pipeline\",\"cfg\":", cfgname[ci]); pcfg(cfg);
    printf(",\"path\":"); pbytes(bstr_ptr(norm->path), bstr_len(norm->path)); printf(",\"flags\":"); pflags(tx->flags);
    /* normalising the result again must not change it (checked by TLC on the recorded bytes) */
    bstr *again = bstr_dup(norm->path); htp_normalize_uri_path_inplace(again);
    printf(",\"again\":"); pbytes(bstr_ptr(again), bstr_len(again)); printf("}\n");
    bstr_free(again); htp_uri_free(inc); htp_uri_free(norm);
    htp_connp_destroy_all(connp);
    /* through a real request line */
    int ok = len > 0 && in[0] == '/';
    for (size_t i = 0; i < len; i++) if (in[i] <= 0x20 || in[i] == '?' || in[i] == '#' || in[i] >= 0x7f) ok = 0;
    if (!ok) return;
    connp = htp_connp_create(cfg);
    htp_connp_open(connp, "1.1.1.1", 1, "2.2.2.2", 80, NULL);
    size_t n = 4 + len + 11; unsigned char *req = malloc(n);
    memcpy(req, "GET ", 4); memcpy(req + 4, in, len); memcpy(req + 4 + len, " HTTP/1.1\r\n", 11);
    htp_connp_req_data(connp, NULL, req, n); free(req);
    tx = htp_list_get(connp->conn->transactions, 0);
    if (tx && tx->parsed_uri && tx->parsed_uri->path) {
        printf("{\"in\":"); pbytes(in, len); printf(",\"cfgname\":\"%s\",\"via\":\"request\",\"cfg\":", cfgname[ci]); pcfg(cfg);
        printf(",\"path\":"); pbytes(bstr_ptr(tx->parsed_uri->path), bstr_len(tx->parsed_uri->path)); printf(",\"flags\":"); pflags(tx->flags);
        printf(",\"again\":"); pbytes(bstr_ptr(tx->parsed_uri->path), bstr_len(tx->parsed_uri->path)); printf("}\n");
    }
    htp_connp_destroy_all(connp);
}

int main(int argc, char **argv) {
    static const int PERS[] = {0, 1, 2, 5, 6, 7, 8, 9};
    static const char *PN[] = {"MINIMAL", "GENERIC", "IDS", "IIS_5_1", "IIS_6_0", "IIS_7_0", "IIS_7_5", "APACHE_2"};
    for (int i = 0; i < 8; i++) mk(PN[i], PERS[i], NULL);
    mk("GENERIC+udec", 1, t_udec); mk("IDS-udec", 2, t_noudec); mk("GENERIC+remove", 1, t_remove); mk("GENERIC+process", 1, t_process); mk("GENERIC+process+udec", 1, t_process_u);
    mk("GENERIC+nulenc", 1, t_nulenc); mk("GENERIC+nulraw", 1, t_nulraw); mk("GENERIC-bs", 1, t_nobs); mk("APACHE+bs", 9, t_bs); mk("APACHE+sepdec", 9, t_sepdec);
    mk("GENERIC-sepdec", 1, t_nosepdec); mk("GENERIC-comp", 1, t_nocomp); mk("APACHE+comp", 9, t_comp); mk("GENERIC+lower", 1, t_lower); mk("GENERIC+bestfit", 1, t_bestfit);
    mk("GENERIC+bestfit+udec", 1, t_bestfit_u); mk("MINIMAL+all", 0, t_all); mk("IDS+remove", 2, t_remove);
    unsigned char in[64];
    if (argc >= 5 && !strcmp(argv[1], "atoms")) {
        int maxa = atoi(argv[2]), shard = atoi(argv[3]), nsh = atoi(argv[4]);
        long idx = 0;
        for (int k = 0; k <= maxa; k++) { long total = 1; for (int i = 0; i < k; i++) total *= (long) NATOMS;
            for (long v = 0; v < total; v++, idx++) { if (idx % nsh != shard) continue;
                long t = v; size_t len = 0; int sel[8];
                for (int i = k - 1; i >= 0; i--) { sel[i] = (int) (t % (long) NATOMS); t /= (long) NATOMS; }
                for (int i = 0; i < k; i++) { memcpy(in + len, ATOMS[sel[i]].b, ATOMS[sel[i]].n); len += ATOMS[sel[i]].n; }
                for (int c = 0; c < ncfg; c++) one(c, in, len); } }
    } else if (argc >= 3 && !strcmp(argv[1], "dots")) {
        int maxlen = atoi(argv[2]);
        static const unsigned char D[] = {'/', '.', 'a'};
        for (int len = 0; len <= maxlen; len++) { long total = 1; for (int i = 0; i < len; i++) total *= 3;
            for (long v = 0; v < total; v++) { long t = v; for (int i = len - 1; i >= 0; i--) { in[i] = D[t % 3]; t /= 3; } one(9 - 2, in, (size_t) len); one(1, in, (size_t) len); } }
    } else if (argc >= 4 && !strcmp(argv[1], "rand")) {
        srand((unsigned) atoi(argv[2]) * 2654435761u + 9);
        int count = atoi(argv[3]);
        for (int n = 0; n < count; n++) {
            size_t len = 0; int k = 1 + rand() % 9;
            for (int i = 0; i < k && len < 50; i++) {
                if (rand() % 5 == 0) in[len++] = (unsigned char) (rand() % 256);
                else { const atom_t *a = &ATOMS[(size_t) rand() % NATOMS]; memcpy(in + len, a->b, a->n); len += a->n; }
            }
            one(rand() % ncfg, in, len);
        }
    }
    return 0;
}
