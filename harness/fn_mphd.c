/* C14 recorder: header blocks of a single multipart part through the real multipart parser; reports the part's header table
 * (names and values in table order) and the header-block indicators, for whole delivery, one byte per call and a cut in the middle.
 *   fn_mphd exh <maxatoms1> <maxatoms2> <shard> <nshards>   blocks of one line (<= maxatoms1 atoms) and of two lines (<= maxatoms2 atoms each)
 *   fn_mphd blocks <maxlines> <shard> <nshards>          blocks of <= maxlines whole lines out of 19 (valid fields, repeats, folds, broken lines)
 *   fn_mphd rand <seed> <count>                             blocks of 1..4 lines of 1..5 atoms                                        */
#include <stdio.h>
#include <stdlib.h>
#include <string.h>
#include "htp/htp.h"
#include "htp/htp_private.h"

static void pbytes(const unsigned char *p, size_t n) { putchar('['); for (size_t i = 0; i < n; i++) printf(i ? ",%d" : "%d", p[i]); putchar(']'); }
static htp_cfg_t *cfg;
#define MASK (HTP_MULTIPART_NUL_BYTE | HTP_MULTIPART_PART_HEADER_INVALID | HTP_MULTIPART_PART_HEADER_UNKNOWN | HTP_MULTIPART_PART_HEADER_REPEATED | HTP_MULTIPART_PART_HEADER_FOLDING)

static void run(const unsigned char *doc, size_t l, int mode) {
    htp_mpartp_t *mp = htp_mpartp_create(cfg, bstr_dup_c("BB"), 0);
    if (mode == 0) htp_mpartp_parse(mp, doc, l);
    else if (mode == 1) for (size_t i = 0; i < l; i++) htp_mpartp_parse(mp, doc + i, 1);
    else { htp_mpartp_parse(mp, doc, l / 2); htp_mpartp_parse(mp, doc + l / 2, l - l / 2); }
    htp_mpartp_finalize(mp);
    htp_multipart_t *m = htp_mpartp_get_multipart(mp);
    htp_multipart_part_t *p = htp_list_size(m->parts) > 0 ? htp_list_get(m->parts, 0) : NULL;
    printf("{\"hdrs\":[");
    if (p && p->headers) for (size_t i = 0, n = htp_table_size(p->headers); i < n; i++) {
        htp_header_t *h = htp_table_get_index(p->headers, i, NULL);
        if (i) putchar(',');
        putchar('['); pbytes(bstr_ptr(h->name), bstr_len(h->name)); putchar(','); pbytes(bstr_ptr(h->value), bstr_len(h->value)); putchar(']');
    }
    printf("],\"flags\":["); int k = 0;
    if (m->flags & HTP_MULTIPART_NUL_BYTE) printf(k++ ? ",\"NUL_BYTE\"" : "\"NUL_BYTE\"");
    if (m->flags & HTP_MULTIPART_PART_HEADER_INVALID) printf(k++ ? ",\"PART_HEADER_INVALID\"" : "\"PART_HEADER_INVALID\"");
    if (m->flags & HTP_MULTIPART_PART_HEADER_UNKNOWN) printf(k++ ? ",\"PART_HEADER_UNKNOWN\"" : "\"PART_HEADER_UNKNOWN\"");
    if (m->flags & HTP_MULTIPART_PART_HEADER_REPEATED) printf(k++ ? ",\"PART_HEADER_REPEATED\"" : "\"PART_HEADER_REPEATED\"");
    if (m->flags & HTP_MULTIPART_PART_HEADER_FOLDING) printf(k++ ? ",\"PART_HEADER_FOLDING\"" : "\"PART_HEADER_FOLDING\"");
    printf("],\"ct\":");
    if (p && p->content_type) { putchar('['); pbytes(bstr_ptr(p->content_type), bstr_len(p->content_type)); putchar(']'); } else printf("[]");
    printf(",\"nparts\":%zu}", htp_list_size(m->parts));
    htp_mpartp_destroy(mp);
}

static void one(unsigned char lines[][128], size_t *lens, int nl) {
    unsigned char doc[600]; size_t l = 0;
    memcpy(doc, "--BB\r\n", 6); l = 6;
    printf("{\"lines\":[");
    for (int i = 0; i < nl; i++) {
        if (i) putchar(',');
        pbytes(lines[i], lens[i]);
        memcpy(doc + l, lines[i], lens[i]); l += lens[i];
        memcpy(doc + l, "\r\n", 2); l += 2;
    }
    memcpy(doc + l, "\r\nx\r\n--BB--\r\n", 13); l += 13;
    printf("],\"outs\":[");
    for (int mode = 0; mode < 3; mode++) { if (mode) putchar(','); run(doc, l, mode); }
    printf("]}\n");
}

static const char *ATOMS[] = {"A", "a", "b", ":", " ", "\t", "\0", "(", "\x0b", "Content-Type", "content-disposition", "form-data", ";", "-"};
static const size_t ALEN[] = {1, 1, 1, 1, 1, 1, 1, 1, 1, 12, 19, 9, 1, 1};
#define NATOMS 14

static size_t mkline(unsigned char *out, long v, int na) {
    size_t l = 0; int pick[8];
    for (int i = na - 1; i >= 0; i--) { pick[i] = (int) (v % NATOMS); v /= NATOMS; }
    for (int i = 0; i < na; i++) { memcpy(out + l, ATOMS[pick[i]], ALEN[pick[i]]); l += ALEN[pick[i]]; }
    return l;
}
static long npow(int n) { long t = 1; for (int i = 0; i < n; i++) t *= NATOMS; return t; }
/* a line must not look like a boundary line ("--BB...") */
static int boundaryish(const unsigned char *p, size_t n) { return n >= 2 && p[0] == '-' && p[1] == '-'; }

int main(int argc, char **argv) {
    cfg = htp_config_create();
    static unsigned char lines[4][128]; size_t lens[4];
    if (argc >= 6 && !strcmp(argv[1], "exh")) {
        int m1 = atoi(argv[2]), m2 = atoi(argv[3]), shard = atoi(argv[4]), nsh = atoi(argv[5]);
        long idx = 0;
        for (int na = 1; na <= m1; na++) for (long v = 0; v < npow(na); v++, idx++) {
            if (idx % nsh != shard) continue;
            lens[0] = mkline(lines[0], v, na);
            if (boundaryish(lines[0], lens[0])) continue;
            one(lines, lens, 1);
        }
        for (int na = 1; na <= m2; na++) for (long v = 0; v < npow(na); v++)
            for (int nb = 1; nb <= m2; nb++) for (long w = 0; w < npow(nb); w++, idx++) {
                if (idx % nsh != shard) continue;
                lens[0] = mkline(lines[0], v, na); lens[1] = mkline(lines[1], w, nb);
                if (boundaryish(lines[0], lens[0]) || boundaryish(lines[1], lens[1])) continue;
                one(lines, lens, 2);
            }
    } else if (argc >= 5 && !strcmp(argv[1], "blocks")) {
        /* whole lines as building blocks: valid fields (same name in different case, known names), continuations, broken lines */
        static const char *WL[] = {"A:b", "a:c", "A: b ", "b:x", "Content-Type:text/plain", "content-type: a", "Content-Disposition: form-data; name=\"n\"",
                                   "Content-Type: Text/HTML; charset=x", "content-type:a,B c", " b", "\tc", "\x0b" "d", "A", ":b", "A :b", "A:", "(:b", "A:\t", "X-Y: z:w"};
        const int NW = (int) (sizeof WL / sizeof *WL);
        int maxl = atoi(argv[2]), shard = atoi(argv[3]), nsh = atoi(argv[4]);
        long idx = 0;
        for (int nl = 1; nl <= maxl; nl++) {
            long total = 1; for (int i = 0; i < nl; i++) total *= NW;
            for (long v = 0; v < total; v++, idx++) {
                if (idx % nsh != shard) continue;
                long t = v;
                for (int i = nl - 1; i >= 0; i--) { const char *w = WL[t % NW]; t /= NW; lens[i] = strlen(w); memcpy(lines[i], w, lens[i]); }
                one(lines, lens, nl);
            }
        }
    } else if (argc >= 4 && !strcmp(argv[1], "rand")) {
        srand((unsigned) atoi(argv[2]) * 2654435761u + 29);
        int count = atoi(argv[3]);
        for (int n = 0; n < count; n++) {
            int nl = 1 + rand() % 4, ok = 1;
            for (int i = 0; i < nl; i++) {
                int na = 1 + rand() % 5; long v = 0;
                for (int j = 0; j < na; j++) v = v * NATOMS + rand() % NATOMS;
                lens[i] = mkline(lines[i], v, na);
                if (boundaryish(lines[i], lens[i])) ok = 0;
            }
            if (ok) one(lines, lens, nl);
        }
    }
    htp_config_destroy(cfg);
    fflush(stdout);
    return 0;
}
