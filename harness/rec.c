/* rec.c - the stream-level recorder.  Reads scenarios, drives the real connection parser, prints NDJSON events.
 * It judges nothing: spec/HtpObsTrace.tla (observers), spec/HtpParserTrace.tla (code-shaped model) and
 * spec/HtpWireJudge.tla consume the events.   Usage: rec <scenario-file> [first-scenario-index]
 *
 * Scenario file (one or more scenarios):
 *   S <name>                       start
 *   K key=value ...                configuration (see cfg_apply)
 *   B <hook> <nth|*> <action>      callback behaviour: DECLINED | STOP | ERROR | destroy | reghook
 *   X > <txidx> <hex> / X < ...    expected entity body of request / response <txidx> (match bits in body Cb events)
 *   > <hex> / < <hex>              a request / response chunk ARRIVES (bytes in hex)
 *   g> <n> / g< <n>                a gap of n bytes arrives
 *   D <txidx>                      the user destroys transaction <txidx> between calls (only honoured if complete)
 *   H <op> <n> [hex] [hex]         hybrid-mode API call on the n-th transaction created with "H create n" (ops: see hybrid_op)
 *   C                              htp_connp_close
 *   E                              end of scenario: destroy parser and configuration
 * mode=proto : the caller of docs/QUICK_START 2.2 (re-offers the unconsumed tail after DATA_OTHER, asymmetric unblocking)
 * mode=raw   : every arrival is one API call, return codes ignored (arbitrary call histories, C01/C09)
 */
#include <stdio.h>
#include <stdlib.h>
#include <string.h>
#include <stdint.h>
#include <signal.h>
#include <unistd.h>
#include "htp/htp.h"
#include "htp/htp_private.h"

extern long vf_count, vf_fail_at, vf_live, vf_live_bytes, vf_moved;
extern const char *vf_fail_fn, *vf_fail_ex;

#define MAXB 64
#define MAXTXS 4096
typedef struct { char hook[40]; long nth; char action[16]; } beh_t;
typedef struct { unsigned char *p; size_t n; long wire; } exp_t;

typedef struct rec_s {
    FILE *out;
    int pid;                        /* parser id (C19) */
    htp_cfg_t *cfg;
    htp_connp_t *connp;
    beh_t beh[MAXB]; int nbeh;
    long hookcount[32];
    exp_t expq[64], exps[64];       /* expected bodies per tx index (first 64) */
    int steps, dump, freed, raw, cbdata, live_every, cfgdecomp, cfgreqdecomp;
    long sb_ro;
    const unsigned char *cur_p; size_t cur_n; int cur_dir;   /* chunk of the API call in progress */
    long off[2];                    /* stream offsets */
    uint32_t bodyhash[2][64]; long bodylen[2][64];
    char cborder[2][64][256]; int cbolen[2][64];      /* per transaction and side (0 request, 1 response incl. transaction_complete) */
    long ncb, maxcb;
    int stall, fault_reported, nolive;
} rec_t;

static __thread rec_t *R;
static htp_cfg_t *g_shared_cfg;                 /* C19: parsers created from one configuration */
static void (*g_gate)(rec_t *r);                /* C19: called before every API call (schedule / thread start) */
static void (*g_gate_done)(rec_t *r);           /* C19: called after every API call */

static const char *HOOKS[] = {"request_start", "request_line", "request_uri_normalize", "request_header_data", "request_headers",
    "request_body_data", "request_file_data", "request_trailer_data", "request_trailer", "request_complete",
    "response_start", "response_line", "response_header_data", "response_headers", "response_body_data",
    "response_trailer_data", "response_trailer", "response_complete", "transaction_complete",
    "tx_request_body_data", "tx_response_body_data", NULL};
static int hookidx(const char *n) { for (int i = 0; HOOKS[i]; i++) if (!strcmp(HOOKS[i], n)) return i; return 31; }
static const char CBCODE[] = "SLUhHBFtTCsluhbtrcXbb";   /* one letter per hook for the per-tx callback order string */

static const char *stn(int s) { switch (s) { case 0: return "NEW"; case 1: return "OPEN"; case 2: return "CLOSED"; case 3: return "ERROR";
    case 4: return "TUNNEL"; case 5: return "DATA_OTHER"; case 6: return "STOP"; case 9: return "DATA"; } return "UNDOCUMENTED"; }
static const char *rcn(int r) { switch (r) { case -1: return "ERROR"; case 0: return "DECLINED"; case 1: return "OK"; case 2: return "DATA";
    case 3: return "DATA_OTHER"; case 4: return "STOP"; case 5: return "DATA_BUFFER"; } return "OTHER"; }
static const char *ins(htp_connp_t *g) { if (g->in_state == htp_connp_REQ_CONNECT_PROBE_DATA) return "REQ_CONNECT_PROBE_DATA"; return htp_connp_in_state_as_string(g); }
static const char *outs(htp_connp_t *g) { const char *s = htp_connp_out_state_as_string(g); if (!strcmp(s, "RES_BODY_FINALIZE")) return "RES_FINALIZE"; return s; }
/* Transactions are identified by the order in which the recorder first sees them (a serial kept in the transaction's
 * user data), not by tx->index: after htp_connp_tx_freed() recycles list slots tx->index values repeat. */
static __thread long g_serial;
static long txi(const htp_tx_t *tx) {
    if (tx == NULL) return -1;
    long s = (long) (intptr_t) htp_tx_get_user_data(tx);
    if (s == 0) { s = ++g_serial; htp_tx_set_user_data((htp_tx_t *) tx, (void *) (intptr_t) s); }
    return s - 1;
}
static long clampl(int64_t v) { return v > 2000000000 ? 2000000000 : (v < -2000000000 ? -2000000000 : (long) v); }

static void jstr(FILE *o, const unsigned char *p, size_t n) {
    fputc('"', o);
    for (size_t i = 0; i < n; i++) {
        unsigned char c = p[i];
        if (c == '"' || c == '\\') { fputc('\\', o); fputc(c, o); }
        else if (c < 0x20 || c >= 0x7f) fprintf(o, "\\u%04x", c);
        else fputc(c, o);
    }
    fputc('"', o);
}
/* optional strings are encoded as [] (NULL) or ["text"]: TLC has no null and cannot compare a string with a non-string */
static void jbstr(FILE *o, const bstr *b) { if (b == NULL) fputs("[]", o); else { fputc('[', o); jstr(o, bstr_ptr(b), bstr_len(b)); fputc(']', o); } }
static void jcstr(FILE *o, const char *s) { if (s == NULL) fputs("\"\"", o); else jstr(o, (const unsigned char *) s, strlen(s)); }

/* ---------------------------------------------------------------- hooks from the library (HTP_VERIF) */
static void sink(htp_connp_t *c, const htp_tx_t *tx, const char *kind, const char *id, int dir, int rc) {
    rec_t *r = R;
    if (r == NULL) return;
    if (kind[0] == 'S' && kind[1] == 'B') {
        if (c != r->connp) return;
        r->sb_ro = dir ? (long) c->out_current_read_offset : (long) c->in_current_read_offset;
        if (r->steps) fprintf(r->out, "{\"e\":\"SB\",\"d\":\"%s\",\"s\":\"%s\"}\n", dir ? "res" : "req", dir ? outs(c) : ins(c));
    } else if (kind[0] == 'S') {
        if (c != r->connp || !r->steps) return;
        long ro = dir ? (long) c->out_current_read_offset : (long) c->in_current_read_offset;
        long len = dir ? (long) c->out_current_len : (long) c->in_current_len;
        fprintf(r->out, "{\"e\":\"SE\",\"d\":\"%s\",\"rc\":\"%s\",\"s2\":\"%s\",\"use\":%ld,\"left\":%ld,\"ist\":\"%s\",\"ost\":\"%s\",\"in_tx\":%ld,\"out_tx\":%ld}\n",
                dir ? "res" : "req", rcn(rc), dir ? outs(c) : ins(c), ro - r->sb_ro, len - ro, stn(c->in_status), stn(c->out_status), txi(c->in_tx), txi(c->out_tx));
    } else {
        fprintf(r->out, "{\"e\":\"TP\",\"id\":\"%s\",\"tx\":%ld}\n", id, txi(tx));
    }
}

/* ---------------------------------------------------------------- callbacks */
static int tx_level_body_cb_q(htp_tx_data_t *d);
static int tx_level_body_cb_s(htp_tx_data_t *d);

/* A call that does not return (C01/C09) cannot be observed from outside the process: the recorder gives up after maxcb
 * callbacks or maxsec seconds inside one scenario, reports it as an End record and exits; the runner restarts after it. */
static void give_up(const char *why) {
    rec_t *r = R;
    if (r && r->out) {
        fprintf(r->out, "{\"e\":\"End\",\"live\":0,\"san\":true,\"what\":\"%s\",\"stall\":false,\"leftq\":0,\"lefts\":0,\"closed\":false,\"ntx\":0,\"nser\":0,\"ncb\":%ld,\"allocs\":0,\"failfn\":\"\"}\n", why, r->ncb);
        fflush(r->out);
    }
    _exit(79);
}
static void on_alarm(int sig) { (void) sig; give_up("call does not return (time limit inside one scenario)"); }

static int behave(rec_t *r, const char *hook, htp_tx_t *tx, const char **retname, const char **actname) {
    int hi = hookidx(hook);
    if (r->ncb > r->maxcb) give_up("call does not return (callback limit inside one scenario)");
    long n = ++r->hookcount[hi];
    *retname = "OK"; *actname = "none";
    for (int i = 0; i < r->nbeh; i++) {
        if (strcmp(r->beh[i].hook, hook)) continue;
        if (r->beh[i].nth != 0 && r->beh[i].nth != n) continue;
        const char *a = r->beh[i].action;
        if (!strcmp(a, "DECLINED")) { *retname = "DECLINED"; return HTP_DECLINED; }
        if (!strcmp(a, "STOP")) { *retname = "STOP"; return HTP_STOP; }
        if (!strcmp(a, "ERROR")) { *retname = "ERROR"; return HTP_ERROR; }
        if (!strcmp(a, "destroy")) { *actname = "destroy"; return 100; }
        if (!strcmp(a, "reghook")) { *actname = "reghook"; return 101; }
    }
    return HTP_OK;
}

static void note_order(rec_t *r, htp_tx_t *tx, int hi, int isdata) {
    size_t i = (size_t) txi(tx);
    if (i >= 64) return;
    /* the raw header / trailer DATA receivers are fed once per API call by design (their chunking follows the caller's); they are
     * logged as events but are not part of the per-transaction callback order that must be cut-independent (DESIGN.md 4) */
    if (hi == 3 || hi == 7 || hi == 12 || hi == 15) return;
    char c = CBCODE[hi];
    int sd = (hi >= 10 && hi != 19) ? 1 : 0;        /* hooks 0..9 and tx_request_body_data are request-side */
    int n = r->cbolen[sd][i];
    if (isdata && n > 0 && r->cborder[sd][i][n - 1] == c) return;     /* consecutive data callbacks merged */
    if (n < 255) { r->cborder[sd][i][n] = c; r->cbolen[sd][i] = n + 1; r->cborder[sd][i][n + 1] = 0; }
}

static int on_tx(const char *hook, htp_tx_t *tx) {
    rec_t *r = R;
    const char *rn, *an;
    int hi = hookidx(hook);
    note_order(r, tx, hi, 0);
    int rp = tx->request_progress, sp = tx->response_progress;
    long idx = txi(tx);
    int b = behave(r, hook, tx, &rn, &an);
    r->ncb++;
    fprintf(r->out, "{\"e\":\"Cb\",\"n\":\"%s\",\"tx\":%ld,\"rp\":%d,\"sp\":%d,\"len\":0,\"nul\":false,\"ret\":\"%s\",\"act\":\"%s\",\"c100\":%d", hook, idx, rp, sp, rn, an, tx->seen_100continue);
    if (!strcmp(hook, "request_line")) fprintf(r->out, ",\"mn\":%d", tx->request_method_number);
    if (!strcmp(hook, "response_line") || !strcmp(hook, "response_headers")) fprintf(r->out, ",\"st\":%d", tx->response_status_number);
    if (!strcmp(hook, "request_complete")) fprintf(r->out, ",\"el\":%ld,\"ml\":%ld,\"dl\":%ld,\"tc\":%d,\"ce\":%d,\"wl\":%ld,\"xl\":%ld", clampl(tx->request_entity_len), clampl(tx->request_message_len), idx < 64 ? r->bodylen[0][idx] : -1,
        tx->request_transfer_coding, r->cfgreqdecomp ? (int) tx->request_content_encoding : 1, (idx < 64 && r->expq[idx].p) ? r->expq[idx].wire : -1, (idx < 64 && r->expq[idx].p) ? (long) r->expq[idx].n : -1);
    if (!strcmp(hook, "response_complete")) fprintf(r->out, ",\"el\":%ld,\"ml\":%ld,\"dl\":%ld,\"st\":%d,\"tc\":%d,\"ce\":%d,\"wl\":%ld,\"xl\":%ld", clampl(tx->response_entity_len), clampl(tx->response_message_len), idx < 64 ? r->bodylen[1][idx] : -1, tx->response_status_number,
        tx->response_transfer_coding, r->cfgdecomp ? (int) tx->response_content_encoding_processing : 1, (idx < 64 && r->exps[idx].p) ? r->exps[idx].wire : -1, (idx < 64 && r->exps[idx].p) ? (long) r->exps[idx].n : -1);
    if (!strcmp(hook, "transaction_complete")) {
        htp_header_t *xh = tx->response_headers ? htp_table_get_c(tx->response_headers, "x-id") : NULL;
        fputs(",\"uri\":", r->out); jbstr(r->out, tx->request_uri);
        fputs(",\"xid\":", r->out); jbstr(r->out, xh ? xh->value : NULL);
    }
    if (!strcmp(hook, "transaction_complete") && r->live_every) fprintf(r->out, ",\"live\":%ld,\"liveb\":%ld", vf_live, vf_live_bytes);
    fputs("}\n", r->out);
    if (b == 100) { htp_tx_destroy(tx); return HTP_OK; }
    if (b == 101) {
        if (!strncmp(hook, "request", 7)) htp_tx_register_request_body_data(tx, tx_level_body_cb_q);
        else htp_tx_register_response_body_data(tx, tx_level_body_cb_s);
        return HTP_OK;
    }
    return b;
}

static int on_data(const char *hook, htp_tx_data_t *d) {
    rec_t *r = R;
    const char *rn, *an;
    htp_tx_t *tx = d->tx;
    if (tx == NULL) {       /* a data callback without a transaction: any callback written against the API documentation would dereference it */
        r->ncb++;
        fprintf(r->out, "{\"e\":\"NullTx\",\"n\":\"%s\",\"len\":%ld}\n", hook, (long) d->len);
        return HTP_OK;
    }
    int hi = hookidx(hook);
    note_order(r, tx, hi, 1);
    long idx = txi(tx);
    int isbody = !strcmp(hook, "request_body_data") || !strcmp(hook, "response_body_data");
    int side = !strncmp(hook, "response", 8) || !strcmp(hook, "tx_response_body_data");
    /* read every byte handed out (ASan checks the pointer), classify where it points */
    uint32_t hsh = 2166136261u;
    int inchunk = 0, match = 1;
    long moff = -1;
    if (d->data != NULL) {
        if (r->cur_p != NULL && d->data >= r->cur_p && d->data + d->len <= r->cur_p + r->cur_n) inchunk = 1;
        for (size_t i = 0; i < d->len; i++) hsh = (hsh ^ d->data[i]) * 16777619u;
        if (isbody && idx >= 0 && idx < 64) {
            exp_t *e = side ? &r->exps[idx] : &r->expq[idx];
            moff = r->bodylen[side][idx];
            if (e->p != NULL) {
                if ((size_t) moff + d->len > e->n || memcmp(e->p + moff, d->data, d->len) != 0) match = 0;
            }
            uint32_t bh = r->bodyhash[side][idx] ? r->bodyhash[side][idx] : 2166136261u;
            for (size_t i = 0; i < d->len; i++) bh = (bh ^ d->data[i]) * 16777619u;
            r->bodyhash[side][idx] = bh;
            r->bodylen[side][idx] += (long) d->len;
        }
    } else if (isbody && d->len > 0 && idx >= 0 && idx < 64) {
        r->bodylen[side][idx] += (long) d->len;          /* a stream gap inside the body: delivered as NULL data with the length of the gap */
    }
    int rp = tx->request_progress, sp = tx->response_progress;
    int b = behave(r, hook, tx, &rn, &an);
    r->ncb++;
    fprintf(r->out, "{\"e\":\"Cb\",\"n\":\"%s\",\"tx\":%ld,\"rp\":%d,\"sp\":%d,\"len\":%ld,\"nul\":%s,\"ret\":\"%s\",\"act\":\"%s\",\"inchunk\":%s,\"last\":%s,\"c100\":%d",
            hook, idx, rp, sp, (long) d->len, d->data == NULL ? "true" : "false", rn, an, inchunk ? "true" : "false", d->is_last ? "true" : "false", tx->seen_100continue);
    if (isbody) fprintf(r->out, ",\"o\":%ld,\"m\":%s", moff, match ? "true" : "false");
    if (r->cbdata && d->data != NULL) { fputs(",\"data\":", r->out); jstr(r->out, d->data, d->len); }
    fputs("}\n", r->out);
    if (b == 100 || b == 101) return HTP_OK;
    return b;
}
static int tx_level_body_cb_q(htp_tx_data_t *d) { return on_data("tx_request_body_data", d); }
static int tx_level_body_cb_s(htp_tx_data_t *d) { return on_data("tx_response_body_data", d); }

#define TXCB(n) static int cb_##n(htp_tx_t *tx) { return on_tx(#n, tx); }
#define DCB(n) static int cb_##n(htp_tx_data_t *d) { return on_data(#n, d); }
TXCB(request_start) TXCB(request_line) TXCB(request_uri_normalize) TXCB(request_headers) TXCB(request_trailer) TXCB(request_complete)
TXCB(response_start) TXCB(response_line) TXCB(response_headers) TXCB(response_trailer) TXCB(response_complete) TXCB(transaction_complete)
DCB(request_header_data) DCB(request_body_data) DCB(request_trailer_data) DCB(response_header_data) DCB(response_body_data) DCB(response_trailer_data)
static int cb_request_file_data(htp_file_data_t *fd) {
    rec_t *r = R;
    uint32_t hsh = 0;
    if (fd->data) for (size_t i = 0; i < fd->len; i++) hsh += fd->data[i];
    r->hookcount[hookidx("request_file_data")]++;
    fprintf(r->out, "{\"e\":\"Cb\",\"n\":\"request_file_data\",\"tx\":-1,\"rp\":0,\"sp\":0,\"len\":%ld,\"nul\":%s,\"ret\":\"OK\",\"act\":\"none\",\"c100\":0}\n", (long) fd->len, fd->data == NULL ? "true" : "false");
    return HTP_OK;
}
static int cb_log(htp_log_t *l) { (void) l; return HTP_OK; }

/* ---------------------------------------------------------------- configuration */
static long kv(const char *line, const char *key, long dflt) {
    char pat[64];
    snprintf(pat, sizeof pat, " %s=", key);
    const char *p = strstr(line, pat);
    if (!p) return dflt;
    return strtol(p + strlen(pat), NULL, 10);
}
static const char *kvs(const char *line, const char *key, char *buf, size_t n) {
    char pat[64];
    snprintf(pat, sizeof pat, " %s=", key);
    const char *p = strstr(line, pat);
    if (!p) return NULL;
    p += strlen(pat);
    size_t i = 0;
    while (*p && *p != ' ' && *p != '\n' && i + 1 < n) buf[i++] = *p++;
    buf[i] = 0;
    return buf;
}

static htp_cfg_t *cfg_make(const char *k) {
    htp_cfg_t *cfg = htp_config_create();
    if (cfg == NULL) return NULL;
    htp_config_set_server_personality(cfg, (enum htp_server_personality_t) kv(k, "pers", HTP_SERVER_APACHE_2));
    if (kv(k, "urlen", 1)) htp_config_register_urlencoded_parser(cfg);
    if (kv(k, "mpart", 1)) htp_config_register_multipart_parser(cfg);
    htp_config_set_tx_auto_destroy(cfg, (int) kv(k, "autod", 0));
    if (kv(k, "maxtx", -1) >= 0) htp_config_set_max_tx(cfg, (uint32_t) kv(k, "maxtx", 0));
    if (kv(k, "hard", -1) >= 0) htp_config_set_field_limits(cfg, (size_t) kv(k, "soft", 9000), (size_t) kv(k, "hard", 18000));
    htp_config_set_response_decompression(cfg, (int) kv(k, "decomp", 1));
    htp_config_set_request_decompression(cfg, (int) kv(k, "reqdecomp", 0));
    htp_config_set_parse_request_cookies(cfg, (int) kv(k, "cookies", 1));
    htp_config_set_parse_request_auth(cfg, (int) kv(k, "auth", 1));
    if (kv(k, "bomb", -1) >= 0) htp_config_set_compression_bomb_limit(cfg, (size_t) kv(k, "bomb", 0));
    if (kv(k, "layers", -1) >= 0) htp_config_set_response_decompression_layer_limit(cfg, (int) kv(k, "layers", 2));
    if (kv(k, "lzmalayers", -1) >= 0) htp_config_set_lzma_layers(cfg, (int) kv(k, "lzmalayers", 1));
    if (kv(k, "lzmamem", -1) >= 0) htp_config_set_lzma_memlimit(cfg, (size_t) kv(k, "lzmamem", 0));
    htp_config_set_compression_time_limit(cfg, 1000000);     /* the wall-clock heuristic is configured out of every run */
    if (kv(k, "loglevel", -1) >= 0) htp_config_set_log_level(cfg, (enum htp_log_level_t) kv(k, "loglevel", 0));
#define REG(n) htp_config_register_##n(cfg, cb_##n);
    REG(request_start) REG(request_line) REG(request_uri_normalize) REG(request_headers) REG(request_trailer) REG(request_complete)
    REG(response_start) REG(response_line) REG(response_headers) REG(response_trailer) REG(response_complete) REG(transaction_complete)
    REG(request_header_data) REG(request_body_data) REG(request_trailer_data) REG(response_header_data) REG(response_body_data) REG(response_trailer_data)
    REG(request_file_data)
    htp_config_register_log(cfg, cb_log);
    return cfg;
}

/* ---------------------------------------------------------------- dumps */
static const struct { uint64_t bit; const char *name; } FLAGS[] = {
    {HTP_FIELD_UNPARSEABLE, "FIELD_UNPARSEABLE"}, {HTP_FIELD_INVALID, "FIELD_INVALID"}, {HTP_FIELD_FOLDED, "FIELD_FOLDED"},
    {HTP_FIELD_REPEATED, "FIELD_REPEATED"}, {HTP_FIELD_LONG, "FIELD_LONG"}, {HTP_FIELD_RAW_NUL, "FIELD_RAW_NUL"},
    {HTP_REQUEST_SMUGGLING, "REQUEST_SMUGGLING"}, {HTP_INVALID_FOLDING, "INVALID_FOLDING"}, {HTP_REQUEST_INVALID_T_E, "REQUEST_INVALID_T_E"},
    {HTP_MULTI_PACKET_HEAD, "MULTI_PACKET_HEAD"}, {HTP_HOST_MISSING, "HOST_MISSING"}, {HTP_HOST_AMBIGUOUS, "HOST_AMBIGUOUS"},
    {HTP_PATH_ENCODED_NUL, "PATH_ENCODED_NUL"}, {HTP_PATH_RAW_NUL, "PATH_RAW_NUL"}, {HTP_PATH_INVALID_ENCODING, "PATH_INVALID_ENCODING"},
    {HTP_PATH_INVALID, "PATH_INVALID"}, {HTP_PATH_OVERLONG_U, "PATH_OVERLONG_U"}, {HTP_PATH_ENCODED_SEPARATOR, "PATH_ENCODED_SEPARATOR"},
    {HTP_PATH_UTF8_VALID, "PATH_UTF8_VALID"}, {HTP_PATH_UTF8_INVALID, "PATH_UTF8_INVALID"}, {HTP_PATH_UTF8_OVERLONG, "PATH_UTF8_OVERLONG"},
    {HTP_PATH_HALF_FULL_RANGE, "PATH_HALF_FULL_RANGE"}, {HTP_STATUS_LINE_INVALID, "STATUS_LINE_INVALID"}, {HTP_HOSTU_INVALID, "HOSTU_INVALID"},
    {HTP_HOSTH_INVALID, "HOSTH_INVALID"}, {HTP_URLEN_ENCODED_NUL, "URLEN_ENCODED_NUL"}, {HTP_URLEN_INVALID_ENCODING, "URLEN_INVALID_ENCODING"},
    {HTP_URLEN_OVERLONG_U, "URLEN_OVERLONG_U"}, {HTP_URLEN_HALF_FULL_RANGE, "URLEN_HALF_FULL_RANGE"}, {HTP_URLEN_RAW_NUL, "URLEN_RAW_NUL"},
    {HTP_REQUEST_INVALID, "REQUEST_INVALID"}, {HTP_REQUEST_INVALID_C_L, "REQUEST_INVALID_C_L"}, {HTP_AUTH_INVALID, "AUTH_INVALID"}, {0, NULL}};

static void jflags(FILE *o, uint64_t f, int skip_mph) {
    fputc('[', o);
    int k = 0;
    for (int i = 0; FLAGS[i].name; i++) {
        if (!(f & FLAGS[i].bit)) continue;
        if (skip_mph && FLAGS[i].bit == HTP_MULTI_PACKET_HEAD) continue;
        fprintf(o, k++ ? ",\"%s\"" : "\"%s\"", FLAGS[i].name);
    }
    fputc(']', o);
}
static void jheaders(FILE *o, htp_table_t *t) {
    fputc('[', o);
    if (t) for (size_t i = 0, n = htp_table_size(t); i < n; i++) {
        htp_header_t *h = htp_table_get_index(t, i, NULL);
        if (i) fputc(',', o);
        fputc('[', o); jbstr(o, h->name); fputc(',', o); jbstr(o, h->value); fputc(',', o); jflags(o, h->flags, 0); fputc(']', o);
    }
    fputc(']', o);
}
static void juri(FILE *o, htp_uri_t *u) {
    if (!u) { fputs("[]", o); return; }
    fputs("{\"scheme\":", o); jbstr(o, u->scheme); fputs(",\"username\":", o); jbstr(o, u->username); fputs(",\"password\":", o); jbstr(o, u->password);
    fputs(",\"hostname\":", o); jbstr(o, u->hostname); fputs(",\"port\":", o); jbstr(o, u->port); fprintf(o, ",\"port_number\":%d", u->port_number);
    fputs(",\"path\":", o); jbstr(o, u->path); fputs(",\"query\":", o); jbstr(o, u->query); fputs(",\"fragment\":", o); jbstr(o, u->fragment); fputc('}', o);
}
static void dump_tx(rec_t *r, FILE *o, htp_tx_t *tx, size_t slot) {
    if (tx == NULL) { fprintf(o, "{\"slot\":%zu,\"dead\":true}", slot); return; }
    fprintf(o, "{\"slot\":%zu,\"dead\":false,\"index\":%zu,\"rp\":%d,\"sp\":%d", slot, tx->index, tx->request_progress, tx->response_progress);
    fputs(",\"request_line\":", o); jbstr(o, tx->request_line);
    fputs(",\"method\":", o); jbstr(o, tx->request_method); fprintf(o, ",\"method_number\":%d", tx->request_method_number);
    fputs(",\"uri\":", o); jbstr(o, tx->request_uri); fputs(",\"protocol\":", o); jbstr(o, tx->request_protocol);
    fprintf(o, ",\"protocol_number\":%d,\"is_0_9\":%d", tx->request_protocol_number, tx->is_protocol_0_9);
    fputs(",\"parsed_uri\":", o); juri(o, tx->parsed_uri); fputs(",\"parsed_uri_raw\":", o); juri(o, tx->parsed_uri_raw);
    fputs(",\"req_headers\":", o); jheaders(o, tx->request_headers);
    fprintf(o, ",\"req_tc\":%d,\"req_ce\":%d,\"req_cl\":%ld", tx->request_transfer_coding, tx->request_content_encoding, clampl(tx->request_content_length));
    fputs(",\"req_ct\":", o); jbstr(o, tx->request_content_type);
    fputs(",\"hostname\":", o); jbstr(o, tx->request_hostname); fprintf(o, ",\"port\":%d", tx->request_port_number);
    fprintf(o, ",\"auth_type\":%d", tx->request_auth_type); fputs(",\"auth_user\":", o); jbstr(o, tx->request_auth_username);
    fputs(",\"auth_pass\":", o); jbstr(o, tx->request_auth_password);
    fputs(",\"cookies\":[", o);
    if (tx->request_cookies) for (size_t i = 0, n = htp_table_size(tx->request_cookies); i < n; i++) {
        bstr *name = NULL; bstr *v = htp_table_get_index(tx->request_cookies, i, &name);
        if (i) fputc(',', o);
        fputc('[', o); jbstr(o, name); fputc(',', o); jbstr(o, v); fputc(']', o);
    }
    fputs("],\"params\":[", o);
    if (tx->request_params) for (size_t i = 0, n = htp_table_size(tx->request_params); i < n; i++) {
        htp_param_t *p = htp_table_get_index(tx->request_params, i, NULL);
        if (i) fputc(',', o);
        fputc('[', o); jbstr(o, p->name); fputc(',', o); jbstr(o, p->value); fprintf(o, ",%d,%d]", p->source, p->parser_id);
    }
    fputs("]", o);
    fprintf(o, ",\"req_ml\":%ld,\"req_el\":%ld", clampl(tx->request_message_len), clampl(tx->request_entity_len));
    fputs(",\"response_line\":", o); jbstr(o, tx->response_line); fputs(",\"res_protocol\":", o); jbstr(o, tx->response_protocol);
    fprintf(o, ",\"res_protocol_number\":%d", tx->response_protocol_number);
    fputs(",\"status\":", o); jbstr(o, tx->response_status); fprintf(o, ",\"status_number\":%d,\"status_expected\":%d", tx->response_status_number, tx->response_status_expected_number);
    fputs(",\"message\":", o); jbstr(o, tx->response_message); fprintf(o, ",\"seen_100\":%d", tx->seen_100continue);
    fputs(",\"res_headers\":", o); jheaders(o, tx->response_headers);
    fprintf(o, ",\"res_tc\":%d,\"res_ce\":%d,\"res_cl\":%ld", tx->response_transfer_coding, tx->response_content_encoding, clampl(tx->response_content_length));
    fputs(",\"res_ct\":", o); jbstr(o, tx->response_content_type);
    fprintf(o, ",\"res_ml\":%ld,\"res_el\":%ld", clampl(tx->response_message_len), clampl(tx->response_entity_len));
    fputs(",\"flags\":", o); jflags(o, tx->flags, 1);
    fprintf(o, ",\"mph\":%s", (tx->flags & HTP_MULTI_PACKET_HEAD) ? "true" : "false");
    if (tx->request_mpartp != NULL) {
        htp_multipart_t *mp = htp_mpartp_get_multipart(tx->request_mpartp);
        fprintf(o, ",\"mp_flags\":%ld,\"mp_parts\":%zu", (long) (mp->flags & 0x7fffffff), htp_list_size(mp->parts));
    }
    long ser = txi(tx);
    fprintf(o, ",\"serial\":%ld", ser);
    if (ser >= 0 && ser < 64) {
        fprintf(o, ",\"qbody\":[%ld,%u],\"sbody\":[%ld,%u]", r->bodylen[0][ser], r->bodyhash[0][ser] & 0x7fffffff, r->bodylen[1][ser], r->bodyhash[1][ser] & 0x7fffffff);
        fputs(",\"cbq\":", o); jcstr(o, r->cborder[0][ser]); fputs(",\"cbs\":", o); jcstr(o, r->cborder[1][ser]);
    }
    fputc('}', o);
}
static long max_value_len(htp_table_t *t) {
    long m = 0;
    if (t) for (size_t i = 0, n = htp_table_size(t); i < n; i++) { htp_header_t *h = htp_table_get_index(t, i, NULL); if (h && h->value && (long) bstr_len(h->value) > m) m = (long) bstr_len(h->value); }
    return m;
}
static void dump_final(rec_t *r) {
    htp_connp_t *g = r->connp;
    /* longest header value held by any transaction (C10: folded / repeated header caps); dump=2 gives only this summary */
    long mq = 0, ms = 0;
    for (size_t i = 0, n = htp_list_size(g->conn->transactions); i < n; i++) {
        htp_tx_t *tx = htp_list_get(g->conn->transactions, i);
        if (tx == NULL) continue;
        long a = max_value_len(tx->request_headers), b = max_value_len(tx->response_headers);
        if (a > mq) mq = a;
        if (b > ms) ms = b;
    }
    fprintf(r->out, "{\"e\":\"Final\",\"pipelined\":%s,\"conn_flags\":%d,\"maxqv\":%ld,\"maxsv\":%ld,\"light\":%s,\"txs\":[", (g->conn->flags & HTP_CONN_PIPELINED) ? "true" : "false", (int) g->conn->flags,
            mq, ms, r->dump == 2 ? "true" : "false");
    for (size_t i = 0, n = htp_list_size(g->conn->transactions); r->dump != 2 && i < n && i < MAXTXS; i++) {
        if (i) fputc(',', r->out);
        dump_tx(r, r->out, htp_list_get(g->conn->transactions, i), i);
    }
    fputs("]}\n", r->out);
}

/* ---------------------------------------------------------------- API calls */
static int hexval(int c) { return c <= '9' ? c - '0' : (c | 32) - 'a' + 10; }
static size_t unhex(const char *s, unsigned char **out) {
    size_t n = 0;
    if (s[0] == '-') { *out = malloc(1); return 0; }          /* "-" = the empty byte string */
    while (s[n] && s[n] != '\n' && s[n] != ' ') n++;
    n /= 2;
    unsigned char *p = malloc(n ? n : 1);
    for (size_t i = 0; i < n; i++) p[i] = (unsigned char) (hexval(s[2 * i]) * 16 + hexval(s[2 * i + 1]));
    *out = p;
    return n;
}

static unsigned cfg_digest(const htp_cfg_t *cfg) {
    /* bytes of the configuration structure plus the callback lists it points to */
    unsigned h = 2166136261u;
    const unsigned char *p = (const unsigned char *) cfg;
    for (size_t i = 0; i < sizeof(htp_cfg_t); i++) h = (h ^ p[i]) * 16777619u;
    htp_hook_t *hooks[] = {cfg->hook_request_start, cfg->hook_request_line, cfg->hook_request_headers, cfg->hook_request_body_data, cfg->hook_request_complete,
                           cfg->hook_response_start, cfg->hook_response_line, cfg->hook_response_headers, cfg->hook_response_body_data, cfg->hook_response_complete,
                           cfg->hook_transaction_complete, cfg->hook_log, cfg->hook_request_trailer, cfg->hook_response_trailer};
    for (size_t k = 0; k < sizeof hooks / sizeof *hooks; k++) {
        if (hooks[k] == NULL) continue;
        for (size_t i = 0, n = htp_list_size(hooks[k]->callbacks); i < n; i++) {
            htp_callback_t *cb = htp_list_get(hooks[k]->callbacks, i);
            const unsigned char *q = (const unsigned char *) &cb->fn;
            for (size_t j = 0; j < sizeof cb->fn; j++) h = (h ^ q[j]) * 16777619u;
        }
    }
    return h & 0x7fffffff;
}

static void emit_ret(rec_t *r, int d, const char *rcname, long consumed) {
    htp_connp_t *g = r->connp;
    /* what a careful caller reads after every call: the last error record and the connection's message list (C18) */
    htp_log_t *le = htp_connp_get_last_error(g);
    unsigned lsum = 0;
    if (le != NULL && le->msg != NULL) for (const char *c = le->msg; *c; c++) lsum += (unsigned char) *c;
    if (g->conn != NULL && g->conn->messages != NULL)
        for (size_t i = 0, n = htp_list_size(g->conn->messages); i < n; i++) { htp_log_t *m = htp_list_get(g->conn->messages, i); if (m && m->msg) lsum += (unsigned char) m->msg[0]; }
    if (vf_fail_at > 0 && vf_count >= vf_fail_at && !r->fault_reported) {
        r->fault_reported = 1;
        fprintf(r->out, "{\"e\":\"Fault\",\"fn\":\"%s\",\"ex\":\"%s\",\"lsum\":%u}\n", vf_fail_fn, "", lsum & 0xffff);
        fflush(r->out);
    }
    fprintf(r->out, "{\"e\":\"Ret\",\"d\":\"%s\",\"rc\":\"%s\",\"consumed\":%ld,\"ist\":\"%s\",\"ost\":\"%s\",\"ntx\":%zu,\"onti\":%zu,\"in_tx\":%ld,\"out_tx\":%ld,"
            "\"ibuf\":%zu,\"ihdr\":%zu,\"obuf\":%zu,\"ohdr\":%zu,\"inc\":%ld,\"outc\":%ld,\"live\":%ld,\"liveb\":%ld,\"allocs\":%ld,\"cfgd\":%u}\n",
            d == 0 ? "req" : d == 1 ? "res" : "both", rcname, consumed, stn(g->in_status), stn(g->out_status),
            htp_list_size(g->conn->transactions), g->out_next_tx_index, txi(g->in_tx), txi(g->out_tx),
            g->in_buf ? g->in_buf_size : 0, g->in_header ? bstr_len(g->in_header) : 0, g->out_buf ? g->out_buf_size : 0, g->out_header ? bstr_len(g->out_header) : 0,
            clampl(g->conn->in_data_counter), clampl(g->conn->out_data_counter), r->nolive ? 0 : vf_live, r->nolive ? 0 : vf_live_bytes, r->nolive ? 0 : vf_count,
            r->cfg ? cfg_digest(r->cfg) : 0);
}

/* one API data call; returns the stream state, *cons = bytes consumed */
/* ---------------------------------------------------------------- hybrid-mode API (htp_tx_state_* / htp_tx_re[qs]_set_*): scenario lines "H <op> <tx> [hex] [hex]" */
static __thread htp_tx_t *hy_tx[64];
static int tx_listed(htp_connp_t *g, const htp_tx_t *tx) {
    for (size_t i = 0, n = htp_list_size(g->conn->transactions); i < n; i++) if (htp_list_get(g->conn->transactions, i) == tx) return 1;
    return 0;
}
static void hybrid_op(rec_t *r, const char *l) {
    char op[32]; int n = -1, pos = 0;
    if (sscanf(l, "%31s %d %n", op, &n, &pos) < 2 || n < 0 || n >= 64) return;
    unsigned char *a = NULL, *b = NULL; size_t al = 0, bl = 0;
    const char *rest = l + pos;
    if (*rest && *rest != '\n') { al = unhex(rest, &a); const char *sp = strchr(rest, ' '); if (sp && sp[1] && sp[1] != '\n') bl = unhex(sp + 1, &b); }
    htp_connp_t *g = r->connp;
    htp_tx_t *tx = hy_tx[n];
    fprintf(r->out, "{\"e\":\"HCall\",\"op\":\"%s\",\"tx\":%d,\"len\":%zu}\n", op, n, al);
    int rc = HTP_OK, known = 1;
    if (!strcmp(op, "create")) { tx = hy_tx[n] = htp_connp_tx_create(g); rc = tx ? HTP_OK : HTP_ERROR; if (tx) (void) txi(tx); }
    else if (tx == NULL) { rc = HTP_ERROR; known = 0; }
    else if (!strcmp(op, "qstart")) rc = htp_tx_state_request_start(tx);
    else if (!strcmp(op, "qsetline")) rc = htp_tx_req_set_line(tx, (const char *) a, al, HTP_ALLOC_COPY);
    else if (!strcmp(op, "qline")) rc = htp_tx_state_request_line(tx);
    else if (!strcmp(op, "qhdr")) rc = htp_tx_req_set_header(tx, (const char *) a, al, (const char *) b, bl, HTP_ALLOC_COPY);
    else if (!strcmp(op, "qheaders")) rc = htp_tx_state_request_headers(tx);
    else if (!strcmp(op, "qbody")) rc = htp_tx_req_process_body_data(tx, a, al);
    else if (!strcmp(op, "qcomplete")) rc = htp_tx_state_request_complete(tx);
    else if (!strcmp(op, "sstart")) rc = htp_tx_state_response_start(tx);
    else if (!strcmp(op, "ssetline")) rc = htp_tx_res_set_status_line(tx, (const char *) a, al, HTP_ALLOC_COPY);
    else if (!strcmp(op, "sline")) rc = htp_tx_state_response_line(tx);
    else if (!strcmp(op, "shdr")) rc = htp_tx_res_set_header(tx, (const char *) a, al, (const char *) b, bl, HTP_ALLOC_COPY);
    else if (!strcmp(op, "sheaders")) rc = htp_tx_state_response_headers(tx);
    else if (!strcmp(op, "sbody")) rc = htp_tx_res_process_body_data(tx, a, al);
    else if (!strcmp(op, "scomplete")) rc = htp_tx_state_response_complete(tx);
    else known = 0;
    int live = tx != NULL && tx_listed(g, tx);
    if (tx != NULL && !live) hy_tx[n] = NULL;           /* disposed of (auto-destroy): never touched again */
    fprintf(r->out, "{\"e\":\"HRet\",\"op\":\"%s\",\"tx\":%d,\"rc\":\"%s\",\"known\":%s,\"live\":%s,\"rp\":%d,\"sp\":%d,\"in_tx\":%ld,\"out_tx\":%ld,\"ntx\":%zu,\"pipelined\":%s,\"mn\":%d,\"p09\":%s,\"tc\":%d,\"cl\":%ld,\"st\":%d,\"dec\":%s,\"qdec\":%s}\n",
            op, n, rcn(rc), known ? "true" : "false", live ? "true" : "false", live ? (int) tx->request_progress : -1, live ? (int) tx->response_progress : -1,
            txi(g->in_tx), txi(g->out_tx), htp_list_size(g->conn->transactions), (g->conn->flags & HTP_CONN_PIPELINED) ? "true" : "false",
            live ? (int) tx->request_method_number : -1, live && tx->is_protocol_0_9 ? "true" : "false", live ? (int) tx->request_transfer_coding : -1,
            live ? clampl(tx->request_content_length) : -1, live ? tx->response_status_number : -1, g->out_decompressor ? "true" : "false", g->req_decompressor ? "true" : "false");
    free(a); free(b);
}

static int api_data(rec_t *r, int d, const unsigned char *src, size_t n, int gap, size_t *cons) {
    htp_connp_t *g = r->connp;
    unsigned char *p = NULL;
    if (!gap) { p = malloc(n ? n : 1); memcpy(p, src, n); }      /* exact-size copy, freed right after the call */
    fprintf(r->out, "{\"e\":\"Call\",\"d\":\"%s\",\"k\":\"%s\",\"len\":%zu,\"off\":%ld}\n", d ? "res" : "req", gap ? "gap" : "data", n, r->off[d]);
    if (g_gate) g_gate(r);
    r->cur_p = p; r->cur_n = n; r->cur_dir = d;
    int rc = d ? htp_connp_res_data(g, NULL, p, n) : htp_connp_req_data(g, NULL, p, n);
    *cons = d ? htp_connp_res_data_consumed(g) : htp_connp_req_data_consumed(g);
    r->cur_p = NULL; r->cur_n = 0;
    free(p);
    emit_ret(r, d, stn(rc), (long) *cons);
    if (r->freed) htp_connp_tx_freed(g);
    if (g_gate_done) g_gate_done(r);
    return rc;
}

typedef struct { unsigned char *p; size_t n; int d; int gap; } chunk_t;

static void run_scenario(rec_t *r, char **lines, int nl, const char *name, int pid) {
    char kline[1024] = " ";
    /* pass 1: configuration, behaviours, expectations */
    memset(r->hookcount, 0, sizeof r->hookcount); r->nbeh = 0; r->ncb = 0; r->stall = 0;
    memset(r->expq, 0, sizeof r->expq); memset(r->exps, 0, sizeof r->exps);
    memset(r->bodyhash, 0, sizeof r->bodyhash); memset(r->bodylen, 0, sizeof r->bodylen);
    memset(r->cbolen, 0, sizeof r->cbolen); for (int i = 0; i < 64; i++) r->cborder[0][i][0] = r->cborder[1][i][0] = 0;
    r->off[0] = r->off[1] = 0; r->pid = pid; g_serial = 0; r->fault_reported = 0; memset(hy_tx, 0, sizeof hy_tx);
    for (int i = 0; i < nl; i++) {
        char *l = lines[i];
        if (l[0] == 'K') { strncat(kline, l + 1, sizeof kline - strlen(kline) - 2); size_t m = strlen(kline); if (m && kline[m - 1] == '\n') kline[m - 1] = ' '; }
        else if (l[0] == 'B' && r->nbeh < MAXB) {
            char nth[16];
            if (sscanf(l + 1, "%39s %15s %15s", r->beh[r->nbeh].hook, nth, r->beh[r->nbeh].action) == 3) { r->beh[r->nbeh].nth = nth[0] == '*' ? 0 : atol(nth); r->nbeh++; }
        } else if (l[0] == 'X') {
            char dir; int idx; int pos = 0;
            if (sscanf(l + 1, " %c %d %n", &dir, &idx, &pos) >= 2 && idx >= 0 && idx < 64) {
                exp_t *e = dir == '>' ? &r->expq[idx] : &r->exps[idx];
                e->n = unhex(l + 1 + pos, &e->p);
                const char *w = strchr(l + 1 + pos, ' ');
                e->wire = w ? atol(w + 1) : -1;
            }
        }
    }
    r->steps = (int) kv(kline, "steps", 0); r->dump = (int) kv(kline, "dump", 0); r->freed = (int) kv(kline, "freed", 0);
    r->cfgdecomp = (int) kv(kline, "decomp", 1); r->cfgreqdecomp = (int) kv(kline, "reqdecomp", 0);
    r->maxcb = kv(kline, "maxcb", 400000);
    alarm((unsigned) kv(kline, "maxsec", 300));
    r->cbdata = (int) kv(kline, "cbdata", 0); r->live_every = (int) kv(kline, "livetx", 0);
    char mode[16] = "proto"; kvs(kline, "mode", mode, sizeof mode); r->raw = !strcmp(mode, "raw");
    char rolebuf[16] = "", fambuf[128] = "";
    r->nolive = (int) kv(kline, "nolive", 0);
    if (!kv(kline, "nolive", 0)) { vf_count = 0; vf_fail_at = kv(kline, "failat", -1); }     /* not touched when several parsers run at once (C19) */
    long live0 = kv(kline, "nolive", 0) ? 0 : vf_live;
    fprintf(r->out, "{\"e\":\"Reset\",\"run\":\"%s\",\"p\":%d,\"cfg\":{\"autod\":%s,\"maxtx\":%ld,\"hard\":%ld,\"mode\":\"%s\",\"wf\":%s,\"ids\":%s,\"n\":%ld,\"pers\":%ld,\"failat\":%ld,\"pumpdir\":\"%s\",\"pumpstart\":%ld,\"role\":\"%s\",\"idx\":%ld,\"fam\":\"%s\",\"bomb\":%ld,\"cls\":\"",
            name, pid, kv(kline, "autod", 0) ? "true" : "false", kv(kline, "maxtx", 0), kv(kline, "hard", 18000), mode,
            kv(kline, "wf", 0) ? "true" : "false", kv(kline, "ids", 0) ? "true" : "false", kv(kline, "n", -1), kv(kline, "pers", 9), vf_fail_at,
            kv(kline, "pumpdir", -1) == 0 ? "req" : kv(kline, "pumpdir", -1) == 1 ? "res" : "none", kv(kline, "pumpstart", 0),
            kvs(kline, "role", rolebuf, sizeof rolebuf) ? rolebuf : "", kv(kline, "idx", 0), kvs(kline, "fam", fambuf, sizeof fambuf) ? fambuf : "", kv(kline, "bomb", 1048576));
    char cls[64] = ""; kvs(kline, "cls", cls, sizeof cls); fputs(cls, r->out); fputs("\"}}\n", r->out);
    fflush(r->out);       /* the Reset record survives a crash inside the scenario */
    int own_cfg = g_shared_cfg == NULL || kv(kline, "owncfg", 0);
    r->cfg = own_cfg ? cfg_make(kline) : g_shared_cfg;
    r->connp = r->cfg ? htp_connp_create(r->cfg) : NULL;
    int created = r->connp != NULL;
    if (created) htp_connp_open(r->connp, "1.1.1.1", 1000, "2.2.2.2", 80, NULL);
    fprintf(r->out, "{\"e\":\"Open\",\"ok\":%s}\n", created ? "true" : "false");
    if (vf_fail_at > 0 && vf_count >= vf_fail_at) { r->fault_reported = 1; fprintf(r->out, "{\"e\":\"Fault\",\"fn\":\"%s\",\"ex\":\"\",\"lsum\":0}\n", vf_fail_fn); }
    /* pass 2: arrivals */
    static __thread chunk_t *q[2]; static __thread int qcap;
    if (!q[0]) { qcap = 1 << 16; q[0] = malloc(sizeof(chunk_t) * qcap); q[1] = malloc(sizeof(chunk_t) * qcap); }
    int qh[2] = {0, 0}, qt[2] = {0, 0}, blocked[2] = {0, 0}; size_t coff[2] = {0, 0};
    int closed = 0;
    for (int i = 0; i < nl && created; i++) {
        char *l = lines[i];
        int arrival = 0;
        chunk_t c; memset(&c, 0, sizeof c);
        if (l[0] == '>' || l[0] == '<') { c.d = l[0] == '<'; c.n = unhex(l + 2, &c.p); arrival = c.n > 0; if (!arrival) free(c.p); }
        else if (l[0] == 'g' && (l[1] == '>' || l[1] == '<')) { c.d = l[1] == '<'; c.gap = 1; c.n = (size_t) atol(l + 3); c.p = NULL; arrival = c.n > 0; }
        else if (l[0] == 'D') {
            size_t idx = (size_t) atol(l + 1);
            htp_tx_t *tx = htp_list_get(r->connp->conn->transactions, idx);
            int ok = tx != NULL && htp_tx_is_complete(tx);
            fprintf(r->out, "{\"e\":\"Destroy\",\"tx\":%zu,\"done\":%s}\n", idx, ok ? "true" : "false");
            if (ok) htp_tx_destroy(tx);
        } else if (l[0] == 'H' && l[1] == ' ') {
            hybrid_op(r, l + 2);
        } else if (l[0] == 'C') {
            fprintf(r->out, "{\"e\":\"Call\",\"d\":\"both\",\"k\":\"close\",\"len\":0,\"off\":0}\n");
            if (g_gate) g_gate(r);
            htp_connp_close(r->connp, NULL);
            emit_ret(r, 2, "-", 0);
            if (g_gate_done) g_gate_done(r);
            closed = 1;
        }
        if (!arrival) continue;
        if (r->raw) {
            size_t cons;
            int rc = api_data(r, c.d, c.p, c.n, c.gap, &cons);
            (void) rc;
            r->off[c.d] += (long) c.n;
            free(c.p);
            continue;
        }
        if (qt[c.d] >= qcap) { free(c.p); continue; }
        q[c.d][qt[c.d]++] = c;
        int zero_rounds = 0;
        for (;;) {
            int progressed = 0, fed = 0;
            for (int d = 0; d < 2; d++) {
                if (d == 1 && blocked[1] && qh[0] >= qt[0]) blocked[1] = 0;    /* QUICK_START 2.2.7 */
                while (qh[d] < qt[d] && !blocked[d]) {
                    chunk_t *h = &q[d][qh[d]];
                    size_t cons;
                    int rc = api_data(r, d, h->gap ? NULL : h->p + coff[d], h->n - coff[d], h->gap, &cons);
                    fed = 1; blocked[1 - d] = 0;
                    if (rc == HTP_STREAM_DATA_OTHER) {
                        if (cons > h->n - coff[d]) cons = h->n - coff[d];
                        coff[d] += cons; r->off[d] += (long) cons; blocked[d] = 1;
                        if (cons > 0) progressed = 1;
                    } else { r->off[d] += (long) (h->n - coff[d]); free(h->p); h->p = NULL; qh[d]++; coff[d] = 0; progressed = 1; }
                }
            }
            if (!fed) break;
            if (!progressed) { if (++zero_rounds > 2) { r->stall = 1; break; } } else zero_rounds = 0;
        }
        if (r->stall) break;
    }
    long leftq = 0, lefts = 0;
    for (int d = 0; d < 2; d++) for (int i = qh[d]; i < qt[d]; i++) { if (d) lefts += (long) q[d][i].n; else leftq += (long) q[d][i].n; free(q[d][i].p); }
    leftq -= (long) coff[0] < leftq ? (long) coff[0] : 0; lefts -= (long) coff[1] < lefts ? (long) coff[1] : 0;
    if (created && r->dump) dump_final(r);
    long ntx = created ? (long) htp_list_size(r->connp->conn->transactions) : 0;
    if (created) htp_connp_destroy_all(r->connp);
    if (r->cfg && own_cfg) htp_config_destroy(r->cfg);
    if (vf_fail_at > 0 && vf_count >= vf_fail_at && !r->fault_reported) fprintf(r->out, "{\"e\":\"Fault\",\"fn\":\"%s\",\"ex\":\"\",\"lsum\":0}\n", vf_fail_fn);
    if (!r->nolive) vf_fail_at = -1;
    r->connp = NULL; r->cfg = NULL;
    for (int i = 0; i < 64; i++) { free(r->expq[i].p); free(r->exps[i].p); r->expq[i].p = r->exps[i].p = NULL; }
    fprintf(r->out, "{\"e\":\"End\",\"live\":%ld,\"san\":false,\"what\":\"\",\"stall\":%s,\"leftq\":%ld,\"lefts\":%ld,\"closed\":%s,\"ntx\":%ld,\"nser\":%ld,\"ncb\":%ld,\"allocs\":%ld,\"failfn\":\"%s\"}\n",
            r->nolive ? 0 : vf_live - live0, r->stall ? "true" : "false", leftq, lefts, closed ? "true" : "false", ntx, g_serial, r->ncb, r->nolive ? 0 : vf_count,
            (vf_fail_at > 0 && vf_count >= vf_fail_at) ? vf_fail_fn : "");
    fflush(r->out);
}

#ifndef REC_NO_MAIN
int main(int argc, char **argv) {
    if (argc < 2) { fprintf(stderr, "usage: rec <scenarios> [first] [count]\n"); return 2; }
    FILE *f = fopen(argv[1], "r");
    if (!f) { perror(argv[1]); return 2; }
    long first = argc > 2 ? atol(argv[2]) : 0, count = argc > 3 ? atol(argv[3]) : -1;
    static rec_t rec;
    rec.out = stdout;
    R = &rec;
    htp_verif_sink = sink;
    signal(SIGALRM, on_alarm);
    static char buf[1 << 22];
    setvbuf(stdout, NULL, _IOFBF, 1 << 20);
    char **lines = NULL; int nl = 0, cap = 0; char name[256] = ""; long idx = -1, done = 0;
    char *line = NULL; size_t lcap = 0;
    (void) buf;
    while (getline(&line, &lcap, f) > 0) {
        if (line[0] == 'S') {
            idx++; nl = 0;
            sscanf(line + 1, "%255s", name);
        } else if (line[0] == 'E') {
            if (idx >= first && (count < 0 || done < count)) {
                fprintf(stderr, "@%ld\n", idx); fflush(stderr);          /* progress marker: lets the runner find a crashing scenario */
                run_scenario(&rec, lines, nl, name, 1);
                done++;
            }
            for (int i = 0; i < nl; i++) free(lines[i]);
            nl = 0;
        } else if (idx >= first) {
            if (nl >= cap) { cap = cap ? cap * 2 : 64; lines = realloc(lines, sizeof(char *) * (size_t) cap); }
            lines[nl++] = strdup(line);
        }
    }
    return 0;
}
#endif
