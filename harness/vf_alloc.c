/* Counting / fault-injecting allocator behind vf_alloc.h.  Always compiled into libhtp.a so that
 * harnesses can reference the counters in every flavour (they stay 0 when nothing is renamed). */
#define VF_ALLOC_IMPL
#include "vf_alloc.h"
#include <stdio.h>
#include <malloc.h>
long vf_count = 0, vf_fail_at = -1, vf_live = 0, vf_live_bytes = 0, vf_moved = 0;
const char *vf_fail_fn = "", *vf_fail_ex = "";
#if defined(__SANITIZE_ADDRESS__)
/* the failing site = the nearest caller frames outside the generic helpers (bstr.c, htp_list.c, htp_table.c), symbolised by
 * the sanitizer runtime: stable under line shifts, specific enough to key a known finding */
extern void __sanitizer_symbolize_pc(void *pc, const char *fmt, char *out_buf, unsigned long out_buf_size);
static char site_buf[256];
static int generic(const char *f) { return !strncmp(f, "bstr_", 5) || !strncmp(f, "htp_list_", 9) || !strncmp(f, "htp_table_add", 13) || !strncmp(f, "_htp_table_add", 14) || !strncmp(f, "vf_", 3) || !strcmp(f, "tick") || !strcmp(f, "site"); }
#include <execinfo.h>
static const char *site(const char *fn) {
    void *pcs[12];
    int depth = backtrace(pcs, 12);
    size_t n = 0; int kept = 0;
    site_buf[0] = 0;
    for (int i = 0; i < depth && kept < 2; i++) {
        char f[96] = "";
        __sanitizer_symbolize_pc((char *) pcs[i] - 1, "%f", f, sizeof f);
        if (f[0] == 0 || f[0] == '<' || (f[0] == '_' && f[1] == '_') || generic(f) || !strcmp(f, "main") || !strcmp(f, "run_scenario")) continue;
        n += (size_t) snprintf(site_buf + n, sizeof site_buf - n, kept ? "<%s" : "%s", f);
        kept++;
    }
    return kept ? site_buf : fn;
}
#else
static const char *site(const char *fn) { return fn; }
#endif
static int tick(const char *fn, const char *ex) {
    vf_count++;
    if (vf_count == vf_fail_at) { vf_fail_fn = site(fn); vf_fail_ex = ex; return 1; }
    return 0;
}
static void *in(void *p) { if (p) { vf_live++; vf_live_bytes += (long) malloc_usable_size(p); } return p; }
static void out(void *p) { if (p) { vf_live--; vf_live_bytes -= (long) malloc_usable_size(p); } }
void *vf_malloc(size_t n, const char *fn, const char *ex) { if (tick(fn, ex)) return NULL; return in(malloc(n)); }
void *vf_calloc(size_t a, size_t b, const char *fn, const char *ex) { if (tick(fn, ex)) return NULL; return in(calloc(a, b)); }
void *vf_realloc(void *q, size_t n, const char *fn, const char *ex) {
    if (tick(fn, ex)) return NULL;
    size_t old = q ? malloc_usable_size(q) : 0;
    void *p = realloc(q, n);
    /* bytes are charged as moved only when the block really moved (an in-place extension copies nothing) */
    if (p) { if (q) { vf_live--; vf_live_bytes -= (long) old; if (p != q) vf_moved += (long) (old < n ? old : n); } in(p); }
    return p;
}
char *vf_strdup(const char *s, const char *fn, const char *ex) { if (tick(fn, ex)) return NULL; return in(strdup(s)); }
void vf_free(void *p) { out(p); free(p); }
void *vf_memcpy(void *d, const void *s, size_t n) { vf_moved += (long) n; return memcpy(d, s, n); }
void *vf_memmove(void *d, const void *s, size_t n) { vf_moved += (long) n; return memmove(d, s, n); }
int vf_gettimeofday(struct timeval *tv, void *tz) { (void) tz; if (tv) { tv->tv_sec = 1000000; tv->tv_usec = 0; } return 0; }
