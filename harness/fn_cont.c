/* C17 recorder for containers: replays every operation sequence of a bounded alphabet on htp_list_array_* / htp_table_* and
 * records the result of each operation plus a full snapshot (through the public getters) after each operation.
 *   fn_cont list <depth> <shard> <nshards>     fn_cont table <depth> <shard> <nshards>     fn_cont rand <seed> <count>  */
#include <stdio.h>
#include <stdlib.h>
#include <string.h>
#include <stdint.h>
#include "htp/htp.h"
#include "htp/htp_private.h"

static const char *LOPS[] = {"push", "pop", "shift", "replace", "clear", "get"};
static void lsnap(htp_list_array_t *l) {
    putchar('[');
    size_t n = htp_list_array_size(l);
    for (size_t i = 0; i < n; i++) printf(i ? ",%ld" : "%ld", (long) (intptr_t) htp_list_array_get(l, i));
    putchar(']');
}
static void list_row(int cap, const int *ops, int d) {
    htp_list_array_t *l = htp_list_array_create((size_t) cap);
    printf("{\"t\":\"list\",\"cap\":%d,\"ops\":[", cap);
    /* first pass: print ops with their arguments (index argument depends on the size at that moment) */
    static long res[64]; static char sres[64][12]; static size_t idx[64];
    char *snaps = malloc(1 << 16); size_t sl = 0; snaps[0] = 0;
    for (int k = 0; k < d; k++) {
        size_t n = htp_list_array_size(l);
        int op = ops[k];
        size_t i = (op == 3) ? n / 2 : (op == 5 ? (n ? n - 1 : 0) : 0);
        idx[k] = i; sres[k][0] = 0; res[k] = 0;
        switch (op) {
            case 0: strcpy(sres[k], htp_list_array_push(l, (void *) (intptr_t) (k + 1)) == HTP_OK ? "OK" : "ERROR"); break;
            case 1: res[k] = (long) (intptr_t) htp_list_array_pop(l); break;
            case 2: res[k] = (long) (intptr_t) htp_list_array_shift(l); break;
            case 3: { htp_status_t rc = htp_list_array_replace(l, i, (void *) (intptr_t) (k + 1)); strcpy(sres[k], rc == HTP_OK ? "OK" : rc == HTP_DECLINED ? "DECLINED" : "ERROR"); break; }
            case 4: htp_list_array_clear(l); strcpy(sres[k], "OK"); break;
            case 5: res[k] = (long) (intptr_t) htp_list_array_get(l, i); break;
        }
        printf("%s{\"op\":\"%s\",\"i\":%zu,\"v\":%d}", k ? "," : "", LOPS[op], i, k + 1);
        /* snapshot after the op */
        size_t m = htp_list_array_size(l);
        sl += (size_t) sprintf(snaps + sl, "%s[", k ? "," : "");
        for (size_t j = 0; j < m; j++) sl += (size_t) sprintf(snaps + sl, j ? ",%ld" : "%ld", (long) (intptr_t) htp_list_array_get(l, j));
        sl += (size_t) sprintf(snaps + sl, "]");
    }
    printf("],\"res\":[");
    for (int k = 0; k < d; k++) { if (k) putchar(','); if (sres[k][0]) printf("\"%s\"", sres[k]); else printf("%ld", res[k]); }
    printf("],\"snaps\":[%s],\"oob\":%ld}\n", snaps, (long) (intptr_t) htp_list_array_get(l, htp_list_array_size(l)));
    free(snaps);
    htp_list_array_destroy(l);
}

static const char *KEYS[] = {"a", "A", "b", "ab"};
static void pkey(const unsigned char *p, size_t n) { putchar('['); for (size_t i = 0; i < n; i++) printf(i ? ",%d" : "%d", p[i]); putchar(']'); }
static void table_row(int kind, int cap, const int *ops, int d) {
    /* ops: 0 add "a", 1 add "A", 2 add "b", 3 add "a\0b" (NUL inside the stored key), 4 clear */
    static const unsigned char K3[] = {'a', 0, 'b'};
    htp_table_t *t = htp_table_create((size_t) cap);
    bstr *owned[64]; int no = 0;
    printf("{\"t\":\"table\",\"kind\":%d,\"cap\":%d,\"ops\":[", kind, cap);
    char *snaps = malloc(1 << 18); size_t sl = 0; snaps[0] = 0;
    char *looks = malloc(1 << 16); size_t ll = 0; looks[0] = 0;
    for (int k = 0; k < d; k++) {
        int op = ops[k];
        if (op < 4) {
            const unsigned char *kb = op == 3 ? K3 : (const unsigned char *) (op == 0 ? "a" : op == 1 ? "A" : "b");
            size_t kl = op == 3 ? 3 : 1;
            printf("%s{\"op\":\"add\",\"v\":%d,\"k\":", k ? "," : "", k + 1); pkey(kb, kl); printf("}");
            bstr *key = bstr_dup_mem(kb, kl);
            if (kind == 0) { htp_table_add(t, key, (void *) (intptr_t) (k + 1)); bstr_free(key); }      /* add copies the key */
            else if (kind == 1) { htp_table_addn(t, key, (void *) (intptr_t) (k + 1)); }                      /* addn: the table adopts the key */
            else { htp_table_addk(t, key, (void *) (intptr_t) (k + 1)); owned[no++] = key; }                   /* addk: the key stays ours */
        } else {
            printf("%s{\"op\":\"clear\",\"v\":0,\"k\":[]}", k ? "," : "");
            htp_table_clear(t);
            for (int j = 0; j < no; j++) bstr_free(owned[j]);
            no = 0;
        }
        size_t n = htp_table_size(t);
        sl += (size_t) sprintf(snaps + sl, "%s[", k ? "," : "");
        for (size_t j = 0; j < n; j++) {
            bstr *key = NULL; void *v = htp_table_get_index(t, j, &key);
            sl += (size_t) sprintf(snaps + sl, "%s[[", j ? "," : "");
            for (size_t x = 0; x < bstr_len(key); x++) sl += (size_t) sprintf(snaps + sl, x ? ",%d" : "%d", bstr_ptr(key)[x]);
            sl += (size_t) sprintf(snaps + sl, "],%ld]", (long) (intptr_t) v);
        }
        sl += (size_t) sprintf(snaps + sl, "]");
        ll += (size_t) sprintf(looks + ll, "%s[", k ? "," : "");
        for (int q = 0; q < 4; q++) {
            bstr *bk = bstr_dup_c(KEYS[q]);
            ll += (size_t) sprintf(looks + ll, "%s[%ld,%ld,%ld]", q ? "," : "", (long) (intptr_t) htp_table_get_c(t, KEYS[q]), (long) (intptr_t) htp_table_get(t, bk),
                                   (long) (intptr_t) htp_table_get_mem(t, KEYS[q], strlen(KEYS[q])));
            bstr_free(bk);
        }
        ll += (size_t) sprintf(looks + ll, "]");
    }
    printf("],\"snaps\":[%s],\"looks\":[%s]}\n", snaps, looks);
    free(snaps); free(looks);
    htp_table_destroy(t);
    for (int j = 0; j < no; j++) bstr_free(owned[j]);
}

int main(int argc, char **argv) {
    int ops[64];
    if (argc >= 5 && (!strcmp(argv[1], "list") || !strcmp(argv[1], "table"))) {
        int islist = argv[1][0] == 'l';
        int depth = atoi(argv[2]), shard = atoi(argv[3]), nsh = atoi(argv[4]);
        int nops = islist ? 4 : 5;
        long total = 1;
        for (int i = 0; i < depth; i++) total *= nops;
        for (long v = 0; v < total; v++) {
            if (v % nsh != shard) continue;
            long t = v;
            for (int i = depth - 1; i >= 0; i--) { ops[i] = (int) (t % nops); t /= nops; }
            if (islist) { for (int cap = 1; cap <= 3; cap++) list_row(cap, ops, depth); }
            else { for (int kind = 0; kind < 3; kind++) table_row(kind, 1 + (int) (v % 2), ops, depth); }
        }
    } else if (argc >= 4 && !strcmp(argv[1], "rand")) {
        srand((unsigned) atoi(argv[2]) * 2654435761u + 3);
        int count = atoi(argv[3]);
        for (int n = 0; n < count; n++) {
            int d = 20 + rand() % 40;
            /* phases of growth and drain so that wrap-around and growth at every first/last combination are hit */
            int bias = rand() % 3;
            for (int i = 0; i < d; i++) { int r = rand() % 10; ops[i] = bias == 0 ? (r < 6 ? 0 : r < 8 ? 2 : r < 9 ? 1 : 3) : bias == 1 ? (r < 4 ? 0 : r < 8 ? 2 : r < 9 ? 5 : 3) : (r < 5 ? 0 : r < 7 ? 1 : r < 9 ? 2 : 4); }
            list_row(1 + rand() % 8, ops, d);
        }
    }
    return 0;
}
