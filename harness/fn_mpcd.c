/* C14 recorder: Content-Disposition values of a single multipart part through the real multipart parser; reports the header value
 * as the part has it, the part's name and file name and the three Content-Disposition indicators.
 *   fn_mpcd exh <maxatoms> <shard> <nshards>   |   fn_mpcd rand <seed> <count>                                                 */
#include <stdio.h>
#include <stdlib.h>
#include <string.h>
#include "htp/htp.h"
#include "htp/htp_private.h"

static void pbytes(const unsigned char *p, size_t n) { putchar('['); for (size_t i = 0; i < n; i++) printf(i ? ",%d" : "%d", p[i]); putchar(']'); }
static void popt(const bstr *b) { if (b == NULL) printf("[]"); else { putchar('['); pbytes(bstr_ptr(b), bstr_len(b)); putchar(']'); } }
static htp_cfg_t *cfg;

static void one(const unsigned char *v, size_t n) {
    htp_mpartp_t *mp = htp_mpartp_create(cfg, bstr_dup_c("BB"), 0);
    unsigned char doc[900]; size_t l = 0;
    l += (size_t) sprintf((char *) doc, "--BB\r\nContent-Disposition: ");
    memcpy(doc + l, v, n); l += n;
    l += (size_t) sprintf((char *) doc + l, "\r\n\r\nx\r\n--BB--\r\n");
    htp_mpartp_parse(mp, doc, l);
    htp_mpartp_finalize(mp);
    htp_multipart_t *m = htp_mpartp_get_multipart(mp);
    htp_multipart_part_t *p = htp_list_size(m->parts) > 0 ? htp_list_get(m->parts, 0) : NULL;
    htp_header_t *h = (p && p->headers) ? htp_table_get_c(p->headers, "content-disposition") : NULL;
    printf("{\"raw\":"); pbytes(v, n);
    printf(",\"got\":%s,\"hv\":", h ? "true" : "false"); if (h) pbytes(bstr_ptr(h->value), bstr_len(h->value)); else printf("[]");
    printf(",\"name\":"); popt(p ? p->name : NULL);
    printf(",\"file\":"); popt((p && p->file) ? p->file->filename : NULL);
    printf(",\"flags\":["); int k = 0;
    if (m->flags & HTP_MULTIPART_CD_SYNTAX_INVALID) printf(k++ ? ",\"CD_SYNTAX_INVALID\"" : "\"CD_SYNTAX_INVALID\"");
    if (m->flags & HTP_MULTIPART_CD_PARAM_REPEATED) printf(k++ ? ",\"CD_PARAM_REPEATED\"" : "\"CD_PARAM_REPEATED\"");
    if (m->flags & HTP_MULTIPART_CD_PARAM_UNKNOWN) printf(k++ ? ",\"CD_PARAM_UNKNOWN\"" : "\"CD_PARAM_UNKNOWN\"");
    printf("],\"nparts\":%zu}\n", htp_list_size(m->parts));
    htp_mpartp_destroy(mp);
}

static const char *PFX[] = {"form-data", "form-data ", "Form-Data", "form-dat", "attachment"};
#define NPFX 5
static const char *ATOMS[] = {";", " ", "name", "filename", "nam", "=", "\"", "\\\"", "\\\\", "\\", "a", "x y", "\t"};
#define NATOMS 13

int main(int argc, char **argv) {
    cfg = htp_config_create();
    unsigned char in[700];
    if (argc >= 5 && !strcmp(argv[1], "exh")) {
        int maxa = atoi(argv[2]), shard = atoi(argv[3]), nsh = atoi(argv[4]);
        long idx = 0;
        for (int p = 0; p < NPFX; p++) for (int na = 0; na <= maxa; na++) {
            long total = 1; for (int i = 0; i < na; i++) total *= NATOMS;
            for (long v = 0; v < total; v++, idx++) {
                if (idx % nsh != shard) continue;
                size_t l = strlen(PFX[p]); memcpy(in, PFX[p], l);
                long t = v; int pick[8];
                for (int i = na - 1; i >= 0; i--) { pick[i] = (int) (t % NATOMS); t /= NATOMS; }
                for (int i = 0; i < na; i++) { size_t al = strlen(ATOMS[pick[i]]); memcpy(in + l, ATOMS[pick[i]], al); l += al; }
                one(in, l);
            }
        }
    } else if (argc >= 4 && !strcmp(argv[1], "rand")) {
        /* whole parameters as building blocks: well-formed and nearly well-formed lists */
        static const char *BL[] = {"; name=\"n\"", ";name=\"a\\\"b\"", "; filename=\"f.txt\"", ";filename=\"C:\\\\tmp\\\\\"", "; name = \"sp\"", ";\tname\t=\t\"tab\"", "; x=\"y\"", "; name=\"\"",
                                   "; name=n", "; name=\"open", "; name", ";", " ", "; filename=\"a\\b\"", "; name=\"end\\\\\"", "; NAME=\"u\"", ";name=\"q\"x"};
        srand((unsigned) atoi(argv[2]) * 2654435761u + 17);
        int count = atoi(argv[3]);
        for (int n = 0; n < count; n++) {
            size_t l = 9; memcpy(in, "form-data", 9);
            int k = rand() % 5;
            for (int i = 0; i < k; i++) { const char *b = BL[rand() % (sizeof BL / sizeof *BL)]; size_t bl = strlen(b); memcpy(in + l, b, bl); l += bl; }
            one(in, l);
        }
    }
    htp_config_destroy(cfg);
    fflush(stdout);
    return 0;
}
