/* C02 recorder: single header lines through a real connection, request side and response side (generic personality); reports
 * the field name, value and per-field indicators as the header table has them.
 *   fn_hdrline exh <maxatoms> <shard> <nshards>   |   fn_hdrline rand <seed> <count>                                         */
#include <stdio.h>
#include <stdlib.h>
#include <string.h>
#include "htp/htp.h"
#include "htp/htp_private.h"

static void pbytes(const unsigned char *p, size_t n) { putchar('['); for (size_t i = 0; i < n; i++) printf(i ? ",%d" : "%d", p[i]); putchar(']'); }
static htp_cfg_t *cfg;

static void emit(const char *side, const unsigned char *line, size_t n, htp_table_t *t) {
    htp_header_t *h = (t && htp_table_size(t) >= 1) ? htp_table_get_index(t, 0, NULL) : NULL;
    printf("{\"side\":\"%s\",\"in\":", side); pbytes(line, n);
    printf(",\"n\":%zu,\"got\":%s,\"name\":", t ? htp_table_size(t) : 0, h ? "true" : "false");
    if (h) pbytes(bstr_ptr(h->name), bstr_len(h->name)); else printf("[]");
    printf(",\"value\":"); if (h) pbytes(bstr_ptr(h->value), bstr_len(h->value)); else printf("[]");
    printf(",\"unparseable\":%s,\"invalid\":%s}\n", (h && (h->flags & HTP_FIELD_UNPARSEABLE)) ? "true" : "false", (h && (h->flags & HTP_FIELD_INVALID)) ? "true" : "false");
}
static void one(const unsigned char *line, size_t n) {
    unsigned char buf[700]; size_t l;
    htp_connp_t *connp = htp_connp_create(cfg);
    htp_connp_open(connp, "1.1.1.1", 1, "2.2.2.2", 80, NULL);
    l = (size_t) sprintf((char *) buf, "GET / HTTP/1.1\r\n"); memcpy(buf + l, line, n); l += n; memcpy(buf + l, "\r\n\r\n", 4); l += 4;
    htp_connp_req_data(connp, NULL, buf, l);
    htp_tx_t *tx = htp_list_get(connp->conn->transactions, 0);
    emit("req", line, n, tx ? tx->request_headers : NULL);
    htp_connp_destroy_all(connp);
    connp = htp_connp_create(cfg);
    htp_connp_open(connp, "1.1.1.1", 1, "2.2.2.2", 80, NULL);
    static const char REQ[] = "GET / HTTP/1.1\r\nHost: h\r\n\r\n";
    htp_connp_req_data(connp, NULL, REQ, sizeof REQ - 1);
    l = (size_t) sprintf((char *) buf, "HTTP/1.1 200 OK\r\n"); memcpy(buf + l, line, n); l += n; memcpy(buf + l, "\r\n\r\n", 4); l += 4;
    htp_connp_res_data(connp, NULL, buf, l);
    tx = htp_list_get(connp->conn->transactions, 0);
    emit("res", line, n, tx ? tx->response_headers : NULL);
    htp_connp_destroy_all(connp);
}

static const char *FIRST[] = {"X", "Y-z", ":", "@", "\x0b", "a b"};          /* a header line does not start with SP / TAB / NUL (that is folding: htp_is_folding_char) */
static const size_t FIRSTLEN[] = {1, 3, 1, 1, 1, 3};
#define NFIRST 6
static const char *ATOMS[] = {"X", "Y-z", ":", " ", "\t", "\0", "@", "\x0b", "v", "a b", "::"};
static const size_t ATOMLEN[] = {1, 3, 1, 1, 1, 1, 1, 1, 1, 3, 2};
#define NATOMS 11

int main(int argc, char **argv) {
    cfg = htp_config_create();
    htp_config_set_server_personality(cfg, HTP_SERVER_GENERIC);
    unsigned char in[512];
    if (argc >= 5 && !strcmp(argv[1], "exh")) {
        int maxa = atoi(argv[2]), shard = atoi(argv[3]), nsh = atoi(argv[4]);
        long idx = 0;
        for (int f = 0; f < NFIRST; f++) for (int na = 0; na <= maxa; na++) {
            long total = 1; for (int i = 0; i < na; i++) total *= NATOMS;
            for (long v = 0; v < total; v++, idx++) {
                if (idx % nsh != shard) continue;
                size_t l = FIRSTLEN[f]; memcpy(in, FIRST[f], l);
                long t = v; int pick[8];
                for (int i = na - 1; i >= 0; i--) { pick[i] = (int) (t % NATOMS); t /= NATOMS; }
                for (int i = 0; i < na; i++) { memcpy(in + l, ATOMS[pick[i]], ATOMLEN[pick[i]]); l += ATOMLEN[pick[i]]; }
                one(in, l);
            }
        }
    } else if (argc >= 4 && !strcmp(argv[1], "rand")) {
        srand((unsigned) atoi(argv[2]) * 2654435761u + 9);
        int count = atoi(argv[3]);
        for (int n = 0; n < count; n++) {
            int f = rand() % NFIRST; size_t l = FIRSTLEN[f]; memcpy(in, FIRST[f], l);
            int k = rand() % 9;
            for (int i = 0; i < k; i++) {
                if (rand() % 5 == 0) { in[l++] = (unsigned char) (1 + rand() % 255); if (in[l - 1] == '\n' || in[l - 1] == '\r') in[l - 1] = 'q'; continue; }
                int a = rand() % NATOMS; memcpy(in + l, ATOMS[a], ATOMLEN[a]); l += ATOMLEN[a];
            }
            one(in, l);
        }
    }
    htp_config_destroy(cfg);
    fflush(stdout);
    return 0;
}
