/* C15 recorder: drives the real urlencoded parser over an enumerated input space and records what it returns.
 * It judges nothing; spec/UrlEncodedRows.tla does.
 *   fn_urlenc exh <maxlen> <shard> <nshards>      every string over the alphabet up to maxlen, every single cut,
 *                                                 3 invalid-encoding modes x 2 plus settings, via direct/body/query
 *   fn_urlenc rand <seed> <count>                 random longer inputs over all byte values, random multi-cuts
 * One NDJSON row per (input, mode, plus, via): {"kind","in":[bytes],"mode","plus","via","outs":[[[name],[value]]...]...}
 */
#include <stdio.h>
#include <stdlib.h>
#include <string.h>
#include "htp/htp.h"
#include "htp/htp_private.h"

static const unsigned char ALPHA[] = {'a', '=', '&', '%', '+', '1', 0};
#define NALPHA 7
static const char *MODES[] = {"preserve", "remove", "process"};
static const enum htp_url_encoding_handling_t MODEV[] = {HTP_URL_DECODE_PRESERVE_PERCENT, HTP_URL_DECODE_REMOVE_PERCENT, HTP_URL_DECODE_PROCESS_INVALID};

static void pbytes(const unsigned char *p, size_t n) {
    putchar('[');
    for (size_t i = 0; i < n; i++) printf(i ? ",%d" : "%d", p[i]);
    putchar(']');
}
static void pbstr(const bstr *b) { if (b == NULL) printf("[]"); else pbytes(bstr_ptr(b), bstr_len(b)); }

static htp_cfg_t *mkcfg(int mode, int plus) {
    htp_cfg_t *cfg = htp_config_create();
    htp_config_set_server_personality(cfg, HTP_SERVER_GENERIC);
    htp_config_register_urlencoded_parser(cfg);
    htp_config_set_url_encoding_invalid_handling(cfg, HTP_DECODER_URLENCODED, MODEV[mode]);
    htp_config_set_plusspace_decode(cfg, HTP_DECODER_URLENCODED, plus);
    return cfg;
}

/* chunk boundaries: cuts[0..ncuts) strictly increasing positions inside (0,len) */
static void run_direct(htp_cfg_t *cfg, const unsigned char *in, size_t len, const size_t *cuts, int ncuts) {
    htp_connp_t *connp = htp_connp_create(cfg);
    htp_tx_t *tx = htp_connp_tx_create(connp);
    htp_urlenp_t *u = htp_urlenp_create(tx);
    size_t prev = 0;
    for (int i = 0; i <= ncuts; i++) {
        size_t end = i < ncuts ? cuts[i] : len;
        if (end > prev) {
            unsigned char *c = malloc(end - prev);      /* exact-size heap copy: over-reads are visible to ASan */
            memcpy(c, in + prev, end - prev);
            htp_urlenp_parse_partial(u, c, end - prev);
            free(c);
        }
        prev = end;
    }
    htp_urlenp_finalize(u);
    putchar('[');
    for (size_t i = 0, n = htp_table_size(u->params); i < n; i++) {
        bstr *name = NULL;
        bstr *value = htp_table_get_index(u->params, i, &name);
        printf(i ? ",[" : "[");
        pbstr(name); putchar(','); pbstr(value); putchar(']');
    }
    putchar(']');
    htp_urlenp_destroy(u);
    htp_connp_destroy_all(connp);
}

static void feed(htp_connp_t *connp, const unsigned char *p, size_t n) {
    if (n == 0) return;
    unsigned char *c = malloc(n);
    memcpy(c, p, n);
    htp_connp_req_data(connp, NULL, c, n);
    free(c);
}

/* via a real request: params of the given source from tx->request_params */
static void run_real(htp_cfg_t *cfg, int query, const unsigned char *in, size_t len, const size_t *cuts, int ncuts) {
    htp_connp_t *connp = htp_connp_create(cfg);
    htp_connp_open(connp, "1.1.1.1", 1, "2.2.2.2", 80, NULL);
    char head[256];
    size_t hl;
    if (query) hl = (size_t) snprintf(head, sizeof head, "GET /p?");
    else hl = (size_t) snprintf(head, sizeof head, "POST /p HTTP/1.1\r\nHost: h\r\nContent-Type: application/x-www-form-urlencoded\r\nContent-Length: %zu\r\n\r\n", len);
    const char *tail = query ? " HTTP/1.1\r\nHost: h\r\n\r\n" : "";
    feed(connp, (unsigned char *) head, hl);
    size_t prev = 0;
    for (int i = 0; i <= ncuts; i++) {
        size_t end = i < ncuts ? cuts[i] : len;
        feed(connp, in + prev, end - prev);
        prev = end;
    }
    feed(connp, (const unsigned char *) tail, strlen(tail));
    htp_connp_close(connp, NULL);
    htp_tx_t *tx = htp_list_get(connp->conn->transactions, 0);
    putchar('[');
    int k = 0;
    if (tx != NULL && tx->request_params != NULL) {
        for (size_t i = 0, n = htp_table_size(tx->request_params); i < n; i++) {
            htp_param_t *p = htp_table_get_index(tx->request_params, i, NULL);
            if (p->source != (query ? HTP_SOURCE_QUERY_STRING : HTP_SOURCE_BODY)) continue;
            printf(k++ ? ",[" : "[");
            pbstr(p->name); putchar(','); pbstr(p->value); putchar(']');
        }
    }
    putchar(']');
    htp_connp_destroy_all(connp);
}

static void row(const char *kind, htp_cfg_t **cfgs, const unsigned char *in, size_t len, int mode, int plus, int via,
                size_t (*cutsets)[8], int *ncuts, int nsets) {
    static const char *VIA[] = {"direct", "body", "query"};
    printf("{\"kind\":\"%s\",\"in\":", kind); pbytes(in, len);
    printf(",\"mode\":\"%s\",\"plus\":%s,\"udec\":false,\"nulenc\":false,\"nulraw\":false,\"via\":\"%s\",\"outs\":[", MODES[mode], plus ? "true" : "false", VIA[via]);
    for (int s = 0; s < nsets; s++) {
        if (s) putchar(',');
        if (via == 0) run_direct(cfgs[mode * 2 + plus], in, len, cutsets[s], ncuts[s]);
        else run_real(cfgs[mode * 2 + plus], via == 2, in, len, cutsets[s], ncuts[s]);
    }
    printf("]}\n");
}

/* decoder options beyond mode / plus: %u decoding, termination at an encoded / raw NUL; one field "k=<atoms>" per row */
static void rowx(htp_cfg_t *cfg, const unsigned char *in, size_t len, int mode, int plus, int udec, int nulenc, int nulraw) {
    static size_t cs[3][8]; static int nc[3];
    nc[0] = 0; nc[1] = 1; cs[1][0] = len / 2 ? len / 2 : 1; nc[2] = len > 3 ? 2 : 0; cs[2][0] = 3; cs[2][1] = len - 1;
    printf("{\"kind\":\"dec\",\"in\":"); pbytes(in, len);
    printf(",\"mode\":\"%s\",\"plus\":%s,\"udec\":%s,\"nulenc\":%s,\"nulraw\":%s,\"via\":\"direct\",\"outs\":[", MODES[mode], plus ? "true" : "false",
           udec ? "true" : "false", nulenc ? "true" : "false", nulraw ? "true" : "false");
    for (int s = 0; s < 3; s++) { if (s) putchar(','); run_direct(cfg, in, len, cs[s], nc[s]); }
    printf("]}\n");
}
static int main_dec(int maxa, int shard, int nsh) {
    static const char *AT[] = {"%u0041", "%u0100", "%uFF0F", "%u1234", "%u0000", "%uZZ41", "%u00", "%u", "%41", "%00", "%zz", "%", "+", "a", "\0", "%U0041"};
    static const size_t AL[] = {6, 6, 6, 6, 6, 6, 4, 2, 3, 3, 3, 1, 1, 1, 1, 6};
    const int NA = 16;
    htp_cfg_t *cx[48];
    for (int i = 0; i < 48; i++) {
        cx[i] = mkcfg(i % 3, (i / 3) % 2);
        htp_config_set_u_encoding_decode(cx[i], HTP_DECODER_URLENCODED, (i / 6) % 2);
        htp_config_set_nul_encoded_terminates(cx[i], HTP_DECODER_URLENCODED, (i / 12) % 2);
        htp_config_set_nul_raw_terminates(cx[i], HTP_DECODER_URLENCODED, (i / 24) % 2);
    }
    long idx = 0; unsigned char in[64];
    for (int na = 1; na <= maxa; na++) {
        long total = 1; for (int i = 0; i < na; i++) total *= NA;
        for (long v = 0; v < total; v++, idx++) {
            if (idx % nsh != shard) continue;
            long t = v; int pick[8]; size_t l = 2; in[0] = 'k'; in[1] = '=';
            for (int i = na - 1; i >= 0; i--) { pick[i] = (int) (t % NA); t /= NA; }
            for (int i = 0; i < na; i++) { memcpy(in + l, AT[pick[i]], AL[pick[i]]); l += AL[pick[i]]; }
            for (int c = 0; c < 48; c++) rowx(cx[c], in, l, c % 3, (c / 3) % 2, (c / 6) % 2, (c / 12) % 2, (c / 24) % 2);
        }
    }
    for (int i = 0; i < 48; i++) htp_config_destroy(cx[i]);
    fflush(stdout);
    return 0;
}

/* inputs that cross the library's container sizes: more than 32 pairs (HTP_URLENP_DEFAULT_PARAMS_SIZE, the tables of a transaction), fields that
 * arrive in more than 16 pieces (BSTR_BUILDER_DEFAULT_SIZE); delivered whole, one byte per call, 3 and 17 bytes per call */
static int main_long(void) {
    static unsigned char in[4096];
    static size_t cs[6][4096]; int nc[6];
    htp_cfg_t *cfgs[6];
    for (int m = 0; m < 3; m++) for (int p = 0; p < 2; p++) cfgs[m * 2 + p] = mkcfg(m, p);
    static const char *VIA[] = {"direct", "body", "query"};
    for (int t = 0; t < 6; t++) {
        size_t l = 0;
        if (t == 0) for (int i = 0; i < 40; i++) l += (size_t) sprintf((char *) in + l, "%sk%d=v%d", i ? "&" : "", i, i * 7);
        if (t == 1) { for (int i = 0; i < 60; i++) in[l++] = (unsigned char) ('a' + i % 26); in[l++] = '='; for (int i = 0; i < 20; i++) l += (size_t) sprintf((char *) in + l, "%%4%d+", i % 10); }
        if (t == 2) { for (int i = 0; i < 35; i++) in[l++] = '&'; l += (size_t) sprintf((char *) in + l, "a=b"); }
        if (t == 3) for (int i = 0; i < 5; i++) l += (size_t) sprintf((char *) in + l, "%sname%d=%%zz0123456789abcdefghijklmnopqrstuvwxyz%%4", i ? "&" : "", i);
        if (t == 4) for (int i = 0; i < 34; i++) l += (size_t) sprintf((char *) in + l, "%s=%d", i ? "&" : "", i);              /* 34 empty names */
        if (t == 5) for (int i = 0; i < 34; i++) l += (size_t) sprintf((char *) in + l, "%sn%d", i ? "&" : "", i);              /* 34 names without '=' */
        nc[0] = 0;
        nc[1] = 0; for (size_t c = 1; c < l; c++) cs[1][nc[1]++] = c;
        nc[2] = 0; for (size_t c = 3; c < l; c += 3) cs[2][nc[2]++] = c;
        nc[3] = 0; for (size_t c = 17; c < l; c += 17) cs[3][nc[3]++] = c;
        /* non-uniform: many one-byte pieces, then long ones (a field that has outgrown the piece list receives a piece longer than all before) */
        nc[4] = 0; for (size_t c = 1; c < l && c <= 20; c++) cs[4][nc[4]++] = c; for (size_t c = 20 + 17; c < l; c += 17) cs[4][nc[4]++] = c;
        nc[5] = 0; { size_t c = 0, a = 1, b2 = 1; int n1 = 0; while (c < l) { size_t step = n1 < 17 ? 1 : a; if (n1 >= 17) { size_t t = a + b2; a = b2; b2 = t; if (a > 40) { a = 1; b2 = 1; n1 = 0; } } n1++; c += step; if (c < l) cs[5][nc[5]++] = c; } }
        for (int m = 0; m < 3; m++) for (int p = 0; p < 2; p++) for (int via = 0; via < 3; via++) {
            if (via == 2 && l > 200) continue;          /* the request line is built in a small buffer */
            printf("{\"kind\":\"long\",\"in\":"); pbytes(in, l);
            printf(",\"mode\":\"%s\",\"plus\":%s,\"udec\":false,\"nulenc\":false,\"nulraw\":false,\"via\":\"%s\",\"outs\":[", MODES[m], p ? "true" : "false", VIA[via]);
            for (int k = 0; k < 6; k++) {
                if (k) putchar(',');
                if (via == 0) run_direct(cfgs[m * 2 + p], in, l, cs[k], nc[k]); else run_real(cfgs[m * 2 + p], via == 2, in, l, cs[k], nc[k]);
            }
            printf("]}\n");
        }
    }
    for (int i = 0; i < 6; i++) htp_config_destroy(cfgs[i]);
    fflush(stdout);
    return 0;
}

int main(int argc, char **argv) {
    if (argc >= 5 && !strcmp(argv[1], "dec")) return main_dec(atoi(argv[2]), atoi(argv[3]), atoi(argv[4]));
    if (argc >= 2 && !strcmp(argv[1], "long")) return main_long();
    htp_cfg_t *cfgs[6];
    for (int m = 0; m < 3; m++) for (int p = 0; p < 2; p++) cfgs[m * 2 + p] = mkcfg(m, p);
    static size_t cutsets[64][8];
    static int ncuts[64];
    if (argc >= 5 && !strcmp(argv[1], "exh")) {
        int maxlen = atoi(argv[2]), shard = atoi(argv[3]), nsh = atoi(argv[4]);
        long idx = 0;
        unsigned char in[16];
        for (int len = 0; len <= maxlen; len++) {
            long total = 1;
            for (int i = 0; i < len; i++) total *= NALPHA;
            for (long v = 0; v < total; v++, idx++) {
                if (idx % nsh != shard) continue;
                long t = v;
                int has_nul = 0;
                for (int i = len - 1; i >= 0; i--) { in[i] = ALPHA[t % NALPHA]; if (in[i] == 0) has_nul = 1; t /= NALPHA; }
                int nsets = len == 0 ? 1 : len;           /* cut 0 = whole, cut k = [0,k) + [k,len) */
                for (int c = 0; c < nsets; c++) { ncuts[c] = c == 0 ? 0 : 1; cutsets[c][0] = (size_t) c; }
                for (int m = 0; m < 3; m++) for (int p = 0; p < 2; p++) {
                    row("exh", cfgs, in, (size_t) len, m, p, 0, cutsets, ncuts, nsets);
                    if (len >= 1 && len <= maxlen - 1) row("exh", cfgs, in, (size_t) len, m, p, 1, cutsets, ncuts, nsets);
                    if (len >= 1 && len <= maxlen - 1 && !has_nul) row("exh", cfgs, in, (size_t) len, m, p, 2, cutsets, ncuts, nsets);
                }
            }
        }
    } else if (argc >= 4 && !strcmp(argv[1], "rand")) {
        unsigned seed = (unsigned) atoi(argv[2]);
        int count = atoi(argv[3]);
        srand(seed * 2654435761u + 17);
        static const unsigned char SPECIAL[] = "&=%+%&=ab19fF0uU\0 ;";
        unsigned char in[64];
        for (int n = 0; n < count; n++) {
            int len = 6 + rand() % 40;
            for (int i = 0; i < len; i++) in[i] = (rand() % 4) ? SPECIAL[rand() % (sizeof SPECIAL - 1)] : (unsigned char) (rand() % 256);
            int nsets = 4;
            for (int s = 0; s < nsets; s++) {
                int k = s == 0 ? len - 1 : rand() % 6;      /* set 0: one byte per chunk */
                if (k > 7) k = 7;
                if (s == 0) { ncuts[s] = 0; }               /* handled below */
                size_t pos = 0; int c = 0;
                if (s == 0) { ncuts[s] = len - 1 < 8 ? len - 1 : 7; for (c = 0; c < ncuts[s]; c++) cutsets[s][c] = (size_t) (c + 1); continue; }
                for (c = 0; c < k; c++) { pos += 1 + (size_t) (rand() % 9); if (pos >= (size_t) len) break; cutsets[s][c] = pos; }
                ncuts[s] = c;
            }
            int m = rand() % 3, p = rand() % 2;
            row("rand", cfgs, in, (size_t) len, m, p, 0, cutsets, ncuts, nsets);
            row("rand", cfgs, in, (size_t) len, m, p, 1, cutsets, ncuts, nsets);
        }
    } else {
        fprintf(stderr, "usage\n");
        return 2;
    }
    for (int i = 0; i < 6; i++) htp_config_destroy(cfgs[i]);
    return 0;
}
