/* Forced into libhtp translation units (-include) in the san / plain / tsan flavours: libhtp's wall-clock decompression heuristic
 * (compression_time_limit: more than 100 ms spent in the decompressor switches to passthrough) would make results depend on machine
 * load; libhtp sees a clock that never advances instead (vf_gettimeofday in vf_alloc.c).  No source change. */
#ifndef VF_CLOCK_H
#define VF_CLOCK_H
#include <sys/time.h>
int vf_gettimeofday(struct timeval *tv, void *tz);
#define gettimeofday(tv, tz) vf_gettimeofday((tv), (tz))
#endif
