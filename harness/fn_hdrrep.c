/* C02 recorder: one field name repeated k times (letters spelled differently each time) in a real request and a real response; reports what the
 * header table holds.  It judges nothing; spec/HdrRepeatRows.tla does.
 *   fn_hdrrep lat <maxlen> <shard> <nshards>     every tuple of 2..4 value lengths in 0..maxlen
 *   fn_hdrrep many <shard> <nshards>             k = 5..70 occurrences (crossing HTP_MAX_HEADERS_REPETITIONS) with a few length patterns    */
#include <stdio.h>
#include <stdlib.h>
#include <string.h>
#include "htp/htp.h"
#include "htp/htp_private.h"

static htp_cfg_t *cfg;
static void pbytes(const unsigned char *p, size_t n) { putchar('['); for (size_t i = 0; i < n; i++) printf(i ? ",%d" : "%d", p[i]); putchar(']'); }
static const char *SPELL[] = {"X-Rep", "x-rep", "X-REP", "x-ReP"};

static void emit(const char *side, const int *lens, int k, int pad, htp_table_t *t, int others) {
    htp_header_t *h = t ? htp_table_get_c(t, "x-rep") : NULL;
    printf("{\"side\":\"%s\",\"pad\":%d,\"lens\":[", side, pad);
    for (int i = 0; i < k; i++) printf(i ? ",%d" : "%d", lens[i]);
    printf("],\"vals\":[");
    for (int i = 0; i < k; i++) { if (i) putchar(','); putchar('['); for (int j = 0; j < lens[i]; j++) printf(j ? ",%d" : "%d", 'a' + (i % 26)); putchar(']'); }
    printf("],\"others\":%d,\"n\":%zu,\"first\":", others, t ? htp_table_size(t) : 0); pbytes((const unsigned char *) SPELL[0], 5);
    printf(",\"name\":"); if (h) pbytes(bstr_ptr(h->name), bstr_len(h->name)); else printf("[]");
    printf(",\"value\":"); if (h) pbytes(bstr_ptr(h->value), bstr_len(h->value)); else printf("[]");
    printf(",\"repeated\":%s}\n", (h && (h->flags & HTP_FIELD_REPEATED)) ? "true" : "false");
}
static size_t lines(char *buf, const int *lens, int k, int pad) {
    size_t l = 0;
    for (int i = 0; i < k; i++) {
        if (pad && i == 1) l += (size_t) sprintf(buf + l, "X-Other: between\r\n");     /* another field between the occurrences */
        l += (size_t) sprintf(buf + l, "%s:%s", SPELL[i % 4], (i % 3 == 1) ? "" : " ");
        for (int j = 0; j < lens[i]; j++) buf[l++] = (char) ('a' + (i % 26));
        l += (size_t) sprintf(buf + l, "\r\n");
    }
    return l;
}
static void one(const int *lens, int k, int pad) {
    static char buf[1 << 16]; size_t l;
    htp_connp_t *connp = htp_connp_create(cfg);
    htp_connp_open(connp, "1.1.1.1", 1, "2.2.2.2", 80, NULL);
    l = (size_t) sprintf(buf, "GET / HTTP/1.1\r\nHost: h\r\n"); l += lines(buf + l, lens, k, pad); l += (size_t) sprintf(buf + l, "\r\n");
    htp_connp_req_data(connp, NULL, buf, l);
    htp_tx_t *tx = htp_list_get(connp->conn->transactions, 0);
    emit("req", lens, k, pad, tx ? tx->request_headers : NULL, 1 + (pad ? 1 : 0));
    static const char REQ[] = "GET / HTTP/1.1\r\nHost: h\r\n\r\n";
    htp_connp_destroy_all(connp);
    connp = htp_connp_create(cfg);
    htp_connp_open(connp, "1.1.1.1", 1, "2.2.2.2", 80, NULL);
    htp_connp_req_data(connp, NULL, REQ, sizeof REQ - 1);
    l = (size_t) sprintf(buf, "HTTP/1.1 200 OK\r\nContent-Length: 0\r\n"); l += lines(buf + l, lens, k, pad); l += (size_t) sprintf(buf + l, "\r\n");
    htp_connp_res_data(connp, NULL, buf, l);
    tx = htp_list_get(connp->conn->transactions, 0);
    emit("res", lens, k, pad, tx ? tx->response_headers : NULL, 1 + (pad ? 1 : 0));
    htp_connp_destroy_all(connp);
}

int main(int argc, char **argv) {
    cfg = htp_config_create();
    htp_config_set_server_personality(cfg, HTP_SERVER_GENERIC);
    int lens[80];
    if (argc >= 5 && !strcmp(argv[1], "lat")) {
        int maxlen = atoi(argv[2]), shard = atoi(argv[3]), nsh = atoi(argv[4]); long idx = 0;
        int b = maxlen + 1;
        for (int k = 2; k <= 4; k++) {
            long total = 1; for (int i = 0; i < k; i++) total *= b;
            for (long v = 0; v < total; v++, idx++) {
                if (idx % nsh != shard) continue;
                long t = v; for (int i = k - 1; i >= 0; i--) { lens[i] = (int) (t % b); t /= b; }
                one(lens, k, (int) (v % 2));
            }
        }
    } else if (argc >= 4 && !strcmp(argv[1], "many")) {
        int shard = atoi(argv[2]), nsh = atoi(argv[3]); long idx = 0;
        for (int k = 5; k <= 70; k++) for (int pat = 0; pat < 4; pat++, idx++) {
            if (idx % nsh != shard) continue;
            for (int i = 0; i < k; i++) lens[i] = pat == 0 ? 1 : pat == 1 ? i % 5 : pat == 2 ? (i * 7) % 11 : (i == k - 1 ? 40 : 0);
            one(lens, k, pat % 2);
        }
    }
    htp_config_destroy(cfg);
    fflush(stdout);
    return 0;
}
