/* multi.c - C19 recorder: several connection parsers created from ONE configuration, driven either call-by-call in a given
 * interleaving (one parser runs at a time, in schedule order) or freely from one thread each (TSan flavour), plus a solo run of
 * every stream on its own identical configuration.  Judged by spec/MultiTrace.tla: each parser's events = its solo events, and the
 * configuration digest never changes.
 *   file:  M <family>  /  K <shared config>  /  P <i> followed by that parser's scenario lines (B X > < g C)  /
 *          O <schedule: parser ids separated by spaces>  or  T (free-running threads)  /  E                                  */
#define REC_NO_MAIN
#include "rec.c"
#include <pthread.h>

#define MAXP 8
static char **plines[MAXP]; static int pn[MAXP], pcap[MAXP];
static int np, sched[65536], ns, spos, threads_free, done_flag[MAXP];
static pthread_mutex_t mu = PTHREAD_MUTEX_INITIALIZER;
static pthread_cond_t cv = PTHREAD_COND_INITIALIZER;
static char famname[128], kshared[1024];

static void skip_finished(void) { while (spos < ns && done_flag[sched[spos]]) spos++; }
static void gate(rec_t *r) {
    if (threads_free) return;
    pthread_mutex_lock(&mu);
    for (;;) {
        skip_finished();
        if (spos >= ns || sched[spos] == r->pid) break;      /* schedule exhausted: whoever comes first (only one is left in practice) */
        pthread_cond_wait(&cv, &mu);
    }
    /* keep the mutex while the call runs: exactly one parser is inside the library at a time */
}
static void gate_done(rec_t *r) {
    if (threads_free) return;
    (void) r;
    if (spos < ns) spos++;
    pthread_cond_broadcast(&cv);
    pthread_mutex_unlock(&mu);
}
typedef struct { int i; char *buf; size_t len; int solo; } job_t;
static void *runner(void *arg) {
    job_t *j = arg;
    rec_t *r = calloc(1, sizeof *r);
    r->out = open_memstream(&j->buf, &j->len);
    R = r;
    char name[256];
    snprintf(name, sizeof name, "%s.%s%d", famname, j->solo ? "solo" : "p", j->i);
    /* per-run K line: family bookkeeping; solo runs build their own configuration from the same K line */
    char k[1400];
    snprintf(k, sizeof k, "K %s fam=%s role=%s idx=%d nolive=1 %s\n", kshared, famname, j->solo ? "solo" : "p", j->i, j->solo ? "owncfg=1" : "");
    char **lines = malloc(sizeof(char *) * (size_t) (pn[j->i] + 1));
    lines[0] = k;
    for (int x = 0; x < pn[j->i]; x++) lines[x + 1] = plines[j->i][x];
    run_scenario(r, lines, pn[j->i] + 1, name, j->i);
    fclose(r->out);
    free(lines);
    if (!j->solo && !threads_free) { pthread_mutex_lock(&mu); done_flag[j->i] = 1; pthread_cond_broadcast(&cv); pthread_mutex_unlock(&mu); }
    free(r);
    return NULL;
}

int main(int argc, char **argv) {
    if (argc < 2) return 2;
    FILE *f = fopen(argv[1], "r");
    if (!f) return 2;
    htp_verif_sink = sink;
    signal(SIGALRM, on_alarm);
    char *line = NULL; size_t lcap = 0; int cur = -1;
    while (getline(&line, &lcap, f) > 0) {
        if (line[0] == 'M') { sscanf(line + 1, "%127s", famname); np = 0; ns = 0; spos = 0; threads_free = 0; kshared[0] = 0; cur = -1; memset(pn, 0, sizeof pn); memset(done_flag, 0, sizeof done_flag); }
        else if (line[0] == 'K' && cur < 0) { strncpy(kshared, line + 2, sizeof kshared - 1); size_t m = strlen(kshared); if (m && kshared[m - 1] == '\n') kshared[m - 1] = 0; }
        else if (line[0] == 'P') { cur = atoi(line + 1); if (cur + 1 > np) np = cur + 1; }
        else if (line[0] == 'O') { char *p = line + 1; while (*p) { while (*p == ' ') p++; if (*p < '0' || *p > '9') break; sched[ns++] = (int) strtol(p, &p, 10); } }
        else if (line[0] == 'T') threads_free = 1;
        else if (line[0] == 'E') {
            /* shared configuration */
            char k[1100]; snprintf(k, sizeof k, " %s ", kshared);
            g_shared_cfg = cfg_make(k);
            g_gate = gate; g_gate_done = gate_done;
            job_t jobs[MAXP]; pthread_t th[MAXP];
            for (int i = 0; i < np; i++) { jobs[i].i = i; jobs[i].solo = 0; jobs[i].buf = NULL; pthread_create(&th[i], NULL, runner, &jobs[i]); }
            for (int i = 0; i < np; i++) pthread_join(th[i], NULL);
            g_gate = NULL; g_gate_done = NULL;
            htp_config_destroy(g_shared_cfg); g_shared_cfg = NULL;
            for (int i = 0; i < np; i++) { fwrite(jobs[i].buf, 1, jobs[i].len, stdout); free(jobs[i].buf); }
            /* solo runs, sequential, each on its own configuration */
            for (int i = 0; i < np; i++) { job_t j = {i, NULL, 0, 1}; runner(&j); fwrite(j.buf, 1, j.len, stdout); free(j.buf); }
            printf("{\"e\":\"Family\",\"fam\":\"%s\",\"n\":%d,\"threads\":%s}\n", famname, np, threads_free ? "true" : "false");
            fflush(stdout);
            for (int i = 0; i < np; i++) { for (int x = 0; x < pn[i]; x++) free(plines[i][x]); pn[i] = 0; }
        } else if (cur >= 0) {
            if (pn[cur] >= pcap[cur]) { pcap[cur] = pcap[cur] ? pcap[cur] * 2 : 64; plines[cur] = realloc(plines[cur], sizeof(char *) * (size_t) pcap[cur]); }
            plines[cur][pn[cur]++] = strdup(line);
        }
    }
    return 0;
}
