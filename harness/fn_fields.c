/* C02 recorder: Cookie and Authorization header values through a real request; reports the header value as the header table has it,
 * tx->request_cookies in order, the credentials, auth type, HTP_AUTH_INVALID and whether the request stream failed.
 *   fn_fields cookie <maxlen> <shard> <nshards>   |   fn_fields auth <maxatoms> <shard> <nshards>   |   fn_fields rand <seed> <count>   */
#include <stdio.h>
#include <stdlib.h>
#include <string.h>
#include "htp/htp.h"
#include "htp/htp_private.h"

static void pbytes(const unsigned char *p, size_t n) { putchar('['); for (size_t i = 0; i < n; i++) printf(i ? ",%d" : "%d", p[i]); putchar(']'); }
static void popt(const bstr *b) { if (b == NULL) printf("[]"); else { putchar('['); pbytes(bstr_ptr(b), bstr_len(b)); putchar(']'); } }
static htp_cfg_t *cfg;
static const char *TYPES[] = {"UNKNOWN", "NONE", "BASIC", "DIGEST", "BEARER"};

static void one(const char *kind, const char *field, const unsigned char *v, size_t n) {
    htp_connp_t *connp = htp_connp_create(cfg);
    htp_connp_open(connp, "1.1.1.1", 1, "2.2.2.2", 80, NULL);
    unsigned char req[512];
    size_t l = (size_t) snprintf((char *) req, sizeof req, "GET / HTTP/1.1\r\nHost: h\r\n%s: ", field);
    memcpy(req + l, v, n); l += n;
    memcpy(req + l, "\r\n\r\n", 4); l += 4;
    int rc = htp_connp_req_data(connp, NULL, req, l);
    htp_tx_t *tx = htp_list_get(connp->conn->transactions, 0);
    htp_header_t *h = tx ? htp_table_get_c(tx->request_headers, field) : NULL;
    printf("{\"t\":\"%s\",\"raw\":", kind); pbytes(v, n);
    printf(",\"hv\":"); if (h) pbytes(bstr_ptr(h->value), bstr_len(h->value)); else printf("[]");
    printf(",\"err\":%s", rc == HTP_STREAM_ERROR ? "true" : "false");
    if (!strcmp(kind, "cookie")) {
        printf(",\"cookies\":[");
        if (tx && tx->request_cookies) for (size_t i = 0, m = htp_table_size(tx->request_cookies); i < m; i++) {
            bstr *name = NULL; bstr *val = htp_table_get_index(tx->request_cookies, i, &name);
            if (i) putchar(',');
            putchar('['); pbytes(bstr_ptr(name), bstr_len(name)); putchar(','); pbytes(bstr_ptr(val), bstr_len(val)); putchar(']');
        }
        printf("]}\n");
    } else {
        int t = tx ? (int) tx->request_auth_type : 0;
        printf(",\"type\":\"%s\",\"user\":", t == HTP_AUTH_UNRECOGNIZED ? "UNRECOGNIZED" : (t >= 0 && t <= 4 ? TYPES[t] : "?"));
        popt(tx ? tx->request_auth_username : NULL); printf(",\"pass\":"); popt(tx ? tx->request_auth_password : NULL);
        printf(",\"invalid\":%s}\n", (tx && (tx->flags & HTP_AUTH_INVALID)) ? "true" : "false");
    }
    htp_connp_destroy_all(connp);
}

static const unsigned char CALPHA[] = {'a', 'b', '=', ';', ' '};
static const char *PFX[] = {"Basic ", "basic", "BASIC  ", "Digest ", "digest", "Bearer ", "Bearer", "Negotiate ", ""};
static const char *ATOMS[] = {"YTpi", "Og==", "YQ==", "YTo=", "OnA=", "!", "=", " ", "Y", "\t", "username=", "\"", "\\\"", "\\\\", "a", ",", "realm=\"r\"", "Username=", ":"};
#define NPFX 9
#define NATOMS 19

int main(int argc, char **argv) {
    cfg = htp_config_create();
    htp_config_set_server_personality(cfg, HTP_SERVER_GENERIC);
    htp_config_set_parse_request_cookies(cfg, 1);
    htp_config_set_parse_request_auth(cfg, 1);
    unsigned char in[256];
    if (argc >= 5 && !strcmp(argv[1], "cookie")) {
        int maxlen = atoi(argv[2]), shard = atoi(argv[3]), nsh = atoi(argv[4]);
        long idx = 0;
        for (int len = 0; len <= maxlen; len++) {
            long total = 1; for (int i = 0; i < len; i++) total *= 5;
            for (long v = 0; v < total; v++, idx++) {
                if (idx % nsh != shard) continue;
                long t = v; for (int i = len - 1; i >= 0; i--) { in[i] = CALPHA[t % 5]; t /= 5; }
                one("cookie", "Cookie", in, (size_t) len);
            }
        }
    } else if (argc >= 5 && !strcmp(argv[1], "auth")) {
        int maxa = atoi(argv[2]), shard = atoi(argv[3]), nsh = atoi(argv[4]);
        long idx = 0;
        for (int p = 0; p < NPFX; p++) for (int na = 0; na <= maxa; na++) {
            long total = 1; for (int i = 0; i < na; i++) total *= NATOMS;
            for (long v = 0; v < total; v++, idx++) {
                if (idx % nsh != shard) continue;
                size_t l = strlen(PFX[p]); memcpy(in, PFX[p], l);
                long t = v; int pick[8];
                for (int i = na - 1; i >= 0; i--) { pick[i] = (int) (t % NATOMS); t /= NATOMS; }
                for (int i = 0; i < na; i++) { size_t al = strlen(ATOMS[pick[i]]); memcpy(in + l, ATOMS[pick[i]], al); l += al; }
                one("auth", "Authorization", in, l);
            }
        }
    } else if (argc >= 4 && !strcmp(argv[1], "rand")) {
        srand((unsigned) atoi(argv[2]) * 2654435761u + 11);
        int count = atoi(argv[3]);
        static const char B64[] = "ABCDEFGHIJKLMNOPQRSTUVWXYZabcdefghijklmnopqrstuvwxyz0123456789+/=:!- \t\"\;,";
        for (int n = 0; n < count; n++) {
            size_t l = 0;
            if (n % 2) {        /* cookies over a wider alphabet */
                int len = rand() % 40;
                for (int i = 0; i < len; i++) in[l++] = (unsigned char) "ab=;  \t\"\\,xyz012"[rand() % 16];
                one("cookie", "Cookie", in, l);
            } else {
                const char *p = PFX[rand() % NPFX]; l = strlen(p); memcpy(in, p, l);
                int len = rand() % 48;
                for (int i = 0; i < len; i++) in[l++] = (unsigned char) B64[rand() % (sizeof B64 - 1)];
                if (rand() % 3 == 0) { const char *u = " username=\"u\\\"x\" "; size_t ul = strlen(u); memcpy(in + l, u, ul); l += ul; }
                one("auth", "Authorization", in, l);
            }
        }
    }
    htp_config_destroy(cfg);
    fflush(stdout);
    return 0;
}
