/* C02 recorder: request lines through a real connection under the option lattice (allow_space_uri, NUL-terminated line = Apache
 * personality, leading whitespace kept); reports the line as the transaction has it and method / URI / protocol / numbers.
 *   fn_reqline exh <maxatoms> <shard> <nshards>   |   fn_reqline rand <seed> <count>                                         */
#include <stdio.h>
#include <stdlib.h>
#include <string.h>
#include "htp/htp.h"
#include "htp/htp_private.h"

static void pbytes(const unsigned char *p, size_t n) { putchar('['); for (size_t i = 0; i < n; i++) printf(i ? ",%d" : "%d", p[i]); putchar(']'); }
static void popt(const bstr *b) { if (b == NULL) printf("[]"); else { putchar('['); pbytes(bstr_ptr(b), bstr_len(b)); putchar(']'); } }
static htp_cfg_t *cfgs[8];

static void one(const unsigned char *line, size_t n) {
    for (int c = 0; c < 8; c++) {
        htp_connp_t *connp = htp_connp_create(cfgs[c]);
        htp_connp_open(connp, "1.1.1.1", 1, "2.2.2.2", 80, NULL);
        unsigned char req[600];
        memcpy(req, line, n); memcpy(req + n, "\r\n", 2);
        htp_connp_req_data(connp, NULL, req, n + 2);
        htp_tx_t *tx = htp_list_get(connp->conn->transactions, 0);
        int parsed = tx != NULL && tx->request_line != NULL && tx->request_method != NULL;
        printf("{\"in\":"); pbytes(line, n);
        printf(",\"allow\":%s,\"nul\":%s,\"keep\":%s,\"parsed\":%s", (c & 1) ? "true" : "false", (c & 2) ? "true" : "false", (c & 4) ? "true" : "false", parsed ? "true" : "false");
        printf(",\"rl\":"); if (parsed) pbytes(bstr_ptr(tx->request_line), bstr_len(tx->request_line)); else printf("[]");
        printf(",\"method\":"); if (parsed) pbytes(bstr_ptr(tx->request_method), bstr_len(tx->request_method)); else printf("[]");
        printf(",\"uri\":"); popt(parsed ? tx->request_uri : NULL);
        printf(",\"protocol\":"); popt(parsed ? tx->request_protocol : NULL);
        printf(",\"is09\":%s,\"pnum\":%d,\"mnum\":%d}\n", (parsed && tx->is_protocol_0_9) ? "true" : "false", parsed ? tx->request_protocol_number : 0, parsed ? (int) tx->request_method_number : 0);
        htp_connp_destroy_all(connp);
    }
}

static const char *ATOMS[] = {"GET", "X", "/a", "HTTP/1.1", "HTTP/1.0", "HTTP/0.9", "HTTP/2.0", " ", "\t", "  ", "\r", "\x0c", "?b c", "http://h/p"};
#define NATOMS 14
#define NULATOM NATOMS

int main(int argc, char **argv) {
    for (int c = 0; c < 8; c++) {
        cfgs[c] = htp_config_create();
        htp_config_set_server_personality(cfgs[c], (c & 2) ? HTP_SERVER_APACHE_2 : HTP_SERVER_GENERIC);
        htp_config_set_allow_space_uri(cfgs[c], (c & 1) ? 1 : 0);
        htp_config_set_requestline_leading_whitespace_unwanted(cfgs[c], HTP_DECODER_DEFAULTS, (c & 4) ? HTP_UNWANTED_400 : HTP_UNWANTED_IGNORE);
    }
    unsigned char in[512];
    if (argc >= 5 && !strcmp(argv[1], "exh")) {
        int maxa = atoi(argv[2]), shard = atoi(argv[3]), nsh = atoi(argv[4]);
        long idx = 0;
        int NA = NATOMS + 1;             /* the extra atom is a NUL byte */
        for (int na = 1; na <= maxa; na++) {
            long total = 1; for (int i = 0; i < na; i++) total *= NA;
            for (long v = 0; v < total; v++, idx++) {
                if (idx % nsh != shard) continue;
                long t = v; int pick[8]; size_t l = 0;
                for (int i = na - 1; i >= 0; i--) { pick[i] = (int) (t % NA); t /= NA; }
                for (int i = 0; i < na; i++) {
                    if (pick[i] == NULATOM) { in[l++] = 0; continue; }
                    size_t al = strlen(ATOMS[pick[i]]); memcpy(in + l, ATOMS[pick[i]], al); l += al;
                }
                one(in, l);
            }
        }
    } else if (argc >= 4 && !strcmp(argv[1], "rand")) {
        srand((unsigned) atoi(argv[2]) * 2654435761u + 3);
        int count = atoi(argv[3]);
        for (int n = 0; n < count; n++) {
            size_t l = 0; int k = 1 + rand() % 9;
            for (int i = 0; i < k; i++) {
                int a = rand() % (NATOMS + 3);
                if (a >= NATOMS) { in[l++] = (unsigned char) "\0\x0b "[a - NATOMS]; continue; }
                size_t al = strlen(ATOMS[a]); memcpy(in + l, ATOMS[a], al); l += al;
            }
            one(in, l);
        }
    }
    for (int c = 0; c < 8; c++) htp_config_destroy(cfgs[c]);
    fflush(stdout);
    return 0;
}
