/* C14 recorder: feeds rendered multipart bodies to the real parser under every single cut (and 1-byte / random chunkings), directly
 * (htp_mpartp_parse + FILE_DATA hook) and through a full POST (tx->request_params).  Input lines: "<doc index> <body hex>".
 *   fn_mpart <docs file> <shard> <nshards>                                                                                  */
#include <stdio.h>
#include <stdlib.h>
#include <string.h>
#include "htp/htp.h"
#include "htp/htp_private.h"

static const struct { uint64_t bit; const char *name; } MF[] = {
    {HTP_MULTIPART_LF_LINE, "LF_LINE"}, {HTP_MULTIPART_CRLF_LINE, "CRLF_LINE"}, {HTP_MULTIPART_BBOUNDARY_LWS_AFTER, "BBOUNDARY_LWS_AFTER"},
    {HTP_MULTIPART_BBOUNDARY_NLWS_AFTER, "BBOUNDARY_NLWS_AFTER"}, {HTP_MULTIPART_HAS_PREAMBLE, "HAS_PREAMBLE"}, {HTP_MULTIPART_HAS_EPILOGUE, "HAS_EPILOGUE"},
    {HTP_MULTIPART_SEEN_LAST_BOUNDARY, "SEEN_LAST_BOUNDARY"}, {HTP_MULTIPART_PART_AFTER_LAST_BOUNDARY, "PART_AFTER_LAST_BOUNDARY"}, {HTP_MULTIPART_INCOMPLETE, "INCOMPLETE"},
    {HTP_MULTIPART_HBOUNDARY_INVALID, "HBOUNDARY_INVALID"}, {HTP_MULTIPART_HBOUNDARY_UNUSUAL, "HBOUNDARY_UNUSUAL"}, {HTP_MULTIPART_HBOUNDARY_QUOTED, "HBOUNDARY_QUOTED"},
    {HTP_MULTIPART_PART_HEADER_FOLDING, "PART_HEADER_FOLDING"}, {HTP_MULTIPART_PART_UNKNOWN, "PART_UNKNOWN"}, {HTP_MULTIPART_PART_HEADER_REPEATED, "PART_HEADER_REPEATED"},
    {HTP_MULTIPART_PART_HEADER_UNKNOWN, "PART_HEADER_UNKNOWN"}, {HTP_MULTIPART_PART_HEADER_INVALID, "PART_HEADER_INVALID"}, {HTP_MULTIPART_CD_TYPE_INVALID, "CD_TYPE_INVALID"},
    {HTP_MULTIPART_CD_PARAM_REPEATED, "CD_PARAM_REPEATED"}, {HTP_MULTIPART_CD_PARAM_UNKNOWN, "CD_PARAM_UNKNOWN"}, {HTP_MULTIPART_CD_SYNTAX_INVALID, "CD_SYNTAX_INVALID"},
    {HTP_MULTIPART_PART_INCOMPLETE, "PART_INCOMPLETE"}, {HTP_MULTIPART_NUL_BYTE, "NUL_BYTE"}, {0, NULL}};
static void pbytes(const unsigned char *p, size_t n) { putchar('['); for (size_t i = 0; i < n; i++) printf(i ? ",%d" : "%d", p[i]); putchar(']'); }
static void jstr(const unsigned char *p, size_t n) { putchar('"'); for (size_t i = 0; i < n; i++) { unsigned char c = p[i]; if (c == '"' || c == '\\') { putchar('\\'); putchar(c); } else if (c < 0x20 || c >= 0x7f) printf("\\u%04x", c); else putchar(c); } putchar('"'); }
static void optstr(const bstr *b) { if (!b) printf("[]"); else { putchar('['); jstr(bstr_ptr(b), bstr_len(b)); putchar(']'); } }

#define MAXF 16
static htp_file_t *fkey[MAXF]; static unsigned char *fbuf[MAXF]; static size_t flen[MAXF]; static int nf;
static int cb_file(htp_file_data_t *fd) {
    int k = -1;
    for (int i = 0; i < nf; i++) if (fkey[i] == fd->file) k = i;
    if (k < 0 && nf < MAXF) { k = nf++; fkey[k] = fd->file; fbuf[k] = malloc(1 << 16); flen[k] = 0; }
    if (k >= 0 && fd->data != NULL && flen[k] + fd->len < (1 << 16)) { memcpy(fbuf[k] + flen[k], fd->data, fd->len); flen[k] += fd->len; }
    return HTP_OK;
}
static htp_cfg_t *cfg;

static void feed_cuts(void (*f)(void *, const unsigned char *, size_t), void *ctx, const unsigned char *b, size_t n, const size_t *cuts, int nc) {
    size_t prev = 0;
    for (int i = 0; i <= nc; i++) {
        size_t end = i < nc ? cuts[i] : n;
        if (end > prev) { unsigned char *c = malloc(end - prev); memcpy(c, b + prev, end - prev); f(ctx, c, end - prev); free(c); }
        prev = end;
    }
}
static void f_direct(void *ctx, const unsigned char *p, size_t n) { htp_mpartp_parse((htp_mpartp_t *) ctx, p, n); }
static void f_post(void *ctx, const unsigned char *p, size_t n) { htp_connp_req_data((htp_connp_t *) ctx, NULL, p, n); }

static void direct(long id, const char *cutname, const unsigned char *b, size_t n, const size_t *cuts, int nc) {
    nf = 0;
    htp_mpartp_t *mp = htp_mpartp_create(cfg, bstr_dup_c("BB"), 0);
    feed_cuts(f_direct, mp, b, n, cuts, nc);
    htp_mpartp_finalize(mp);
    htp_multipart_t *m = htp_mpartp_get_multipart(mp);
    printf("{\"i\":%ld,\"via\":\"direct\",\"cut\":\"%s\",\"body\":", id, cutname); pbytes(b, n);
    printf(",\"flags\":["); int k = 0; for (int i = 0; MF[i].name; i++) if (m->flags & MF[i].bit) printf(k++ ? ",\"%s\"" : "\"%s\"", MF[i].name);
    printf("],\"parts\":[");
    for (size_t i = 0, np = htp_list_size(m->parts); i < np; i++) {
        htp_multipart_part_t *p = htp_list_get(m->parts, i);
        const char *t = p->type == MULTIPART_PART_TEXT ? "TEXT" : p->type == MULTIPART_PART_FILE ? "FILE" : p->type == MULTIPART_PART_PREAMBLE ? "PREAMBLE" : p->type == MULTIPART_PART_EPILOGUE ? "EPILOGUE" : "UNKNOWN";
        printf("%s{\"type\":\"%s\",\"name\":", i ? "," : "", t); optstr(p->name);
        printf(",\"filename\":"); optstr(p->file ? p->file->filename : NULL);
        printf(",\"ctype\":"); optstr(p->content_type);
        printf(",\"data\":");
        if (p->type == MULTIPART_PART_FILE) {
            int fk = -1; for (int x = 0; x < nf; x++) if (fkey[x] == p->file) fk = x;
            if (fk >= 0) pbytes(fbuf[fk], flen[fk]); else printf("[]");
        } else if (p->value) pbytes(bstr_ptr(p->value), bstr_len(p->value)); else printf("[]");
        printf("}");
    }
    printf("],\"params\":[]}\n");
    htp_mpartp_destroy(mp);
    for (int i = 0; i < nf; i++) free(fbuf[i]);
    nf = 0;
}
static void post(long id, const char *cutname, const unsigned char *b, size_t n, const size_t *cuts, int nc) {
    nf = 0;
    htp_connp_t *connp = htp_connp_create(cfg);
    htp_connp_open(connp, "1.1.1.1", 1, "2.2.2.2", 80, NULL);
    char head[256];
    int hl = snprintf(head, sizeof head, "POST /u HTTP/1.1\r\nHost: h\r\nContent-Type: multipart/form-data; boundary=BB\r\nContent-Length: %zu\r\n\r\n", n);
    htp_connp_req_data(connp, NULL, head, (size_t) hl);
    feed_cuts(f_post, connp, b, n, cuts, nc);
    htp_connp_close(connp, NULL);
    htp_tx_t *tx = htp_list_get(connp->conn->transactions, 0);
    printf("{\"i\":%ld,\"via\":\"post\",\"cut\":\"%s\",\"body\":[],\"flags\":[],\"parts\":[],\"params\":[", id, cutname);
    int k = 0;
    if (tx && tx->request_params) for (size_t i = 0, np = htp_table_size(tx->request_params); i < np; i++) {
        htp_param_t *p = htp_table_get_index(tx->request_params, i, NULL);
        if (p->source != HTP_SOURCE_BODY) continue;
        printf(k++ ? ",[" : "[");
        if (p->name) jstr(bstr_ptr(p->name), bstr_len(p->name)); else printf("\"\"");
        putchar(',');
        if (p->value) pbytes(bstr_ptr(p->value), bstr_len(p->value)); else printf("[]");
        putchar(']');
    }
    printf("]}\n");
    htp_connp_destroy_all(connp);
    for (int i = 0; i < nf; i++) free(fbuf[i]);
    nf = 0;
}
static int hexval(int c) { return c <= '9' ? c - '0' : (c | 32) - 'a' + 10; }
int main(int argc, char **argv) {
    if (argc < 4) return 2;
    FILE *f = fopen(argv[1], "r");
    int shard = atoi(argv[2]), nsh = atoi(argv[3]);
    cfg = htp_config_create();
    htp_config_register_multipart_parser(cfg);
    htp_config_register_request_file_data(cfg, cb_file);
    char *line = NULL; size_t cap = 0; long ln = 0;
    static unsigned char b[1 << 16];
    while (getline(&line, &cap, f) > 0) {
        if (ln++ % nsh != shard) continue;
        long id = strtol(line, NULL, 10);
        char *h = strchr(line, ' '); if (!h) continue; h++;
        size_t n = 0; while (h[2 * n] && h[2 * n] != '\n') { b[n] = (unsigned char) (hexval(h[2 * n]) * 16 + hexval(h[2 * n + 1])); n++; }
        size_t cuts[64]; char nm[32];
        direct(id, "whole", b, n, cuts, 0); post(id, "whole", b, n, cuts, 0);
        for (size_t c = 1; c < n; c++) { cuts[0] = c; snprintf(nm, sizeof nm, "c%zu", c); direct(id, nm, b, n, cuts, 1); if (c % 3 == id % 3) post(id, nm, b, n, cuts, 1); }
        /* one byte per call (as many cuts as fit), and random multi-cuts */
        { int nc = 0; for (size_t c = 1; c < n && nc < 64; c++) cuts[nc++] = c; if (n <= 64) { direct(id, "byte", b, n, cuts, nc); post(id, "byte", b, n, cuts, nc); } }
        srand((unsigned) id * 2654435761u + 1);
        for (int r = 0; r < 3; r++) { int nc = 0; size_t pos = 0; while (nc < 40) { pos += 1 + (size_t) (rand() % 7); if (pos >= n) break; cuts[nc++] = pos; } snprintf(nm, sizeof nm, "r%d", r); direct(id, nm, b, n, cuts, nc); post(id, nm, b, n, cuts, nc); }
    }
    free(line); fclose(f);
    htp_config_destroy(cfg);
    fflush(stdout);
    return 0;
}
