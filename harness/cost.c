/* C08 cost meter: deterministic work counter = basic blocks executed inside libhtp (clang trace-pc-guard, all guards armed) plus
 * bytes moved by libhtp's own memcpy/memmove/realloc (forced include).  For each pump pattern  prefix + unit^k + suffix  and each
 * k of a doubling ladder it records the total work of the stream and the worst per-call work relative to (bytes given + bytes
 * buffered before the call).  Judged by spec/CostRows.tla.   cost <kmax> [first pattern] [count]                          */
#include <stdio.h>
#include <stdlib.h>
#include <string.h>
#include <stdint.h>
#include "htp/htp.h"
#include "htp/htp_private.h"
extern long vf_moved;
static unsigned long long blocks;
void __sanitizer_cov_trace_pc_guard_init(uint32_t *start, uint32_t *stop) { for (uint32_t *x = start; x < stop; x++) *x = 1; }
void __sanitizer_cov_trace_pc_guard(uint32_t *guard) { (void) guard; blocks++; }
static unsigned long long work(void) { return blocks + (unsigned long long) vf_moved; }

typedef struct { const char *name, *pre, *unit, *suf; int resp; int hard; } pat_t;
static const pat_t T[] = {
    {"req_header_repeated", "GET / HTTP/1.1\r\nHost: h\r\n", "A: v%d\r\n", "\r\n", 0, 0},
    {"req_header_distinct", "GET / HTTP/1.1\r\nHost: h\r\n", "H%d: v%d\r\n", "\r\n", 0, 0},
    {"req_folded_lines", "GET / HTTP/1.1\r\nHost: h\r\nA: b\r\n", " c%d\r\n", "\r\n", 0, 0},
    {"req_line_spaces", "GET /", "  ", " HTTP/1.1\r\nHost: h\r\n\r\n", 0, 1},
    {"req_query_params", "GET /?", "a%d=%d&", " HTTP/1.1\r\nHost: h\r\n\r\n", 0, 1},
    {"req_cookies", "GET / HTTP/1.1\r\nHost: h\r\nCookie: ", "c%d=%d; ", "\r\n\r\n", 0, 1},
    {"req_empty_lines_before", "", "\r\n", "GET / HTTP/1.1\r\nHost: h\r\n\r\n", 0, 0},
    {"req_header_value_spaces", "GET / HTTP/1.1\r\nHost: h\r\nA:", " ", "x\r\n\r\n", 0, 1},
    {"req_nul_bytes_in_header", "GET / HTTP/1.1\r\nHost: h\r\nA: ", "%c", "\r\n\r\n", 0, 1},
    {"req_cr_bytes", "GET / HTTP/1.1\r\nHost: h\r\nA: ", "\r", "\n\r\n", 0, 1},
    {"req_chunk_lines", "POST / HTTP/1.1\r\nHost: h\r\nTransfer-Encoding: chunked\r\n\r\n", "1\r\nx\r\n", "0\r\n\r\n", 0, 0},
    {"req_body_params", "POST / HTTP/1.1\r\nHost: h\r\nContent-Type: application/x-www-form-urlencoded\r\nTransfer-Encoding: chunked\r\n\r\n", "6\r\na%02d=1&\r\n", "0\r\n\r\n", 0, 0},
    {"req_multipart_parts", "POST / HTTP/1.1\r\nHost: h\r\nContent-Type: multipart/form-data; boundary=BB\r\nTransfer-Encoding: chunked\r\n\r\n",
        "39\r\n--BB\r\nContent-Disposition: form-data; name=\"f%03d\"\r\n\r\nv\r\n\r\n", "8\r\n--BB--\r\n\r\n0\r\n\r\n", 0, 0},
    {"req_multipart_near_boundary", "POST / HTTP/1.1\r\nHost: h\r\nContent-Type: multipart/form-data; boundary=BB\r\nTransfer-Encoding: chunked\r\n\r\n2d\r\n--BB\r\nContent-Disposition: form-data; name=\"f\"\r\n\r\n\r\n",
        "5\r\n\r\n--B\r\n", "a\r\n\r\n--BB--\r\n\r\n0\r\n\r\n", 0, 0},
    {"req_te_tokens", "POST / HTTP/1.1\r\nHost: h\r\nTransfer-Encoding: ", "gzip, ", "chunked\r\n\r\n0\r\n\r\n", 0, 1},
    {"req_pipelined_requests", "", "GET /%d HTTP/1.1\r\nHost: h\r\n\r\n", "", 0, 0},
    {"res_header_repeated", "HTTP/1.1 200 OK\r\n", "A: v%d\r\n", "Content-Length: 0\r\n\r\n", 1, 0},
    {"res_header_distinct", "HTTP/1.1 200 OK\r\n", "H%d: v%d\r\n", "Content-Length: 0\r\n\r\n", 1, 0},
    {"res_folded_lines", "HTTP/1.1 200 OK\r\nA: b\r\n", " c%d\r\n", "Content-Length: 0\r\n\r\n", 1, 0},
    {"res_chunk_lines", "HTTP/1.1 200 OK\r\nTransfer-Encoding: chunked\r\n\r\n", "1\r\nx\r\n", "0\r\n\r\n", 1, 0},
    {"res_empty_chunk_lines", "HTTP/1.1 200 OK\r\nTransfer-Encoding: chunked\r\n\r\n", "\r\n", "5\r\nhello\r\n0\r\n\r\n", 1, 0},
    {"res_chunk_ext", "HTTP/1.1 200 OK\r\nTransfer-Encoding: chunked\r\n\r\n1", ";e%d=%d", "\r\nx\r\n0\r\n\r\n", 1, 1},
    {"res_status_line_spaces", "HTTP/1.1 200", " ", "OK\r\nContent-Length: 0\r\n\r\n", 1, 1},
    {"res_ce_tokens", "HTTP/1.1 200 OK\r\nContent-Length: 0\r\nContent-Encoding: ", "gzip, ", "gzip\r\n\r\n", 1, 1},
    {"res_junk_lines_before_status", "", "junk line %d\r\n", "HTTP/1.1 200 OK\r\nContent-Length: 0\r\n\r\n", 1, 0},
    {"res_body_identity", "HTTP/1.1 200 OK\r\nConnection: close\r\n\r\n", "0123456789abcdef", "", 1, 0},
    {"req_multipart_part_headers_distinct", "POST / HTTP/1.1\r\nHost: h\r\nContent-Type: multipart/form-data; boundary=BB\r\nTransfer-Encoding: chunked\r\n\r\n6\r\n--BB\r\n\r\n", "b\r\nH%05d: v\r\n\r\n", "37\r\nContent-Disposition: form-data; name=\"f\"\r\n\r\nv\r\n--BB--\r\n\r\n0\r\n\r\n", 0, 0},
    {"req_multipart_part_headers_repeated", "POST / HTTP/1.1\r\nHost: h\r\nContent-Type: multipart/form-data; boundary=BB\r\nTransfer-Encoding: chunked\r\n\r\n6\r\n--BB\r\n\r\n", "b\r\nA: v%05d\r\n\r\n", "37\r\nContent-Disposition: form-data; name=\"f\"\r\n\r\nv\r\n--BB--\r\n\r\n0\r\n\r\n", 0, 0},
    {"req_multipart_part_folded", "POST / HTTP/1.1\r\nHost: h\r\nContent-Type: multipart/form-data; boundary=BB\r\nTransfer-Encoding: chunked\r\n\r\nc\r\n--BB\r\nA: b\r\n\r\n", "9\r\n c%05d\r\n\r\n", "37\r\nContent-Disposition: form-data; name=\"f\"\r\n\r\nv\r\n--BB--\r\n\r\n0\r\n\r\n", 0, 0},
    {"res_trailer_lines", "HTTP/1.1 200 OK\r\nTransfer-Encoding: chunked\r\n\r\n1\r\nx\r\n0\r\n", "T: v%d\r\n", "\r\n", 1, 0},
    {"req_trailer_lines", "POST / HTTP/1.1\r\nHost: h\r\nTransfer-Encoding: chunked\r\n\r\n1\r\nx\r\n0\r\n", "T: v%d\r\n", "\r\n", 0, 0},
    /* separator / whitespace runs inside the values the parser tokenises (round-5 seed C08e: the Content-Encoding token loop re-scanned a run of separators) */
    {"res_ce_separator_run", "HTTP/1.1 200 OK\r\nContent-Length: 0\r\nContent-Encoding: ", ",", "none\r\n\r\n", 1, 1},
    {"res_ce_space_run", "HTTP/1.1 200 OK\r\nContent-Length: 0\r\nContent-Encoding: ", " ", "none\r\n\r\n", 1, 1},
    {"res_ce_separators_after_token", "HTTP/1.1 200 OK\r\nContent-Length: 0\r\nContent-Encoding: gzip", ", ", "none\r\n\r\n", 1, 1},
    {"res_ce_unknown_tokens", "HTTP/1.1 200 OK\r\nContent-Length: 0\r\nContent-Encoding: ", "x%d,", "none\r\n\r\n", 1, 1},
    {"req_cookie_separator_run", "GET / HTTP/1.1\r\nHost: h\r\nCookie: a=1", ";", " b=2\r\n\r\n", 0, 1},
    {"req_cookie_space_run", "GET / HTTP/1.1\r\nHost: h\r\nCookie: a=1;", " ", "b=2\r\n\r\n", 0, 1},
    {"req_query_separator_run", "GET /?a=1", "&", "b=2 HTTP/1.1\r\nHost: h\r\n\r\n", 0, 1},
    {"req_ct_boundary_spaces", "POST / HTTP/1.1\r\nHost: h\r\nContent-Length: 0\r\nContent-Type: multipart/form-data;", " ", "boundary=BB\r\n\r\n", 0, 1},
    {"req_te_space_run", "POST / HTTP/1.1\r\nHost: h\r\nTransfer-Encoding:", " ", "chunked\r\n\r\n0\r\n\r\n", 0, 1},
    {"req_host_space_run", "GET / HTTP/1.1\r\nHost: h", " ", "\r\n\r\n", 0, 1},
    {"req_auth_digest_spaces", "GET / HTTP/1.1\r\nHost: h\r\nAuthorization: Digest username=", " ", "\"u\"\r\n\r\n", 0, 1},
    {"req_auth_basic_spaces", "GET / HTTP/1.1\r\nHost: h\r\nAuthorization: Basic", " ", "dTpw\r\n\r\n", 0, 1},
    {"res_cl_space_run", "HTTP/1.1 200 OK\r\nContent-Length:", " ", "0\r\n\r\n", 1, 1},
};
#define NT (sizeof T / sizeof *T)
static char *big; static size_t bigcap = 1 << 24;

static unsigned long long g_bufsum;
static void run(const pat_t *p, int k, int bytewise, unsigned long long *total, size_t *len, unsigned long long *worst_num, unsigned long long *worst_den, int *rcend) {
    htp_cfg_t *cfg = htp_config_create();
    htp_config_set_server_personality(cfg, HTP_SERVER_IDS);
    htp_config_register_urlencoded_parser(cfg); htp_config_register_multipart_parser(cfg);
    if (p->hard) htp_config_set_field_limits(cfg, 1 << 22, 1 << 23);          /* patterns inside ONE line: lift the field limit so that the pump is not cut short */
    htp_connp_t *g = htp_connp_create(cfg);
    htp_connp_open(g, "1.1.1.1", 1, "2.2.2.2", 80, NULL);
    size_t n = 0;
    n += (size_t) sprintf(big + n, "%s", p->pre);
    for (int i = 0; i < k && n + 256 < bigcap; i++) {
        if (!strcmp(p->unit, "%c")) { big[n++] = 0; continue; }           /* the NUL unit */
        /* units use zero, one or two %d; a fixed-width counter wraps so that the unit keeps its length (chunk sizes are literal) */
        int a1 = strstr(p->unit, "%02d") ? i % 100 : strstr(p->unit, "%03d") ? i % 1000 : strstr(p->unit, "%05d") ? i % 100000 : i;
        n += (size_t) sprintf(big + n, p->unit, a1, i);
    }
    n += (size_t) sprintf(big + n, "%s", p->suf);
    if (p->resp) { const char *rq = "GET / HTTP/1.1\r\nHost: h\r\n\r\n"; htp_connp_req_data(g, NULL, rq, strlen(rq)); }
    unsigned long long w0 = work();
    *worst_num = 0; *worst_den = 1; g_bufsum = 0;
    int rc = 0;
    size_t step = bytewise ? 1 : n;
    for (size_t off = 0; off < n; off += step) {
        size_t m = off + step <= n ? step : n - off;
        size_t buffered = p->resp ? (g->out_buf ? g->out_buf_size : 0) + (g->out_header ? bstr_len(g->out_header) : 0) : (g->in_buf ? g->in_buf_size : 0) + (g->in_header ? bstr_len(g->in_header) : 0);
        g_bufsum += buffered;
        unsigned long long c0 = work();
        rc = p->resp ? htp_connp_res_data(g, NULL, big + off, m) : htp_connp_req_data(g, NULL, big + off, m);
        unsigned long long c = work() - c0;
        unsigned long long den = m + buffered + 64;        /* +64: the constant of "a constant times its length plus a constant" per call */
        if (c * *worst_den > *worst_num * den) { *worst_num = c; *worst_den = den; }
    }
    *total = work() - w0; *len = n; *rcend = rc;
    htp_connp_close(g, NULL); htp_connp_destroy_all(g); htp_config_destroy(cfg);
}

int main(int argc, char **argv) {
    int kmax = argc > 1 ? atoi(argv[1]) : 2048;
    size_t first = argc > 2 ? (size_t) atoi(argv[2]) : 0, count = argc > 3 ? (size_t) atoi(argv[3]) : NT;
    big = malloc(bigcap);
    for (size_t t = first; t < NT && t < first + count; t++) for (int bw = 0; bw < 2; bw++) {
        printf("{\"pat\":\"%s\",\"mode\":\"%s\",\"ks\":[", T[t].name, bw ? "byte" : "whole");
        unsigned long long tot[16], wn[16], wd[16], bs[16]; size_t len[16]; int rcs[16]; int nk = 0;
        for (int k = 64; k <= kmax; k *= 2, nk++) { run(&T[t], k, bw, &tot[nk], &len[nk], &wn[nk], &wd[nk], &rcs[nk]); bs[nk] = g_bufsum; }
        for (int i = 0, k = 64; i < nk; i++, k *= 2) printf(i ? ",%d" : "%d", k);
        /* totals are reported in units of 64 (TLC integers are 32-bit): work, stream length, sum over calls of bytes buffered before the call */
        printf("],\"ws\":["); for (int i = 0; i < nk; i++) printf(i ? ",%llu" : "%llu", tot[i] / 64);
        printf("],\"lens\":["); for (int i = 0; i < nk; i++) printf(i ? ",%zu" : "%zu", len[i] / 64);
        printf("],\"bufsums\":["); for (int i = 0; i < nk; i++) printf(i ? ",%llu" : "%llu", bs[i] / 64);
        printf("],\"capped\":%s,\"percall\":[", T[t].hard ? "false" : "true"); for (int i = 0; i < nk; i++) printf(i ? ",%llu" : "%llu", wn[i] / wd[i]);      /* worst work per (byte given + byte buffered + 64) */
        printf("],\"rc\":["); for (int i = 0; i < nk; i++) printf(i ? ",%d" : "%d", rcs[i]);
        printf("]}\n");
        fflush(stdout);
    }
    return 0;
}
