/* C06 recorder: the framing decision for a response body.  For every point of a lattice (request method x status x protocol x
 * Transfer-Encoding value x Content-Length field(s) x Content-Type value) a GET / HEAD request is parsed, then the response HEAD is
 * delivered in one call and nothing else; reports out_state, the return code, response_transfer_coding, response_progress,
 * HTP_REQUEST_SMUGGLING, response_content_length and response_content_type.      fn_resfr all <shard> <nshards>            */
#include <stdio.h>
#include <stdlib.h>
#include <string.h>
#include <inttypes.h>
#include "htp/htp.h"
#include "htp/htp_private.h"

static void pbytes(const unsigned char *p, size_t n) { putchar('['); for (size_t i = 0; i < n; i++) printf(i ? ",%d" : "%d", p[i]); putchar(']'); }
static void popts(const char *s, size_t n) { if (s == NULL) printf("[]"); else { putchar('['); pbytes((const unsigned char *) s, n); putchar(']'); } }
static void pnum(const char *kc, const char *kv, int64_t v) {
    if (v < 0) { printf(",\"%s\":%" PRId64 ",\"%s\":[]", kc, v, kv); return; }
    char buf[32]; snprintf(buf, sizeof buf, "%" PRId64, v);
    printf(",\"%s\":0,\"%s\":[", kc, kv);
    for (size_t i = 0; buf[i]; i++) printf(i ? ",%d" : "%d", buf[i] - '0');
    putchar(']');
}
typedef struct { const char *s; size_t n; } val_t;
#define V(x) {x, sizeof(x) - 1}
static const char *MET[] = {"GET", "HEAD"};
static const int ST[] = {100, 101, 150, 200, 204, 304, 404};
static const val_t TE[] = {{NULL, 0}, V("chunked"), V("CHUNKED"), V("gzip, chunked"), V("xchunkedx"), V("identity"), V("chu\0nked"), V("chunke")};
static const val_t CL[] = {{NULL, 0}, V("5"), V("0"), V("abc"), V("7 "), V("-1"), V("12x"), V("00")};
static const int CLREP[] = {0, 1, 2};          /* one field; the same value twice; the value, then "9" */
static const val_t CT[] = {{NULL, 0}, V("text/html"), V("Multipart/ByteRanges; boundary=x"), V("TEXT/Plain ;q=1"), V("a\tb")};
#define N(a) (sizeof(a) / sizeof *(a))

int main(int argc, char **argv) {
    if (argc < 4 || strcmp(argv[1], "all")) return 2;
    int shard = atoi(argv[2]), nsh = atoi(argv[3]);
    htp_cfg_t *cfg = htp_config_create();
    htp_config_set_server_personality(cfg, HTP_SERVER_GENERIC);
    long idx = 0;
    for (size_t m = 0; m < N(MET); m++) for (size_t s = 0; s < N(ST); s++) for (int v11 = 0; v11 < 2; v11++)
    for (size_t t = 0; t < N(TE); t++) for (size_t c = 0; c < N(CL); c++) for (size_t cr = 0; cr < N(CLREP); cr++) for (size_t y = 0; y < N(CT); y++, idx++) {
        if (CL[c].s == NULL && cr > 0) continue;
        if (idx % nsh != shard) continue;
        htp_connp_t *g = htp_connp_create(cfg);
        htp_connp_open(g, "1.1.1.1", 1, "2.2.2.2", 80, NULL);
        char req[128]; int rl = snprintf(req, sizeof req, "%s / HTTP/1.1\r\nHost: h\r\n\r\n", MET[m]);
        htp_connp_req_data(g, NULL, req, (size_t) rl);
        unsigned char res[512]; size_t l = 0;
        l += (size_t) sprintf((char *) res + l, "HTTP/1.%d %d X\r\nServer: s\r\n", v11, ST[s]);
        if (TE[t].s) { l += (size_t) sprintf((char *) res + l, "Transfer-Encoding: "); memcpy(res + l, TE[t].s, TE[t].n); l += TE[t].n; memcpy(res + l, "\r\n", 2); l += 2; }
        if (CL[c].s) {
            l += (size_t) sprintf((char *) res + l, "Content-Length: "); memcpy(res + l, CL[c].s, CL[c].n); l += CL[c].n; memcpy(res + l, "\r\n", 2); l += 2;
            if (cr == 1) { l += (size_t) sprintf((char *) res + l, "Content-Length: "); memcpy(res + l, CL[c].s, CL[c].n); l += CL[c].n; memcpy(res + l, "\r\n", 2); l += 2; }
            if (cr == 2) l += (size_t) sprintf((char *) res + l, "content-length: 9\r\n");
        }
        if (CT[y].s) { l += (size_t) sprintf((char *) res + l, "Content-Type: "); memcpy(res + l, CT[y].s, CT[y].n); l += CT[y].n; memcpy(res + l, "\r\n", 2); l += 2; }
        memcpy(res + l, "\r\n", 2); l += 2;
        int rc = htp_connp_res_data(g, NULL, res, l);
        htp_tx_t *tx = htp_list_get(g->conn->transactions, 0);
        printf("{\"m\":\"%s\",\"status\":%d,\"ver11\":%s,\"te\":", MET[m], ST[s], v11 ? "true" : "false"); popts(TE[t].s, TE[t].n);
        printf(",\"cls\":[");
        if (CL[c].s) { pbytes((const unsigned char *) CL[c].s, CL[c].n); if (cr == 1) { putchar(','); pbytes((const unsigned char *) CL[c].s, CL[c].n); } if (cr == 2) printf(",[57]"); }
        printf("],\"ct\":"); popts(CT[y].s, CT[y].n);
        printf(",\"state\":\"%s\",\"rc\":\"%s\"", htp_connp_out_state_as_string(g),
               rc == HTP_STREAM_DATA ? "DATA" : rc == HTP_STREAM_ERROR ? "ERROR" : rc == HTP_STREAM_TUNNEL ? "TUNNEL" : rc == HTP_STREAM_DATA_OTHER ? "DATA_OTHER" : "OTHER");
        printf(",\"tc\":%d,\"sp\":%d,\"smug\":%s", tx ? (int) tx->response_transfer_coding : -9, tx ? (int) tx->response_progress : -9, (tx && (tx->flags & HTP_REQUEST_SMUGGLING)) ? "true" : "false");
        pnum("clc", "cl", tx ? tx->response_content_length : -9);
        printf(",\"ctype\":"); if (tx && tx->response_content_type) popts((const char *) bstr_ptr(tx->response_content_type), bstr_len(tx->response_content_type)); else printf("[]");
        printf("}\n");
        htp_connp_destroy_all(g);
    }
    htp_config_destroy(cfg);
    fflush(stdout);
    return 0;
}
