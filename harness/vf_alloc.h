/* Forced into libhtp translation units (-include) in the alloc/cov flavours: renames the
 * allocator so that the harness can count, measure and fail allocations.  No source change. */
#ifndef VF_ALLOC_H
#define VF_ALLOC_H
#include <stdlib.h>
#include <string.h>
#include <sys/time.h>
void *vf_malloc(size_t n, const char *fn, const char *ex);
void *vf_calloc(size_t a, size_t b, const char *fn, const char *ex);
void *vf_realloc(void *p, size_t n, const char *fn, const char *ex);
char *vf_strdup(const char *s, const char *fn, const char *ex);
void vf_free(void *p);
/* the wall-clock decompression-bomb heuristic is made deterministic: libhtp sees a clock that never advances */
int vf_gettimeofday(struct timeval *tv, void *tz);
#ifdef VF_COST
void *vf_memcpy(void *d, const void *s, size_t n);
void *vf_memmove(void *d, const void *s, size_t n);
#endif
#ifndef VF_ALLOC_IMPL
#define malloc(n) vf_malloc((n), __func__, #n)
#define calloc(a,b) vf_calloc((a),(b), __func__, #a "," #b)
#define realloc(p,n) vf_realloc((p),(n), __func__, #n)
#undef strdup
#define strdup(s) vf_strdup((s), __func__, #s)
#define free(p) vf_free(p)
#define gettimeofday(tv, tz) vf_gettimeofday((tv), (tz))
#ifdef VF_COST
#undef memcpy
#undef memmove
#define memcpy(d,s,n) vf_memcpy((d),(s),(n))
#define memmove(d,s,n) vf_memmove((d),(s),(n))
#endif
#endif
#endif
