/* C02 recorder: status lines through a real connection; reports whether the line was taken as a status line, the line as the
 * transaction has it, protocol / status / reason and the numbers.   fn_resline exh <maxatoms> <shard> <nshards> | fn_resline rand <seed> <count> */
#include <stdio.h>
#include <stdlib.h>
#include <string.h>
#include "htp/htp.h"
#include "htp/htp_private.h"

static void pbytes(const unsigned char *p, size_t n) { putchar('['); for (size_t i = 0; i < n; i++) printf(i ? ",%d" : "%d", p[i]); putchar(']'); }
static void popt(const bstr *b) { if (b == NULL) printf("[]"); else { putchar('['); pbytes(bstr_ptr(b), bstr_len(b)); putchar(']'); } }
static htp_cfg_t *cfg;

static void one(const unsigned char *line, size_t n) {
    htp_connp_t *connp = htp_connp_create(cfg);
    htp_connp_open(connp, "1.1.1.1", 1, "2.2.2.2", 80, NULL);
    static const char REQ[] = "GET / HTTP/1.1\r\nHost: h\r\n\r\n";
    htp_connp_req_data(connp, NULL, REQ, sizeof REQ - 1);
    unsigned char res[600];
    memcpy(res, line, n); memcpy(res + n, "\r\n", 2);
    htp_connp_res_data(connp, NULL, res, n + 2);
    htp_tx_t *tx = htp_list_get(connp->conn->transactions, 0);
    int isline = tx != NULL && tx->response_line != NULL;
    printf("{\"in\":"); pbytes(line, n);
    printf(",\"isline\":%s,\"started\":%s", isline ? "true" : "false", (tx && tx->response_progress > HTP_RESPONSE_LINE) ? "true" : "false");
    printf(",\"rl\":"); if (isline) pbytes(bstr_ptr(tx->response_line), bstr_len(tx->response_line)); else printf("[]");
    printf(",\"protocol\":"); popt(isline ? tx->response_protocol : NULL);
    printf(",\"status\":"); popt(isline ? tx->response_status : NULL);
    printf(",\"message\":"); popt(isline ? tx->response_message : NULL);
    printf(",\"pnum\":%d,\"snum\":%d}\n", isline ? tx->response_protocol_number : 0, isline ? tx->response_status_number : 0);
    htp_connp_destroy_all(connp);
}

static const char *ATOMS[] = {"HTTP/1.1", "HTTP/1.0", "http/1.1", "HTTP/2.0", "HTTP", "200", "404", "0200", "99", "1000", "20x", "OK", "Not Found", " ", "\t", "  ", "\x0c", "X", "hTtP/0.9"};      /* no CR inside the line: RES_LINE ends a line at a lone CR */
#define NATOMS 19

int main(int argc, char **argv) {
    cfg = htp_config_create();
    htp_config_set_server_personality(cfg, HTP_SERVER_GENERIC);
    unsigned char in[512];
    int NA = NATOMS + 1;
    if (argc >= 5 && !strcmp(argv[1], "exh")) {
        int maxa = atoi(argv[2]), shard = atoi(argv[3]), nsh = atoi(argv[4]);
        long idx = 0;
        for (int na = 1; na <= maxa; na++) {
            long total = 1; for (int i = 0; i < na; i++) total *= NA;
            for (long v = 0; v < total; v++, idx++) {
                if (idx % nsh != shard) continue;
                long t = v; int pick[8]; size_t l = 0;
                for (int i = na - 1; i >= 0; i--) { pick[i] = (int) (t % NA); t /= NA; }
                for (int i = 0; i < na; i++) {
                    if (pick[i] == NATOMS) { in[l++] = 0; continue; }
                    size_t al = strlen(ATOMS[pick[i]]); memcpy(in + l, ATOMS[pick[i]], al); l += al;
                }
                one(in, l);
            }
        }
    } else if (argc >= 4 && !strcmp(argv[1], "rand")) {
        srand((unsigned) atoi(argv[2]) * 2654435761u + 7);
        int count = atoi(argv[3]);
        for (int n = 0; n < count; n++) {
            size_t l = 0; int k = 1 + rand() % 8;
            for (int i = 0; i < k; i++) {
                int a = rand() % (NATOMS + 2);
                if (a >= NATOMS) { in[l++] = (unsigned char) "\0\x0b"[a - NATOMS]; continue; }
                size_t al = strlen(ATOMS[a]); memcpy(in + l, ATOMS[a], al); l += al;
            }
            one(in, l);
        }
    }
    htp_config_destroy(cfg);
    fflush(stdout);
    return 0;
}
