/* C17 recorder for byte-string and numeric primitives.
 *   fn_prim pair <maxlen> <shard> <nshards>   all pairs of strings over {a A b NUL} up to maxlen: compare / search / prefix / append
 *   fn_prim one <maxlen>                      all strings over {a A SP TAB LF b}: trim, lower-case
 *   fn_prim num                               digit strings around 2^31, 2^63, 65535, with leading zeros / LWS / junk: pint, C-L, chunk length
 *   fn_prim rand <seed> <count>               random pairs over all bytes */
#include <stdio.h>
#include <stdlib.h>
#include <string.h>
#include <inttypes.h>
#include "htp/htp.h"
#include "htp/htp_private.h"

static void pbytes(const unsigned char *p, size_t n) { putchar('['); for (size_t i = 0; i < n; i++) printf(i ? ",%d" : "%d", p[i]); putchar(']'); }
static void pnum(const char *kc, const char *kv, int64_t v) {
    /* value as a list of decimal digits (TLC integers are 32-bit), error code separately */
    if (v < 0) { printf(",\"%s\":%" PRId64 ",\"%s\":[]", kc, v, kv); return; }
    char buf[32]; snprintf(buf, sizeof buf, "%" PRId64, v);
    printf(",\"%s\":0,\"%s\":[", kc, kv);
    for (size_t i = 0; buf[i]; i++) printf(i ? ",%d" : "%d", buf[i] - '0');
    putchar(']');
}
static void pair(const unsigned char *a, size_t la, const unsigned char *b, size_t lb) {
    /* exact-size heap copies so that any over-read is visible to ASan */
    unsigned char *ha = malloc(la ? la : 1), *hb = malloc(lb ? lb : 1);
    memcpy(ha, a, la); memcpy(hb, b, lb);
    bstr *ba = bstr_dup_mem(ha, la), *bb = bstr_dup_mem(hb, lb);
    printf("{\"t\":\"pair\",\"a\":"); pbytes(a, la); printf(",\"b\":"); pbytes(b, lb);
    printf(",\"cmp\":%d,\"cmpnc\":%d,\"cmpncz\":%d", bstr_util_cmp_mem(ha, la, hb, lb), bstr_util_cmp_mem_nocase(ha, la, hb, lb), bstr_util_cmp_mem_nocasenorzero(ha, la, hb, lb));
    printf(",\"idx\":%d,\"idxnc\":%d,\"idxncz\":%d", bstr_util_mem_index_of_mem(ha, la, hb, lb), bstr_util_mem_index_of_mem_nocase(ha, la, hb, lb), bstr_util_mem_index_of_mem_nocasenorzero(ha, la, hb, lb));
    printf(",\"bw\":%d,\"bwnc\":%d", bstr_begins_with_mem(ba, hb, lb), bstr_begins_with_mem_nocase(ba, hb, lb));
    bstr *g = bstr_dup_mem(ha, la); g = bstr_add_mem(g, hb, lb);
    printf(",\"add\":"); pbytes(bstr_ptr(g), bstr_len(g)); bstr_free(g);
    size_t size = la + (lb > 0 ? lb - 1 : 0);            /* room for all but one byte of b */
    bstr *n = bstr_alloc(size); n = bstr_add_mem_noex(n, ha, la); n = bstr_add_mem_noex(n, hb, lb);
    printf(",\"size\":%zu,\"addnoex\":", size); pbytes(bstr_ptr(n), bstr_len(n)); bstr_free(n);
    printf("}\n");
    bstr_free(ba); bstr_free(bb); free(ha); free(hb);
}
static void one(const unsigned char *a, size_t la) {
    unsigned char *ha = malloc(la ? la : 1); memcpy(ha, a, la);
    unsigned char *d = ha; size_t l = la;
    bstr_util_mem_trim(&d, &l);
    bstr *lo = bstr_dup_mem(ha, la); bstr_to_lowercase(lo);
    printf("{\"t\":\"one\",\"a\":"); pbytes(a, la); printf(",\"trim\":"); pbytes(d, l); printf(",\"lower\":"); pbytes(bstr_ptr(lo), bstr_len(lo)); printf("}\n");
    bstr_free(lo); free(ha);
}
static void num(const char *s) {
    size_t n = strlen(s);
    unsigned char *h = malloc(n ? n : 1); memcpy(h, s, n);
    size_t l10 = 0, l16 = 0;
    int64_t p10 = bstr_util_mem_to_pint(h, n, 10, &l10), p16 = bstr_util_mem_to_pint(h, n, 16, &l16);
    bstr *b = bstr_dup_mem(h, n);
    int64_t cl = htp_parse_content_length(b, NULL);
    int64_t ch = htp_parse_chunked_length(h, n, NULL);
    printf("{\"t\":\"num\",\"a\":"); pbytes(h, n);
    pnum("p10c", "p10", p10); pnum("p16c", "p16", p16);
    /* lastlen is documented as the position of the first byte after the number */
    printf(",\"p10used\":%zu,\"p16used\":%zu", l10, l16);
    pnum("clc", "cl", cl); pnum("chc", "ch", ch);
    pnum("w10c", "w10", htp_parse_positive_integer_whitespace(h, n, 10)); pnum("w16c", "w16", htp_parse_positive_integer_whitespace(h, n, 16));
    printf(",\"status\":%d", htp_parse_status(b));
    printf("}\n");
    bstr_free(b); free(h);
}
int main(int argc, char **argv) {
    static const unsigned char A4[] = {'a', 'A', 'b', 0};
    static const unsigned char A6[] = {'a', 'A', ' ', '\t', '\n', 'b'};
    unsigned char a[16], b[16];
    if (argc >= 5 && !strcmp(argv[1], "pair")) {
        int maxlen = atoi(argv[2]), shard = atoi(argv[3]), nsh = atoi(argv[4]);
        long idx = 0;
        for (int la = 0; la <= maxlen; la++) { long ta = 1; for (int i = 0; i < la; i++) ta *= 4;
          for (long va = 0; va < ta; va++) { long t = va; for (int i = la - 1; i >= 0; i--) { a[i] = A4[t % 4]; t /= 4; }
            for (int lb = 0; lb <= maxlen; lb++) { long tb = 1; for (int i = 0; i < lb; i++) tb *= 4;
              for (long vb = 0; vb < tb; vb++, idx++) { if (idx % nsh != shard) continue;
                long u = vb; for (int i = lb - 1; i >= 0; i--) { b[i] = A4[u % 4]; u /= 4; }
                pair(a, (size_t) la, b, (size_t) lb); } } } }
    } else if (argc >= 3 && !strcmp(argv[1], "one")) {
        int maxlen = atoi(argv[2]);
        for (int la = 0; la <= maxlen; la++) { long ta = 1; for (int i = 0; i < la; i++) ta *= 6;
          for (long va = 0; va < ta; va++) { long t = va; for (int i = la - 1; i >= 0; i--) { a[i] = A6[t % 6]; t /= 6; } one(a, (size_t) la); } }
    } else if (argc >= 2 && !strcmp(argv[1], "num")) {
        static const char *BASE[] = {"0", "1", "9", "10", "65535", "65536", "2147483647", "2147483648", "2147483646", "4294967295", "4294967296",
            "9223372036854775807", "9223372036854775808", "9223372036854775806", "18446744073709551615", "18446744073709551616", "99999999999999999999",
            "7fffffff", "80000000", "7FFFFFFF", "ffffffff", "100000000", "7fffffffffffffff", "8000000000000000", "ffffffffffffffff", "10000000000000000",
            "99", "100", "200", "999", "1000", "0200", "a", "f", "g", "z", "", "12a", "1f", "0x10", "-1", "+1", "1e3", "00000000000000000000001", "000", "0000000000000000000009223372036854775807"};
        static const char *PRE[] = {"", " ", "\t", "  ", "0", "00", "x", "\r\n", ";", "-"};
        static const char *POST[] = {"", " ", "\t", " x", ";ext", "\r\n", "g", ".5", " 1"};
        for (size_t i = 0; i < sizeof BASE / sizeof *BASE; i++) for (size_t p = 0; p < sizeof PRE / sizeof *PRE; p++) for (size_t q = 0; q < sizeof POST / sizeof *POST; q++) {
            char s[128]; snprintf(s, sizeof s, "%s%s%s", PRE[p], BASE[i], POST[q]); num(s);
        }
    } else if (argc >= 4 && !strcmp(argv[1], "rand")) {
        srand((unsigned) atoi(argv[2]) * 2654435761u + 11);
        int count = atoi(argv[3]);
        for (int n = 0; n < count; n++) {
            int la = rand() % 9, lb = rand() % 5;
            for (int i = 0; i < la; i++) a[i] = (rand() % 3) ? (unsigned char) "aAbB\0zZ"[rand() % 7] : (unsigned char) (rand() % 256);
            for (int i = 0; i < lb; i++) b[i] = (rand() % 2) ? a[rand() % (la ? la : 1)] : (unsigned char) "aAbB\0zZ"[rand() % 7];
            if (lb > 0 && la >= lb && rand() % 2) memcpy(b, a + rand() % (la - lb + 1), (size_t) lb);
            pair(a, (size_t) la, b, (size_t) lb);
        }
    }
    return 0;
}
